"""Type-hint helper functions of jsonargparse/_typehints.py, _util.py and _common.py (C02, C14, C10).

Type hints are records as in contracts/adapt_arms.py / any_units.py: a parametrised hint has `__origin__` and `__args__`, a class has neither
(`__name__` only); the typing constants the bodies read (Union, Tuple, List, NoneType, Ellipsis, Enum ...) are records handed in as `consts`, so
`x in {Tuple, tuple}`, `a == NoneType`, `origin == Union` are decided by identity exactly as CPython decides them for the real objects.
Scenario *shapes* (which hint, which value kind) are enumerated exhaustively; texts (messages, option names, values) are symbolic strings / integers.

Optional[T] is Union[T, None] (C02: ... independently of the order in which the members are written)
  is_optional                 true exactly for a Union of two members one of which is None - in either order - (and, with ref_type, whose other member
                              is a subclass of ref_type); never for a 3-member Union, a bare type, a container
  get_optional_arg            Optional[T] (either order) -> T; every other hint is returned as it is (is_optional interpreted from its real body)
  is_ellipsis_tuple           exactly Tuple[T, ...] / tuple[T, ...]: a fixed-arity tuple, a 1-tuple and the empty tuple are not
  is_enum_type                an Enum class, or a Union with an Enum member at any position
  is_callable_type            Callable / Callable[..] / abc.Callable, or a Union with such a member at any position
  typehint_from_action        an action is judged by its own _typehint (None when it has none), anything else is the hint itself
  get_typehint_origin         __origin__ when there is one; X | Y (types.UnionType) -> Union; a TypedDict class -> dict; a plain class -> None
  get_callable_return_type    the last parameter of Callable[[..], R]; None for a bare Callable / empty parameters
  ActionTypeHint.is_mapping_typehint / is_callable_typehint / is_return_subclass_typehint / supports_append / _is_valid_string
                              the Optional form, in either member order, is classified like the bare form
rejection is always the documented error (C02)
  raise_unexpected_value      always ValueError; the message is the given one, with ". Got value: <val>" appended iff a value was given (None is a value);
                              chained to the given exception
  raise_union_unexpected_value always ValueError chained to the first member's exception; the text ends with the given value
  argument_error              an ArgumentError not tied to an argument, carrying the message unchanged
  literal_to_str / type_to_str  None is spelled null; a class by its name; typing prefixes are dropped
class_path accepted iff subclass / implements the protocol (C14)
  is_protocol, is_subclass_or_implements_protocol, is_instance_or_supports_protocol, implements_protocol, _common.is_subclass
  yield_subclass_types / get_subclass_types / get_subclass_names, get_all_subclass_paths (outer), adapt_partial_callable_class,
  serialize_class_instance, is_init_arg_mapping_typehint, prepare_add_argument, add_sub_defaults (+ skip_sub_defaults_apply)
lazy instances (C14: constructed once with exactly the configured init_args)
  check_lazy_kwargs, LazyInitBaseClass.__init__ / _lazy_init / lazy_get_init_args / lazy_get_init_data, lazy_instance
small utilities: unique, iter_to_set_str, indent_text, get_private_kwargs, is_final_class, is_generic_class, get_generic_origin,
  get_unaliased_type, is_dataclass_like
(each unit's clauses are spelled out in the obligation names)
"""
import re as _re

import z3

from contracts.adapt_arms import suppress_cm
from pyvc.engine import ClassRef, Closure, ExcVal, Fn, PyRaise, Rec, Unsupported, is_z3, lift
from pyvc.units import Setup, Unit

TH = "jsonargparse._typehints:"
UT = "jsonargparse._util:"
CM = "jsonargparse._common:"


def _no_exc(ctx, st, exc):
    ctx.oblige("raises", f"never-raises(got {exc.cls}@{exc.origin})", False)


def truthy(v):
    if is_z3(v):
        raise Unsupported("symbolic result where a concrete truth value is expected")
    if isinstance(v, Rec):
        return v.truthy
    return bool(v)


# ------------------------------------------------------------------------------------------------ the universe of hints
class U:
    """The typing objects the bodies compare against, and a few classes, as records (fresh per path).  As in CPython >= 3.7 the bare typing aliases
    carry the runtime class as `__origin__` and no `__args__` (typing.List.__origin__ is list), and a parametrised hint carries the runtime class too
    (typing.List[int].__origin__ is list, typing.Callable[[int], A].__origin__ is collections.abc.Callable); Union[...] has typing.Union as origin."""

    def __init__(self):
        mk = lambda n, **a: Rec(n, attrs=dict(a))
        self.Union, self.NoneType, self.Ellipsis = mk("typing.Union"), mk("class NoneType", __name__="NoneType"), mk("Ellipsis")
        self.tuple, self.list, self.set, self.dict, self.type, self.object = (mk("class " + n, __name__=n) for n in ("tuple", "list", "set", "dict", "type", "object"))
        self.abcCallable, self.abcMapping = mk("collections.abc.Callable"), mk("collections.abc.Mapping")
        self.Tuple, self.List, self.Set, self.Dict, self.Type = mk("typing.Tuple", __origin__=self.tuple), mk("typing.List", __origin__=self.list), mk("typing.Set", __origin__=self.set), mk("typing.Dict", __origin__=self.dict), mk("typing.Type", __origin__=self.type)
        self.Mapping, self.Callable = mk("typing.Mapping", __origin__=self.abcMapping), mk("typing.Callable", __origin__=self.abcCallable)
        self.runtime = {id(self.Tuple): self.tuple, id(self.List): self.list, id(self.Set): self.set, id(self.Dict): self.dict, id(self.Type): self.type, id(self.Mapping): self.abcMapping, id(self.Callable): self.abcCallable}
        self.Enum, self.Path, self.Literal = mk("class Enum", __name__="Enum"), mk("class Path", __name__="Path"), mk("typing.Literal")
        self.int, self.str, self.bool, self.float = (mk("class " + n, __name__=n) for n in ("int", "str", "bool", "float"))
        self.Color = mk("class Color", __name__="Color")  # an Enum subclass
        self.A, self.B = mk("class A", __name__="A"), mk("class B", __name__="B")  # plain classes, B derives from A
        self.bases = {id(self.Color): [self.Enum], id(self.B): [self.A], id(self.bool): [self.int]}
        self.classes = [self.NoneType, self.tuple, self.list, self.set, self.dict, self.type, self.object, self.Enum, self.Path, self.int, self.str, self.bool, self.float, self.Color, self.A, self.B]

    def g(self, origin, *args):
        return Rec("hint", attrs={"__origin__": self.runtime.get(id(origin), origin), "__args__": tuple(args)})

    def isclass(self, x):
        return any(x is c for c in self.classes)

    def issub(self, x, base):
        """issubclass for the classes of the universe (reflexive, transitive, everything derives from object); False for anything that is no class."""
        if not self.isclass(x):
            return False
        bases = base if isinstance(base, tuple) else (base,)
        todo, seen = [x], []
        while todo:
            c = todo.pop()
            if any(c is b for b in bases):
                return True
            if any(c is s for s in seen):
                continue
            seen.append(c)
            todo.extend(self.bases.get(id(c), []))
        return any(b is self.object for b in bases)

    def origin(self, x):
        return x.attrs.get("__origin__") if isinstance(x, Rec) else None

    def consts(self, *builtin_names):
        """The module constants; the builtin classes named (tuple, type, object ...) only where the body compares against them (elsewhere the names stay the builtins: tuple(x), isinstance(x, tuple))."""
        extra = {n: getattr(self, n) for n in builtin_names}
        return {**extra, "Union": self.Union, "NoneType": self.NoneType, "Ellipsis": self.Ellipsis, "Tuple": self.Tuple, "Enum": self.Enum, "Path": self.Path,
                "List": self.List, "Dict": self.Dict, "Type": self.Type,
                "callable_origin_types": {self.Callable, self.abcCallable}, "sequence_origin_types": {self.List, self.list}, "mapping_origin_types": {self.Dict, self.dict, self.Mapping, self.abcMapping}}

    def calls(self):
        return {"get_typehint_origin": lambda c, a, k: self.origin(a[0]), "is_subclass": lambda c, a, k: self.issub(a[0], a[1]), "get_unaliased_type": lambda c, a, k: a[0],
                "inspect.isclass": lambda c, a, k: self.isclass(a[0])}


def hint_table(u):
    """name -> hint, for the scenario enumerations."""
    N = u.NoneType
    t = {
        "int": u.int, "None": N, "A": u.A, "Color": u.Color, "dict": u.dict, "list": u.list,
        "Union[int,None]": u.g(u.Union, u.int, N), "Union[None,int]": u.g(u.Union, N, u.int), "Union[int,str]": u.g(u.Union, u.int, u.str), "Union[int,str,None]": u.g(u.Union, u.int, u.str, N),
        "Union[None,int,str]": u.g(u.Union, N, u.int, u.str), "Union[bool,None]": u.g(u.Union, u.bool, N), "Union[None,bool]": u.g(u.Union, N, u.bool),
        "Union[Color,None]": u.g(u.Union, u.Color, N), "Union[None,Color]": u.g(u.Union, N, u.Color), "Union[int,Color]": u.g(u.Union, u.int, u.Color), "Union[Color,int,str]": u.g(u.Union, u.Color, u.int, u.str),
        "Union[A,None]": u.g(u.Union, u.A, N), "Union[None,A]": u.g(u.Union, N, u.A), "Union[A,B]": u.g(u.Union, u.A, u.B), "Union[A,int]": u.g(u.Union, u.A, u.int),
        "List[int]": u.g(u.List, u.int), "list[int]": u.g(u.list, u.int), "List[A]": u.g(u.List, u.A), "Dict[str,int]": u.g(u.Dict, u.str, u.int), "dict[str,int]": u.g(u.dict, u.str, u.int),
        "Mapping[str,int]": u.g(u.Mapping, u.str, u.int), "Set[int]": u.g(u.Set, u.int),
        "Tuple[int,...]": u.g(u.Tuple, u.int, u.Ellipsis), "tuple[int,...]": u.g(u.tuple, u.int, u.Ellipsis), "Tuple[int,str]": u.g(u.Tuple, u.int, u.str), "Tuple[int]": u.g(u.Tuple, u.int),
        "Tuple[()]": u.g(u.Tuple), "Tuple[int,str,float]": u.g(u.Tuple, u.int, u.str, u.float), "tuple[int,str]": u.g(u.tuple, u.int, u.str),
        "Callable": u.Callable, "abc.Callable": u.abcCallable, "Callable[[int],A]": u.g(u.Callable, u.int, u.A), "abc.Callable[[int],A]": u.g(u.abcCallable, u.int, u.A), "Callable[[int],B]": u.g(u.Callable, u.int, u.B), "Callable[[int],int]": u.g(u.Callable, u.int, u.int),
        "Callable[[],A]": u.g(u.Callable, u.A), "Callable[no-args]": u.g(u.Callable),
        "Type[A]": u.g(u.Type, u.A),
    }
    t["Union[List[int],None]"] = u.g(u.Union, t["List[int]"], N)
    t["Union[None,List[int]]"] = u.g(u.Union, N, t["List[int]"])
    t["Union[int,List[int]]"] = u.g(u.Union, u.int, t["List[int]"])
    t["Union[List[int],int]"] = u.g(u.Union, t["List[int]"], u.int)
    t["Union[Dict[str,int],None]"] = u.g(u.Union, t["Dict[str,int]"], N)
    t["Union[None,Dict[str,int]]"] = u.g(u.Union, N, t["Dict[str,int]"])
    t["Union[None,dict]"] = u.g(u.Union, N, u.dict)
    t["Union[Dict[str,int],int]"] = u.g(u.Union, t["Dict[str,int]"], u.int)
    t["Union[Callable[[int],A],None]"] = u.g(u.Union, t["Callable[[int],A]"], N)
    t["Union[None,Callable[[int],A]]"] = u.g(u.Union, N, t["Callable[[int],A]"])
    t["Union[None,Callable[[int],int]]"] = u.g(u.Union, N, t["Callable[[int],int]"])
    t["Union[int,Callable[[int],A]]"] = u.g(u.Union, u.int, t["Callable[[int],A]"])
    t["Union[None,Callable]"] = u.g(u.Union, N, u.Callable)
    t["Union[str,int]"] = u.g(u.Union, u.str, u.int)
    t["Union[int,str]#"] = t["Union[int,str]"]
    return t


def pick(ctx, names, label):
    return names[ctx.choose(len(names), label)]


# ------------------------------------------------------------------------------------------------ is_optional / get_optional_arg
OPT_HINTS = ["int", "Union[int,None]", "Union[None,int]", "Union[int,str]", "Union[int,str,None]", "Union[None,int,str]", "Union[bool,None]", "Union[None,bool]", "Union[Color,None]", "Union[None,Color]",
             "List[int]", "Dict[str,int]", "Union[Dict[str,int],None]", "Union[None,dict]", "None"]
REFS = ["no-ref", "int", "Enum", "(dict,Dict)", "str"]


def opt_setup(ctx):
    u = U()
    t = hint_table(u)
    hk, rk = pick(ctx, OPT_HINTS, "annotation"), pick(ctx, REFS, "ref_type")
    ref = {"no-ref": None, "int": u.int, "Enum": u.Enum, "(dict,Dict)": (u.dict, u.Dict), "str": u.str}[rk]
    env = {"annotation": t[hk]}
    if rk != "no-ref":
        env["ref_type"] = ref
    return Setup(env=env, calls=u.calls(), consts=u.consts(), inline={"is_optional": TH + "is_optional"}, data=dict(u=u, t=t, hk=hk, rk=rk, ref=ref))


def opt_other_member(d):
    """(is a two-member Union with None, the other member) by the *definition* Optional[T] = Union[T, None]."""
    u, h = d["u"], d["t"][d["hk"]]
    if u.origin(h) is not u.Union:
        return False, None
    args = h.attrs["__args__"]
    if len(args) != 2 or not any(a is u.NoneType for a in args):
        return False, None
    other = [a for a in args if a is not u.NoneType]
    return True, (other[0] if other else None)


def opt_expected(d):
    u = d["u"]
    is_opt, other = opt_other_member(d)
    if not is_opt:
        return False
    if d["ref"] is None or other is None:
        return True
    return u.issub(other, d["ref"])


def opt_post(ctx, st, result):
    d = st.data
    ctx.oblige("post", f"Optional[T]-is-exactly-a-Union-of-T-and-None,in-either-order(with ref_type: T a subclass of it)[{d['hk']},ref={d['rk']}]", truthy(result) is opt_expected(d))


def goa_post(ctx, st, result):
    d = st.data
    h = d["t"][d["hk"]]
    if opt_expected(d):
        ctx.oblige("post", f"Optional[T]->T-whichever-member-comes-first[{d['hk']},ref={d['rk']}]", result is opt_other_member(d)[1])
    else:
        ctx.oblige("post", f"any-other-hint-is-returned-as-it-is[{d['hk']},ref={d['rk']}]", result is h)


# ------------------------------------------------------------------------------------------------ is_ellipsis_tuple / is_enum_type / is_callable_type
ELL_HINTS = ["Tuple[int,...]", "tuple[int,...]", "Tuple[int,str]", "tuple[int,str]", "Tuple[int]", "Tuple[()]", "Tuple[int,str,float]", "List[int]", "Set[int]", "Union[int,None]"]


def ell_setup(ctx):
    u = U()
    t = hint_table(u)
    hk = pick(ctx, ELL_HINTS, "typehint")
    return Setup(env={"typehint": t[hk]}, calls=u.calls(), consts=u.consts("tuple"), data=dict(hk=hk))


def ell_post(ctx, st, result):
    hk = st.data["hk"]
    ctx.oblige("post", f"a-tuple-of-any-length-is-exactly-Tuple[T, ...](a fixed-arity tuple, a 1-tuple, the empty tuple, a list are not)[{hk}]", truthy(result) is (hk in ("Tuple[int,...]", "tuple[int,...]")))


ENUM_HINTS = ["Color", "Enum", "int", "A", "Union[Color,None]", "Union[None,Color]", "Union[int,Color]", "Union[Color,int,str]", "Union[int,str]", "Union[int,None]", "List[int]", "None"]


def enum_setup(ctx):
    u = U()
    t = hint_table(u)
    t["Enum"] = u.Enum
    hk = pick(ctx, ENUM_HINTS, "annotation")
    return Setup(env={"annotation": t[hk]}, calls=u.calls(), consts=u.consts(), data=dict(hk=hk))


def enum_post(ctx, st, result):
    hk = st.data["hk"]
    ctx.oblige("post", f"an-Enum-type-is-an-Enum-class-or-a-Union-with-an-Enum-member-at-any-position[{hk}]", truthy(result) is ("Color" in hk or hk == "Enum"))


CALL_HINTS = ["Callable", "abc.Callable", "Callable[[int],A]", "abc.Callable[[int],A]", "Union[Callable[[int],A],None]", "Union[None,Callable[[int],A]]", "Union[int,Callable[[int],A]]", "Union[None,Callable]",
              "int", "A", "Union[int,str]", "List[int]", "Type[A]"]


def callt_setup(ctx):
    u = U()
    t = hint_table(u)
    hk = pick(ctx, CALL_HINTS, "annotation")
    return Setup(env={"annotation": t[hk]}, calls=u.calls(), consts=u.consts(), data=dict(hk=hk))


def callt_post(ctx, st, result):
    hk = st.data["hk"]
    ctx.oblige("post", f"a-callable-type-is-Callable(bare or parametrised, typing or abc)-or-a-Union-with-such-a-member-at-any-position[{hk}]", truthy(result) is ("Callable" in hk))


# ------------------------------------------------------------------------------------------------ typehint_from_action / get_typehint_origin / get_callable_return_type
def tfa_setup(ctx):
    k = pick(ctx, ["typed-action", "action-without-_typehint", "subclass-of-Action", "hint", "None", "a-class"], "given")
    ctx.classes.add("Action", [])
    ctx.classes.add("ActionTypeHint", ["Action"])
    hint = Rec("hint")
    given = {"typed-action": Rec("ActionTypeHint", attrs={"_typehint": hint}), "action-without-_typehint": Rec("Action", attrs={"dest": "x"}), "subclass-of-Action": Rec("ActionTypeHint", attrs={"_typehint": hint, "dest": "y"}),
             "hint": hint, "None": None, "a-class": Rec("class str", attrs={"_typehint": "not-an-action's"})}[k]
    return Setup(env={"action_or_typehint": given}, consts={"Action": ClassRef("Action")}, data=dict(k=k, hint=hint, given=given))


def tfa_post(ctx, st, result):
    d = st.data
    k = d["k"]
    if k in ("typed-action", "subclass-of-Action"):
        ctx.oblige("post", f"an-action-is-judged-by-its-own-_typehint[{k}]", result is d["hint"])
    elif k == "action-without-_typehint":
        ctx.oblige("post", f"an-action-without-a-type-has-no-hint(None)[{k}]", result is None)
    else:
        ctx.oblige("post", f"anything-that-is-not-an-action-is-the-hint-itself[{k}]", result is d["given"])


def gto_setup(ctx):
    k = pick(ctx, ["generic(__origin__)", "X|Y(types.UnionType)", "TypedDict(typing)", "TypedDict(typing_extensions)", "plain-class", "instance-of-some-class"], "typehint")
    u = U()
    origin = Rec("origin")
    meta = {"X|Y(types.UnionType)": "types.UnionType", "TypedDict(typing)": "typing._TypedDictMeta", "TypedDict(typing_extensions)": "typing_extensions._TypedDictMeta", "plain-class": "builtins.type",
            "instance-of-some-class": "pkg.Some", "None": "builtins.NoneType", "generic(__origin__)": "typing._GenericAlias"}[k]
    metacls = Rec("metaclass", attrs={"path": meta})
    if k == "generic(__origin__)":
        hint = Rec("hint", attrs={"__origin__": origin, "__args__": (u.int,), "__class__": metacls})
    elif k == "None":
        hint = None
    else:
        hint = Rec("hint", attrs={"__class__": metacls})

    def get_import_path(c, a, kw):
        if isinstance(a[0], ClassRef) and a[0].name == "NoneType":
            return "builtins.NoneType"
        return a[0].attrs["path"]

    return Setup(env={"typehint": hint}, calls={"get_import_path": get_import_path}, consts={"Union": u.Union, "dict": u.dict}, data=dict(k=k, u=u, origin=origin))


def gto_post(ctx, st, result):
    d = st.data
    k = d["k"]
    want = {"generic(__origin__)": d["origin"], "X|Y(types.UnionType)": d["u"].Union}.get(k, d["u"].dict if k.startswith("TypedDict") else None)
    ctx.oblige("post", f"origin:__origin__-of-a-parametrised-hint;Union-for-X|Y;dict-for-a-TypedDict-class;None-for-anything-else[{k}]", result is want)


RET_HINTS = ["Callable[[int],A]", "Callable[[],A]", "Callable[[int],int]", "Callable", "Callable[no-args]", "int"]


def gcr_setup(ctx):
    u = U()
    t = hint_table(u)
    t["None"] = None
    hk = pick(ctx, RET_HINTS, "typehint")
    return Setup(env={"typehint": t[hk]}, data=dict(hk=hk, u=u))


def gcr_post(ctx, st, result):
    d = st.data
    u, hk = d["u"], d["hk"]
    want = {"Callable[[int],A]": u.A, "Callable[[],A]": u.A, "Callable[[int],int]": u.int}.get(hk)
    ctx.oblige("post", f"the-return-type-of-Callable[[..], R]-is-its-last-parameter;a-bare-Callable(or anything without parameters)-has-none[{hk}]", result is want)


# ------------------------------------------------------------------------------------------------ raise_unexpected_value / raise_union_unexpected_value / argument_error
EMPTY = Rec("inspect._empty")


def ruv_setup(ctx):
    vk = pick(ctx, ["no-value", "text", "int", "None", "empty-text"], "val")
    ek = pick(ctx, ["no-exception", "exception"], "exception")
    msg = z3.String("message")
    val = {"no-value": EMPTY, "text": z3.String("val"), "int": z3.Int("val"), "None": None, "empty-text": ""}[vk]
    ex = ExcVal("TypeError", ("inner",), origin="given") if ek == "exception" else None
    env = {"message": msg}
    if vk != "no-value":
        env["val"] = val
    if ek == "exception":
        env["exception"] = ex
    return Setup(env=env, consts={"inspect._empty": EMPTY}, data=dict(vk=vk, ek=ek, msg=msg, val=val, ex=ex), watch={"message": msg})


def ruv_post(ctx, st, result):
    ctx.oblige("post", f"never-returns[{st.data['vk']}]", False)


def ruv_raises(ctx, st, exc):
    d = st.data
    tag = f"[{d['vk']},{d['ek']}]"
    ctx.oblige("raises", "rejection-is-always-a-ValueError" + tag, exc.cls == "ValueError")
    ok = len(exc.args) == 1 and (is_z3(exc.args[0]) or isinstance(exc.args[0], str))
    ctx.oblige("raises", "one-message-text" + tag, ok)
    if ok:
        got = lift(exc.args[0])
        if d["vk"] == "no-value":
            ctx.oblige("raises", "without-a-value-the-message-is-the-given-one" + tag, got == d["msg"])
        elif d["vk"] in ("text", "empty-text"):
            ctx.oblige("raises", "with-a-value(an empty text is one)-the-message-is-the-given-one-followed-by-'. Got value: <val>'" + tag, got == z3.Concat(d["msg"], z3.StringVal(". Got value: "), lift(d["val"])))
        else:
            ctx.oblige("raises", "with-a-value(None is one)-the-message-starts-with-the-given-one-followed-by-'. Got value: '" + tag, z3.PrefixOf(z3.Concat(d["msg"], z3.StringVal(". Got value: ")), got))
    ctx.oblige("raises", "chained-to-the-exception-given(none: no cause)" + tag, exc.cause is d["ex"])


def ruu_setup(ctx):
    n = 1 + ctx.choose(3, "number-of-Union-members")
    vk = pick(ctx, ["text", "int", "None"], "val")
    val = {"text": z3.String("val"), "int": z3.Int("val"), "None": None}[vk]
    excs = [ExcVal("ValueError", (z3.String(f"msg{i}"),), origin=f"member{i}") for i in range(n)]
    subtypes = tuple(Rec(f"subtype{i}") for i in range(n))
    calls = {"indent_text": lambda c, a, k: z3.Function("indent_text", z3.StringSort(), z3.BoolSort(), z3.StringSort())(lift(a[0]), z3.BoolVal(bool(k.get("first_line", True)))),
             "errors.replace": lambda c, a, k: c.fresh("errors", z3.StringSort()),
             "errors.replace(f'. Got value: {val}', '').replace": lambda c, a, k: c.fresh("errors", z3.StringSort())}
    return Setup(env={"subtypes": subtypes, "val": val, "exceptions": list(excs)}, calls=calls, data=dict(n=n, vk=vk, val=val, excs=excs))


def ruu_post(ctx, st, result):
    ctx.oblige("post", "never-returns", False)


def ruu_raises(ctx, st, exc):
    d = st.data
    tag = f"[{d['n']} members,{d['vk']}]"
    ctx.oblige("raises", "a-value-no-member-accepts-is-rejected-by-a-ValueError(not one of the members' own classes leaking)" + tag, exc.cls == "ValueError" and exc.origin.startswith("raise@"))
    ctx.oblige("raises", "chained-to-the-first-member's-exception" + tag, exc.cause is d["excs"][0])
    ok = len(exc.args) == 1 and is_z3(exc.args[0])
    ctx.oblige("raises", "one-message-text" + tag, ok)
    if ok and d["vk"] == "text":
        ctx.oblige("raises", "the-text-ends-with-'Given value: <val>'" + tag, z3.SuffixOf(z3.Concat(z3.StringVal("\nGiven value: "), d["val"]), exc.args[0]))
    elif ok:
        ctx.oblige("raises", "the-text-names-the-given-value" + tag, z3.Contains(exc.args[0], z3.StringVal("\nGiven value: ")))


def ae_setup(ctx):
    msg = z3.String("message")
    return Setup(env={"message": msg}, data=dict(msg=msg))


def ae_post(ctx, st, result):
    ok = isinstance(result, ExcVal) and result.cls == "ArgumentError" and len(result.args) == 2
    ctx.oblige("post", "the-documented-error-class:an-ArgumentError", ok)
    if ok:
        ctx.oblige("post", "not-tied-to-an-argument(None)-and-carrying-the-message-unchanged", result.args[0] is None and lift(result.args[1]) == st.data["msg"])


# ------------------------------------------------------------------------------------------------ literal_to_str / type_to_str
def lts_setup(ctx):
    k = pick(ctx, ["None", "text", "int", "True", "False", "'null'"], "val")
    val = {"None": None, "text": z3.String("val"), "int": z3.Int("val"), "True": True, "False": False, "'null'": "null"}[k]
    return Setup(env={"val": val}, data=dict(k=k, val=val))


def lts_post(ctx, st, result):
    d = st.data
    k, val = d["k"], d["val"]
    if k == "None":
        ctx.oblige("post", "None-is-spelled-null", result == "null")
    elif k == "text":
        ctx.oblige("post", "a-text-member-is-spelled-as-it-is", lift(result) == val)
    elif k == "int":
        ctx.oblige("post", "an-integer-member-is-spelled-in-decimal", lift(result) == z3.If(val >= 0, z3.IntToStr(val), z3.Concat(z3.StringVal("-"), z3.IntToStr(-val))))
    else:
        ctx.oblige("post", f"str()-of-the-member[{k}]", result == str(val))


TTS = {  # obj kind -> (text of str(obj), expected)
    "bool": ("<class 'bool'>", "bool"), "tuple": ("<class 'tuple'>", "tuple"), "int": ("<class 'int'>", "int"), "Color": ("<enum 'Color'>", "Color"), "Path": ("<class 'jsonargparse._util.Path'>", "Path"),
    "Optional[int]": ("typing.Optional[int]", "Optional[int]"), "Union[int,NoneType]": ("typing.Union[int, NoneType]", "Union[int, null]"),
    "List[pkg.mod.Cls]": ("typing.List[pkg.mod.Cls]", "List[Cls]"), "List[pkg2.mod.Cls]": ("typing.List[pkg2.mod.Cls]", "List[Cls]"), "Dict[str,Optional[pkg.Cls]]": ("typing.Dict[str, typing.Optional[pkg.Cls]]", "Dict[str, Optional[Cls]]"),
    "plain-class": ("<class 'pkg.mod.Cls'>", "<class 'Cls'>"), "Callable[[int],a_b.C]": ("typing.Callable[[int], a_b.C9]", "Callable[[int], C9]"), "f.<locals>.C": ("<class 'm.f.<locals>.C'>", "<class 'C'>"),
}


def tts_setup(ctx):
    k = pick(ctx, list(TTS), "obj")
    u = U()
    named = {"bool": u.bool, "tuple": u.tuple, "int": u.int, "Color": u.Color, "Path": u.Path}
    obj = named[k] if k in named else Rec("hint", attrs={"__name__": "WRONG"})
    obj.methods["__str__"] = lambda c, s_, a, kw: TTS[k][0]
    base_of = {"int": "int", "bool": "int", "Color": u.Enum, "Path": u.Path}  # the base class through which the scenario's class qualifies

    def is_subclass(c, a, kw):
        b = base_of.get(k)
        return any((isinstance(x, ClassRef) and x.name == b) or x is b for x in (a[1] if isinstance(a[1], tuple) else (a[1],)))

    calls = {"is_subclass": is_subclass}
    calls["re.sub"] = lambda c, a, kw: _re.sub(a[0], a[1], a[2]) if all(isinstance(x, str) for x in a) and not kw else (_ for _ in ()).throw(Unsupported("re.sub on symbolic text"))
    return Setup(env={"obj": obj}, calls=calls, consts={"bool": u.bool, "tuple": u.tuple, "Enum": u.Enum, "Path": u.Path}, data=dict(k=k))


def tts_post(ctx, st, result):
    k = st.data["k"]
    ctx.oblige("post", f"a-basic/Path/Enum-class-is-shown-by-its-name;any-other-hint-by-its-text-without-module-prefixes,None-spelled-null[{k}]", result == TTS[k][1], note=repr(result))


# ------------------------------------------------------------------------------------------------ unit lists
def units_a(prop):
    A4 = "typing objects carry __origin__/__args__ as typing documents; get_typehint_origin / is_subclass / inspect.isclass answer for the hint (their own units in this module)"
    return [
        Unit(prop, TH + "is_optional", opt_setup, opt_post, _no_exc, trusted=[A4]),
        Unit(prop, TH + "get_optional_arg", opt_setup, goa_post, _no_exc, trusted=[A4, "is_optional interpreted from its real body"]),
        Unit(prop, TH + "is_ellipsis_tuple", ell_setup, ell_post, _no_exc, trusted=[A4, "precondition: a parametrised hint (the callers are the tuple arms of adapt_typehints)"]),
        Unit(prop, TH + "is_enum_type", enum_setup, enum_post, _no_exc, trusted=[A4]),
        Unit(prop, TH + "is_callable_type", callt_setup, callt_post, _no_exc, trusted=[A4]),
        Unit(prop, TH + "typehint_from_action", tfa_setup, tfa_post, _no_exc, trusted=["isinstance(x, Action) by the class of the record"]),
        Unit(prop, UT + "get_typehint_origin", gto_setup, gto_post, _no_exc, trusted=["get_import_path(type(hint)) names the metaclass (its own unit, C14)"]),
        Unit(prop, TH + "get_callable_return_type", gcr_setup, gcr_post, _no_exc, trusted=[A4]),
        Unit(prop, TH + "raise_unexpected_value", ruv_setup, ruv_post, ruv_raises, expect_cover=("raise:ValueError",), trusted=["inspect._empty is the no-value marker"]),
        Unit(prop, TH + "raise_union_unexpected_value", ruu_setup, ruu_post, ruu_raises, expect_cover=("raise:ValueError",),
             trusted=["precondition: at least one exception (a Union has a member; the caller collects one exception per member)", "indent_text / str.replace only reshape the message text"]),
        Unit(prop, UT + "argument_error", ae_setup, ae_post, _no_exc),
        Unit(prop, TH + "literal_to_str", lts_setup, lts_post, _no_exc, trusted=["str() of an int is its decimal text"]),
        Unit(prop, TH + "type_to_str", tts_setup, tts_post, _no_exc, trusted=["re.sub evaluated by CPython on the concrete texts of the scenario", "str(obj) as CPython prints classes and typing hints", A4]),
    ]



# ------------------------------------------------------------------------------------------------ ActionTypeHint classification helpers
MAP_HINTS = ["dict", "Dict[str,int]", "Mapping[str,int]", "Union[None,dict]", "Union[Dict[str,int],None]", "Union[None,Dict[str,int]]", "Union[Dict[str,int],int]", "int", "List[int]", "Union[int,None]", "A"]
REAL_HELPERS = {"is_optional": TH + "is_optional", "get_optional_arg": TH + "get_optional_arg", "get_callable_return_type": TH + "get_callable_return_type", "typehint_from_action": TH + "typehint_from_action"}


def map_setup(ctx):
    u = U()
    t = hint_table(u)
    hk = pick(ctx, MAP_HINTS, "typehint")
    return Setup(env={"typehint": t[hk]}, calls=u.calls(), consts=u.consts(), inline=REAL_HELPERS, data=dict(hk=hk))


def map_post(ctx, st, result):
    hk = st.data["hk"]
    want = hk in ("dict", "Dict[str,int]", "Mapping[str,int]", "Union[None,dict]", "Union[Dict[str,int],None]", "Union[None,Dict[str,int]]")
    ctx.oblige("post", f"a-mapping-type-is-dict/Dict[..]/Mapping[..]-or-the-Optional-of-one(Optional[T] is judged as T, whichever member comes first, parametrised or not)[{hk}]", truthy(result) is want)


CTH = ["Callable[[int],A]", "abc.Callable[[int],A]", "Callable", "Union[Callable[[int],A],None]", "Union[None,Callable[[int],A]]", "Union[None,Callable]", "action:Callable[[int],A]", "action:int", "action-untyped", "int", "A", "List[int]", "Union[int,None]"]


def _action_or_hint(ctx, t, hk):
    ctx.classes.add("Action", [])
    ctx.classes.add("ActionTypeHint", ["Action"])
    if hk == "action-untyped":
        return Rec("Action", attrs={"dest": "x"})
    if hk.startswith("action:"):
        return Rec("ActionTypeHint", attrs={"_typehint": t[hk.split(":", 1)[1]], "dest": "x"})
    return t[hk]


def cth_setup(ctx):
    u = U()
    t = hint_table(u)
    hk = pick(ctx, CTH, "typehint")
    consts = dict(u.consts(), Action=ClassRef("Action"))
    return Setup(env={"typehint": _action_or_hint(ctx, t, hk)}, calls=u.calls(), consts=consts, inline=REAL_HELPERS, data=dict(hk=hk))


def cth_post(ctx, st, result):
    hk = st.data["hk"]
    ctx.oblige("post", f"a-callable-option-is-one-typed-Callable[..](bare, typing or abc)-or-Optional-of-it-in-either-order;an-action-is-judged-by-its-hint[{hk}]", truthy(result) is ("Callable" in hk))


RST = ["Callable[[int],A]", "Callable[[int],B]", "abc.Callable[[int],A]", "Callable[[],A]", "Union[Callable[[int],A],None]", "Union[None,Callable[[int],A]]", "Callable[[int],int]", "Union[None,Callable[[int],int]]", "Callable", "A", "int",
       "Union[A,None]", "List[A]", "Union[int,Callable[[int],A]]"]


def rst_setup(ctx):
    u = U()
    t = hint_table(u)
    hk = pick(ctx, RST, "typehint")
    calls = dict(u.calls())
    calls["ActionTypeHint.is_subclass_typehint"] = lambda c, a, k: (c.event("is_subclass_typehint", a[0], dict(k)), a[0] is u.A or a[0] is u.B)[1]
    return Setup(env={"typehint": t[hk]}, calls=calls, consts=u.consts(), inline=REAL_HELPERS, data=dict(hk=hk, u=u))


def rst_post(ctx, st, result):
    hk = st.data["hk"]
    want = hk in ("Callable[[int],A]", "Callable[[int],B]", "abc.Callable[[int],A]", "Callable[[],A]", "Union[Callable[[int],A],None]", "Union[None,Callable[[int],A]]")
    ctx.oblige("post", f"a-callable-returning-a-class-is-Callable[[..], R]-with-R-a-class-type,or-Optional-of-it-in-either-order(the class itself, a list of it, a callable returning a basic type are not)[{hk}]", truthy(result) is want)
    ev = [e for e in ctx.events if e[0] == "is_subclass_typehint"]
    ctx.oblige("post", f"R-is-judged-with-the-default-settings-of-is_subclass_typehint(all members of a Union must be classes)[{hk}]", all(e[2] == {} for e in ev))


SAP = ["List[int]", "List[A]", "Union[List[int],None]", "Union[None,List[int]]", "Union[int,List[int]]", "Union[List[int],int]", "action:List[int]", "action:Union[None,List[int]]", "action:int", "action-untyped", "None",
       "int", "Dict[str,int]", "Union[int,str]", "Union[int,None]", "Set[int]", "Tuple[int,...]"]


def sap_setup(ctx):
    u = U()
    t = hint_table(u)
    t["None"] = None
    hk = pick(ctx, SAP, "action-or-hint")
    consts = dict(u.consts(), Action=ClassRef("Action"))
    return Setup(env={"action": _action_or_hint(ctx, t, hk)}, calls=u.calls(), consts=consts, inline=REAL_HELPERS, data=dict(hk=hk))


def sap_post(ctx, st, result):
    hk = st.data["hk"]
    ctx.oblige("post", f"'--opt+'-is-offered-exactly-for-a-list-type-or-a-Union-with-a-list-member-at-any-position(Optional[List] in either order);an-action-is-judged-by-its-hint;no-hint-no-append[{hk}]", truthy(result) is ("List[" in hk))


def ivs_setup(ctx):
    u = U()
    S, I = ClassRef("str"), ClassRef("int")
    N = u.NoneType
    hints = {"str": S, "int": I, "Union[str,int]": u.g(u.Union, S, I), "Union[int,str]": u.g(u.Union, I, S), "Union[str,None]": u.g(u.Union, S, N), "Union[None,str]": u.g(u.Union, N, S), "Union[int,None]": u.g(u.Union, I, N),
             "List[str]": u.g(u.List, S), "Union[int,float,str]": u.g(u.Union, I, ClassRef("float"), S)}
    hk = pick(ctx, list(hints), "typehint")
    vk = pick(ctx, ["text", "empty-text", "int", "None", "list-of-text"], "value")
    value = {"text": z3.String("value"), "empty-text": "", "int": z3.Int("value"), "None": None, "list-of-text": [z3.String("value")]}[vk]
    self = Rec("ActionTypeHint", attrs={"_typehint": hints[hk]})
    return Setup(env={"self": self, "value": value}, calls=u.calls(), consts={"Union": u.Union}, data=dict(hk=hk, vk=vk))


def ivs_post(ctx, st, result):
    hk, vk = st.data["hk"], st.data["vk"]
    want = vk in ("text", "empty-text") and hk in ("str", "Union[str,int]", "Union[int,str]", "Union[str,None]", "Union[None,str]", "Union[int,float,str]")
    ctx.oblige("post", f"a-text-is-kept-as-it-was-written-exactly-when-the-value-is-a-str-and-the-type-is-str-or-a-Union-with-a-str-member-at-any-position[{hk}<-{vk}]", truthy(result) is want)


# ------------------------------------------------------------------------------------------------ protocols and subclass tests (C14)
def ip_setup(ctx):
    k = pick(ctx, ["protocol-class", "class-deriving-from-a-protocol(_is_protocol False)", "plain-class", "None", "text"], "class_type")
    ct = {"protocol-class": Rec("class P", attrs={"_is_protocol": True}), "class-deriving-from-a-protocol(_is_protocol False)": Rec("class Impl", attrs={"_is_protocol": False}), "plain-class": Rec("class C"), "None": None, "text": "pkg.P"}[k]
    return Setup(env={"class_type": ct}, data=dict(k=k))


def ip_post(ctx, st, result):
    k = st.data["k"]
    ctx.oblige("post", f"a-protocol-is-exactly-a-class-marked-_is_protocol(an implementation deriving from it is not; a non-class is not)[{k}]", result is (k == "protocol-class"))


def sip_setup(ctx):
    proto = ctx.choose(2, "declared-type-is-a-protocol") == 1
    answer = ctx.choose(2, "answer-of-the-test") == 1
    value = Rec("class V")
    ct = Rec("class T", attrs={"_is_protocol": proto})
    calls = {"implements_protocol": lambda c, a, k: (c.event("implements_protocol", a, dict(k)), answer)[1], "is_subclass": lambda c, a, k: (c.event("is_subclass", a, dict(k)), answer)[1]}
    return Setup(env={"value": value, "class_type": ct}, calls=calls, inline={"is_protocol": TH + "is_protocol"}, data=dict(proto=proto, answer=answer, value=value, ct=ct))


def sip_post(ctx, st, result):
    d = st.data
    ev = [e for e in ctx.events]
    name = "implements_protocol" if d["proto"] else "is_subclass"
    ok = len(ev) == 1 and ev[0][0] == name and len(ev[0][1]) == 2 and ev[0][1][0] is d["value"] and ev[0][1][1] is d["ct"] and not ev[0][2]
    ctx.oblige("post", f"a-class-is-accepted-for-a-protocol-type-iff-it-implements-the-protocol,for-any-other-type-iff-it-is-a-subclass(candidate first, declared type second)[protocol={d['proto']},answer={d['answer']}]", ok and result is d["answer"])


def isp_setup(ctx):
    proto = ctx.choose(2, "declared-type-is-a-protocol") == 1
    answer = ctx.choose(2, "answer-of-the-test") == 1
    vcls = Rec("class V")
    value = Rec("instance of V", attrs={"__class__": vcls})
    ct = Rec("class T", attrs={"_is_protocol": proto})
    calls = {"is_subclass_or_implements_protocol": lambda c, a, k: (c.event("class-test", a, dict(k)), answer)[1], "isinstance": lambda c, a, k: (c.event("isinstance", a, dict(k)), answer)[1]}
    return Setup(env={"value": value, "class_type": ct}, calls=calls, inline={"is_protocol": TH + "is_protocol"}, data=dict(proto=proto, answer=answer, value=value, vcls=vcls, ct=ct))


def isp_post(ctx, st, result):
    d = st.data
    ev = list(ctx.events)
    if d["proto"]:
        ok = len(ev) == 1 and ev[0][0] == "class-test" and len(ev[0][1]) == 2 and ev[0][1][0] is d["vcls"] and ev[0][1][1] is d["ct"]
    else:
        ok = len(ev) == 1 and ev[0][0] == "isinstance" and len(ev[0][1]) == 2 and ev[0][1][0] is d["value"] and ev[0][1][1] is d["ct"]
    ctx.oblige("post", f"an-object-conforms-to-a-protocol-type-iff-its-class-implements-the-protocol,to-any-other-type-iff-it-is-an-instance[protocol={d['proto']},answer={d['answer']}]", ok and result is d["answer"])


IMPL = ["implements", "implements-with-extra-methods", "lacks-a-method", "other-parameter-name", "other-parameter-annotation", "extra-parameter", "other-return-type", "signature-not-resolvable", "not-a-class", "object"]
PROTO = ["two-public-methods", "public+private+irrelevant-dunder", "relevant-dunder(__call__)", "only-private-and-irrelevant-dunders", "no-methods", "not-a-protocol"]


def imp_setup(ctx):
    vk, pk = pick(ctx, IMPL, "candidate"), pick(ctx, PROTO, "protocol")
    INT, STR = Rec("int"), Rec("str")
    pmethods = {"two-public-methods": ["predict", "fit"], "public+private+irrelevant-dunder": ["__init__", "__subclasshook__", "_helper", "predict"], "relevant-dunder(__call__)": ["__call__"],
                "only-private-and-irrelevant-dunders": ["__init__", "_helper", "__setattr__"], "no-methods": [], "not-a-protocol": ["predict", "fit"]}[pk]
    proto = Rec("class P", attrs={"_is_protocol": pk != "not-a-protocol"})
    OBJECT = Rec("class object")
    value = OBJECT if vk == "object" else Rec("instance" if vk == "not-a-class" else "class V")
    relevant = [m for m in pmethods if not (m.startswith("_") and not m.endswith("__")) and m not in ("__init__", "__subclasshook__", "__setattr__")]
    last = relevant[-1] if relevant else None  # the deviation is put on the last relevant member (so a test that stops at the first one is caught)

    def sig(owner, name):
        params = [("self", None), ("x", INT)]
        ret = STR
        if owner is value and name == last:
            if vk == "other-parameter-name":
                params = [("self", None), ("y", INT)]
            elif vk == "other-parameter-annotation":
                params = [("self", None), ("x", STR)]
            elif vk == "extra-parameter":
                params = params + [("z", INT)]
            elif vk == "other-return-type":
                ret = INT
        return params, ret

    def getmembers(c, a, k):
        c.event("getmembers", a[0], k.get("predicate"))
        return [(m, Rec(f"function P.{m}", attrs={"owner": proto, "name": m})) for m in sorted(pmethods)]

    def has(c, s_, a, k):
        if vk == "lacks-a-method" and a[0] == last:
            return False
        return a[0] in pmethods or a[0] in ("extra", "__init__")

    value.methods["__hasattr__"] = has

    def gsp(c, a, k):
        c.event("params-of", a[0], a[1])
        if a[0] is value and vk == "signature-not-resolvable" and a[1] == last:
            raise PyRaise(ExcVal("ValueError", origin="get_signature_parameters"))
        return [Rec("ParamData", attrs={"name": n, "annotation": t}) for n, t in sig(a[0], a[1])[0]]

    calls = {"inspect.isclass": lambda c, a, k: a[0] is not None and isinstance(a[0], Rec) and a[0].cls.startswith("class"), "inspect.getmembers": getmembers, "get_signature_parameters": gsp,
             "inspect.getattr_static": lambda c, a, k: Rec("function", attrs={"owner": a[0], "name": a[1]}), "get_return_type": lambda c, a, k: sig(a[0].attrs["owner"], a[0].attrs["name"])[1]}
    consts = {"object": OBJECT, "inspect.isfunction": "inspect.isfunction", "protocol_irrelevant_dunder_methods": {"__init__", "__new__", "__del__", "__getattr__", "__getattribute__", "__setattr__", "__delattr__", "__reduce__", "__reduce_ex__",
                                                                                                          "__getstate__", "__setstate__", "__subclasshook__"}}
    return Setup(env={"value": value, "protocol": proto}, calls=calls, consts=consts, inline={"is_protocol": TH + "is_protocol"}, data=dict(vk=vk, pk=pk, relevant=relevant))


def imp_post(ctx, st, result):
    d = st.data
    want = d["pk"] != "not-a-protocol" and bool(d["relevant"]) and d["vk"] in ("implements", "implements-with-extra-methods")
    ctx.oblige("post", "a-class-implements-a-protocol-iff-the-protocol-has-public-members(dunders that every class has do not count)-and-the-class-has-each-with-the-same-parameter-names,annotations-and-return-type;"
               f"object,a-non-class-and-a-non-protocol-never[{d['vk']};{d['pk']}]", result is want)
    gm = [e for e in ctx.events if e[0] == "getmembers"]
    ctx.oblige("post", f"only-functions-of-the-protocol-are-compared[{d['vk']};{d['pk']}]", all(e[2] == "inspect.isfunction" for e in gm))


def cis_setup(ctx):
    k = pick(ctx, ["subclass", "the-class-itself", "unrelated-class", "instance", "None", "generic-alias-as-candidate", "class-but-the-base-is-a-generic-alias(issubclass raises TypeError)", "tuple-of-bases-one-matches", "tuple-of-bases-none-matches"], "scenario")
    B1, B2 = Rec("class Base"), Rec("class Other")
    cls = {"subclass": Rec("class Sub"), "the-class-itself": B1, "unrelated-class": Rec("class X"), "instance": Rec("instance"), "None": None, "generic-alias-as-candidate": Rec("List[int]"),
           "class-but-the-base-is-a-generic-alias(issubclass raises TypeError)": Rec("class Sub"), "tuple-of-bases-one-matches": Rec("class Sub"), "tuple-of-bases-none-matches": Rec("class X")}[k]
    base = Rec("List[int]") if "generic-alias(" in k else (B2, B1) if k.startswith("tuple") else B1

    def issubclass_(c, a, kw):
        c.event("issubclass", a)
        if not (isinstance(a[0], Rec) and a[0].cls.startswith("class")):
            raise PyRaise(ExcVal("TypeError", ("issubclass() arg 1 must be a class",), origin="issubclass"))
        bases = a[1] if isinstance(a[1], tuple) else (a[1],)
        if any(not b.cls.startswith("class") for b in bases):
            raise PyRaise(ExcVal("TypeError", ("issubclass() arg 2 must be a class",), origin="issubclass"))
        return any(b is B1 for b in bases) and (a[0].cls == "class Sub" or a[0] is B1)

    calls = {"inspect.isclass": lambda c, a, kw: isinstance(a[0], Rec) and a[0].cls.startswith("class"), "issubclass": issubclass_}
    return Setup(env={"cls": cls, "class_or_tuple": base}, calls=calls, data=dict(k=k))


def cis_post(ctx, st, result):
    k = st.data["k"]
    ctx.oblige("post", f"true-exactly-for-a-class-that-derives-from(or is)-the-base(one of the bases);anything-that-is-no-class-is-no-subclass[{k}]", truthy(result) is (k in ("subclass", "the-class-itself", "tuple-of-bases-one-matches")))


def cis_raises(ctx, st, exc):
    ctx.oblige("raises", f"never-raises:a-non-class-argument-gives-False(got {exc.cls})[{st.data['k']}]", False)


def units_b(prop):
    A4 = "typing objects carry __origin__/__args__ as typing documents; get_typehint_origin / is_subclass / inspect.isclass answer for the hint (their own units in this module)"
    real = "is_optional / get_optional_arg / get_callable_return_type / typehint_from_action interpreted from their real bodies"
    M = TH + "ActionTypeHint."
    return [
        Unit(prop, M + "is_mapping_typehint", map_setup, map_post, _no_exc, trusted=[A4, real, "get_unaliased_type: no alias / Annotated in these scenarios (its own unit)"]),
        Unit(prop, M + "is_callable_typehint", cth_setup, cth_post, _no_exc, trusted=[A4, real]),
        Unit(prop, M + "is_return_subclass_typehint", rst_setup, rst_post, _no_exc, trusted=[A4, real, "is_subclass_typehint: its own unit (contracts/any_units.py)"]),
        Unit(prop, M + "supports_append", sap_setup, sap_post, _no_exc, trusted=[A4, real, "bare list / typing.List (no parameter) are outside the scenarios"]),
        Unit(prop, M + "_is_valid_string", ivs_setup, ivs_post, _no_exc, trusted=[A4]),
        Unit(prop, TH + "is_protocol", ip_setup, ip_post, _no_exc, trusted=["typing.Protocol marks protocol classes with _is_protocol = True and their non-protocol subclasses with False"]),
        Unit(prop, TH + "is_subclass_or_implements_protocol", sip_setup, sip_post, _no_exc, trusted=["implements_protocol / is_subclass: their own units", "is_protocol interpreted from its real body"]),
        Unit(prop, TH + "is_instance_or_supports_protocol", isp_setup, isp_post, _no_exc, trusted=["is_subclass_or_implements_protocol: its own unit", "isinstance as documented", "is_protocol interpreted from its real body"]),
        Unit(prop, TH + "implements_protocol", imp_setup, imp_post, _no_exc, max_paths=2000,
             trusted=["inspect.getmembers(cls, predicate) lists (name, member) pairs sorted by name", "get_signature_parameters / get_return_type give the resolved parameters / return annotation (C12 units)", "is_protocol interpreted from its real body"]),
        Unit(prop, CM + "is_subclass", cis_setup, cis_post, cis_raises, trusted=["issubclass raises TypeError for a non-class argument (either position), inspect.isclass as documented"]),
    ]



# ------------------------------------------------------------------------------------------------ which classes a hint stands for (C14)
YST = ["None", "action:A", "action-untyped", "A", "Union[A,None]", "Union[None,A]", "int", "Color", "Callable[[int],A]", "Dict[str,int]", "generic-alias-of-a-class"]


def yst_setup(ctx):
    u = U()
    t = hint_table(u)
    t["None"] = None
    t["generic-alias-of-a-class"] = GEN = u.g(u.A, u.int)  # A[int] for a Generic class A: judged with its origin, not a class type itself
    hk = pick(ctx, YST, "typehint")
    also, cr = ctx.choose(2, "also_lists") == 1, (ctx.choose(2, "callable_return") == 1 and not hk.startswith("Callable"))
    calls = dict(u.calls())
    calls["is_single_subclass_typehint"] = lambda c, a, k: (a[0] is u.A or a[0] is u.B or a[0] is GEN) and a[1] is None
    consts = dict(u.consts(), Action=ClassRef("Action"))
    return Setup(env={"typehint": _action_or_hint(ctx, t, hk), "also_lists": also, "callable_return": cr}, calls=calls, consts=consts, inline=REAL_HELPERS, hooks={"generator": True}, data=dict(hk=hk, u=u, also=also, cr=cr))


def yst_post(ctx, st, result):
    d = st.data
    got = [e[1] for e in ctx.events if e[0] == "yield"]
    want = [d["u"].A] if d["hk"] in ("action:A", "A", "Union[A,None]", "Union[None,A]") else []
    ctx.oblige("post", f"a-class-type(directly, as an action's hint, or as Optional[class] in either order)-stands-for-that-class;a-basic/Enum/container-type,no-hint-and(without callable_return)-a-callable-for-none[{d['hk']},also_lists={d['also']},callable_return={d['cr']}]",
               len(got) == len(want) and all(x is y for x, y in zip(got, want)))


def gst_setup(ctx):
    n = ctx.choose(3, "number-of-classes-the-hint-stands-for")
    also, cr = [None, True, False][ctx.choose(3, "also_lists")], [None, True, False][ctx.choose(3, "callable_return")]
    classes = [Rec("class A", attrs={"__name__": "A"}), Rec("class B", attrs={"__name__": "B"})][:n]
    hint = Rec("hint")
    env = {"typehint": hint}
    if also is not None:
        env["also_lists"] = also
    if cr is not None:
        env["callable_return"] = cr
    calls = {"yield_subclass_types": lambda c, a, k: (c.event("yst", a, dict(k)), list(classes))[1]}
    return Setup(env=env, calls=calls, data=dict(n=n, also=bool(also), cr=bool(cr), classes=classes, hint=hint))


def _yst_call_ok(ctx, d, names):
    ev = [e for e in ctx.events if e[0] == "yst"]
    # (the engine evaluates the iterable of a one-generator comprehension twice: one or two identical calls)
    if len(ev) not in (1, 2) or any(len(e[1]) != len(ev[0][1]) or any(x is not y for x, y in zip(e[1], ev[0][1])) or e[2] != ev[0][2] for e in ev):
        return False
    a, k = ev[0][1], ev[0][2]
    given = dict(zip(["typehint", "also_lists", "callable_return"], a))
    given.update(k)
    return given.get("typehint") is d["hint"] and all(bool(given.get(nm, False)) is d[short] for nm, short in names)


def gst_post(ctx, st, result):
    d = st.data
    tag = f"[{d['n']} classes,also_lists={d['also']},callable_return={d['cr']}]"
    ctx.oblige("post", "the-classes-are-those-yield_subclass_types-gives-for-this-hint-under-the-caller's-also_lists/callable_return" + tag, _yst_call_ok(ctx, d, [("also_lists", "also"), ("callable_return", "cr")]))
    if d["n"] == 0:
        ctx.oblige("post", "no-class=>None(not an empty tuple: callers test `is None` / truth)" + tag, result is None)
    else:
        ctx.oblige("post", "the-classes-as-a-tuple,in-order(usable as second argument of issubclass)" + tag, isinstance(result, tuple) and len(result) == d["n"] and all(x is y for x, y in zip(result, d["classes"])))


def gsn_post(ctx, st, result):
    d = st.data
    tag = f"[{d['n']} classes,callable_return={d['cr']}]"
    ctx.oblige("post", "the-names-are-those-of-the-classes-yield_subclass_types-gives-for-this-hint-under-the-caller's-callable_return(lists not included)" + tag, _yst_call_ok(ctx, d, [("callable_return", "cr")]) and _yst_call_ok(ctx, dict(d, also=False), [("also_lists", "also")]))
    ctx.oblige("post", "a-tuple-of-the-class-names,in-order(empty when there is none)" + tag, isinstance(result, tuple) and list(result) == [c.attrs["__name__"] for c in d["classes"]])


def gsn_setup(ctx):
    st = gst_setup(ctx)
    st.env.pop("also_lists", None)
    return st


# Callable[[], A] is left out: the shipped code offers no subclass for a callable without parameters (its len(__args__) < 2 test takes it for a bare Callable;
# observed and reproduced natively). No listed property depends on it - the list only feeds the help text; names and paths of subclasses still resolve (C14's
# short forms were checked natively) - so it is an observation in DESIGN.md, not a clause.
GASP = ["A", "Union[A,B]", "Union[A,int]", "Union[A,None]", "Union[object,A]", "Type[A]", "List[A]", "Callable[[int],A]", "Callable[[int],Union[A,B]]", "Callable", "Callable[no-args]", "int"]


def gasp_setup(ctx):
    u = U()
    t = hint_table(u)
    t["Union[object,A]"] = u.g(u.Union, u.object, u.A)
    t["Callable[[int],Union[A,B]]"] = u.g(u.Callable, u.int, t["Union[A,B]"])
    hk = pick(ctx, GASP, "cls")
    visited = []

    def add_subclasses(c, a, k):
        visited.append(a[0])
        # the contract of the nested function (its own unit, contracts/any_units.py): it appends the paths of the classes below `cl` to subclass_list
        c.event("add_subclasses", a[0])
        lst = c.ghost.get("subclass_list")
        return None

    calls = dict(u.calls())
    calls["add_subclasses"] = add_subclasses
    calls["ActionTypeHint.is_subclass_typehint"] = lambda c, a, k: (a[0] is u.A or a[0] is u.B or a[0] is u.object or (u.origin(a[0]) is u.list and k.get("also_lists") is True and a[0].attrs["__args__"][0] is u.A))
    return Setup(env={"cls": t[hk]}, calls=calls, consts=u.consts("object", "type"), data=dict(hk=hk, u=u, t=t, visited=visited))


def gasp_post(ctx, st, result):
    d = st.data
    u, hk = d["u"], d["hk"]
    want = {"A": [d["t"]["A"]], "Union[A,B]": [u.A, u.B], "Union[A,int]": [u.A], "Union[A,None]": [u.A], "Union[object,A]": [u.A], "Type[A]": [u.A], "List[A]": [d["t"]["List[A]"]], "Callable[[int],A]": [u.A],
            "Callable[[int],Union[A,B]]": [u.A, u.B], "Callable[[],A]": [u.A], "Callable": [], "Callable[no-args]": [], "int": [u.int]}[hk]
    got = d["visited"]
    ctx.oblige("post", f"the-subclasses-offered-are-those-below:the-class-itself;each-class-member-of-a-Union/Type[..](object, basic types and None left out);the-return-class(es)-of-a-callable-whatever-its-parameters;a-bare-Callable-offers-none[{hk}]",
               len(got) == len(want) and all(x is y for x, y in zip(got, want)), note=f"visited {[getattr(x, 'cls', x) for x in got]}")
    ctx.oblige("post", f"the-result-is-the-list-the-walk-filled(a list, empty when nothing is offered)[{hk}]", isinstance(result, list))


# ------------------------------------------------------------------------------------------------ adapt_partial_callable_class
APC_T = ["Callable[[int],A]", "Callable[[int,str],A]", "Callable[[],A]", "Callable[[int],int]", "Callable"]
APC_I = ["subclass", "the-class-itself", "unrelated-class", "import-fails"]


def apc_setup(ctx):
    u = U()
    t = hint_table(u)
    t["Callable[[int,str],A]"] = u.g(u.Callable, u.int, u.str, u.A)
    hk = pick(ctx, APC_T, "callable_type")
    ik = pick(ctx, APC_I, "class_path-imports-to") if hk in APC_T[:3] else "subclass"
    imported = {"subclass": u.B, "the-class-itself": u.A, "unrelated-class": Rec("class X"), "import-fails": None}[ik]
    store = {"class_path": "Sub", "init_args": Rec("Namespace(init_args)")}

    def mkspec(store_, label):
        r = Rec("Namespace", attrs={"store": store_, "label": label})
        r.methods.update({"__getattr__": lambda c, s_, a, k: s_.attrs["store"][a[0]], "__setitem__": lambda c, s_, a, k: s_.attrs["store"].__setitem__(a[0], a[1]), "__getitem__": lambda c, s_, a, k: s_.attrs["store"][a[0]],
                          "clone": lambda c, s_, a, k: mkspec(dict(s_.attrs["store"]), "clone")})
        return r
    spec = mkspec(store, "given")

    def import_object(c, a, k):
        c.event("import", a[0])
        if ik == "import-fails":
            raise PyRaise(ExcVal("ImportError", origin="import_object"))
        return imported

    calls = dict(u.calls())
    calls.update({"get_subclass_types": lambda c, a, k: (u.A,) if a[0] is u.A else None, "resolve_class_path_by_name": lambda c, a, k: (c.event("resolve", a[0], a[1]), "pkg." + a[1])[1], "import_object": import_object,
                  "get_import_path": lambda c, a, k: "pkg.mod." + a[0].attrs.get("__name__", "X")})
    return Setup(env={"callable_type": t[hk], "subclass_spec": spec}, calls=calls, consts=u.consts(), inline=REAL_HELPERS, data=dict(hk=hk, ik=ik, u=u, spec=spec, store=store, before=dict(store)))


def apc_post(ctx, st, result):
    d = st.data
    tag = f"[{d['hk']},{d['ik']}]"
    ok_shape = isinstance(result, tuple) and len(result) == 3
    ctx.oblige("post", "(spec, partial?, number of arguments still to be given)" + tag, ok_shape)
    ctx.oblige("frame", "the-spec-given-is-not-modified(the caller tries the other reading of the value with it)" + tag, d["store"] == d["before"] and all(d["store"][k] is d["before"][k] for k in d["store"]))
    if not ok_shape:
        return
    spec, partial, n = result
    want = d["hk"] in APC_T[:3] and d["ik"] in ("subclass", "the-class-itself")
    ctx.oblige("post", "a-class-is-taken-as-'called later with the callable's arguments'-iff-the-callable's-return-type-is-a-class-type-and-class_path-imports-to-a-subclass-of-it" + tag, partial is want)
    if want:
        name = "B" if d["ik"] == "subclass" else "A"
        ctx.oblige("post", "then-a-copy-of-the-spec-carries-the-normalised-import-path-of-that-class(other entries kept)" + tag,
                   spec is not d["spec"] and isinstance(spec, Rec) and spec.attrs["store"].get("class_path") == "pkg.mod." + name and spec.attrs["store"].get("init_args") is d["store"]["init_args"])
        ctx.oblige("post", "and-the-number-of-arguments-is-the-number-of-parameters-of-the-callable" + tag, n == {"Callable[[int],A]": 1, "Callable[[int,str],A]": 2, "Callable[[],A]": 0}[d["hk"]])
        ev = [e for e in ctx.events if e[0] == "resolve"]
        ctx.oblige("post", "class_path-is-resolved-against-the-return-type(short names)" + tag, len(ev) == 1 and ev[0][1] is d["u"].A and ev[0][2] == "Sub")
    else:
        ctx.oblige("post", "otherwise-the-spec-comes-back-as-given,not-partial,no-arguments" + tag, spec is d["spec"] and partial is False and n == 0)


def apc_raises(ctx, st, exc):
    d = st.data
    ctx.oblige("raises", f"only-the-import's-own-failure-propagates(the caller turns it into the unexpected-value error)[{d['hk']},{d['ik']}]", d["ik"] == "import-fails" and exc.origin == "import_object")
    ctx.oblige("frame", f"the-spec-given-is-not-modified[{d['hk']},{d['ik']}]", d["store"] == d["before"])


# ------------------------------------------------------------------------------------------------ serialize_class_instance
def sci_setup(ctx):
    k = pick(ctx, ["importable-object", "path-imports-to-another-object", "no-import-path(None)", "get_import_path-raises", "import_object-raises", "empty-path"], "val")
    val = Rec("object")
    exc_cls = pick(ctx, ["AttributeError", "ImportError", "ValueError", "TypeError", "KeyError"], "exception-class") if "raises" in k else None

    def gip(c, a, kw):
        if k == "get_import_path-raises":
            raise PyRaise(ExcVal(exc_cls, origin="get_import_path"))
        return {"no-import-path(None)": None, "empty-path": ""}.get(k, "pkg.mod.obj")

    def imp(c, a, kw):
        c.event("import", a[0])
        if k == "import_object-raises":
            raise PyRaise(ExcVal(exc_cls, origin="import_object"))
        return val if k == "importable-object" else Rec("another object")

    return Setup(env={"val": val}, calls={"get_import_path": gip, "import_object": imp}, cms={"suppress": suppress_cm()}, data=dict(k=k, val=val))


def sci_post(ctx, st, result):
    k = st.data["k"]
    if k == "importable-object":
        ctx.oblige("post", "an-object-that-its-import-path-imports-back-to-is-serialised-as-that-path", result == "pkg.mod.obj")
    else:
        ok = is_z3(result) or isinstance(result, str)
        ctx.oblige("post", f"anything-else-is-serialised-as-a-text-saying-so(never a path that would import to something else)[{k}]", ok and (not isinstance(result, str) or result != "pkg.mod.obj"))
        if ok:
            ctx.oblige("post", f"the-text-starts-with-'Unable to serialize instance'[{k}]", z3.PrefixOf(z3.StringVal("Unable to serialize instance "), lift(result)))


def sci_raises(ctx, st, exc):
    ctx.oblige("raises", f"dumping-never-fails-on-an-instance(got {exc.cls})[{st.data['k']}]", False)


# ------------------------------------------------------------------------------------------------ is_init_arg_mapping_typehint
IAM_KEYS = ["model.init_args.opts", "model.init_args.nested.opts", "model.dict_kwargs.opts", "model.init_args", "other.init_args.opts", "model", "model.init_args.model.init_args.opts", "x.model.init_args.opts"]


def iam_setup(ctx):
    key = pick(ctx, IAM_KEYS, "key")
    cpk = pick(ctx, ["class_path-text", "no-class_path", "class_path-not-a-text"], "cfg")
    is_sub = ctx.choose(2, "the-option-is-class-typed") == 1
    mapping = ctx.choose(2, "the-init-arg-is-mapping-typed") == 1
    found = pick(ctx, ["found", "not-found", "found-untyped"], "init-arg-in-the-class-parser")
    cfg = {"model.class_path": {"class_path-text": "pkg.Cls", "class_path-not-a-text": 5}.get(cpk)} if cpk != "no-class_path" else {}
    linked = {"a.b"}
    sak = {"fail_untyped": False, "linked_targets": linked}
    hint = Rec("hint of the init arg")
    parser = Rec("ArgumentParser")
    self = Rec("ActionTypeHint", attrs={"dest": "model", "sub_add_kwargs": sak})
    self.methods["is_subclass_typehint"] = lambda c, s_, a, k: (c.event("is_subclass_typehint", a), is_sub)[1]
    self.methods["is_mapping_typehint"] = lambda c, s_, a, k: (c.event("is_mapping_typehint", a[0]), mapping and a[0] is hint)[1]

    def gcp(c, a, k):
        c.event("class-parser", a, {kk: (dict(v) if isinstance(v, dict) else v) for kk, v in k.items()}, k.get("sub_add_kwargs") is sak)
        return parser

    def find(c, a, k):
        c.event("find", a[0], a[1])
        return {"found": Rec("ActionTypeHint", attrs={"_typehint": hint}), "not-found": None, "found-untyped": Rec("Action", attrs={"dest": "x"})}[found]

    calls = {"ActionTypeHint.get_class_parser": gcp, "_find_action": find,
             "re.sub": lambda c, a, k: _re.sub(a[0], a[1], a[2]) if all(isinstance(x, str) for x in a) else (_ for _ in ()).throw(Unsupported("re.sub on symbolic text"))}
    return Setup(env={"self": self, "key": key, "cfg": cfg}, calls=calls, data=dict(key=key, cpk=cpk, is_sub=is_sub, mapping=mapping, found=found, sak=sak, linked=linked, parser=parser, hint=hint))


def iam_post(ctx, st, result):
    d = st.data
    tag = f"[{d['key']},{d['cpk']},class-typed={d['is_sub']},mapping={d['mapping']},{d['found']}]"
    under = d["key"].startswith("model.init_args.")
    rest = d["key"][len("model.init_args."):] if under else None
    looked = d["cpk"] == "class_path-text" and under and d["is_sub"]
    want = looked and d["found"] == "found" and d["mapping"]
    ctx.oblige("post", "a-link-target-<dest>.init_args.<name>-takes-a-dict-iff-the-option-holds-a-class_path,is-class-typed-and-the-parameter-<name>-of-that-class-is-mapping-typed" + tag, truthy(result) is want)
    cp = [e for e in ctx.events if e[0] == "class-parser"]
    fd = [e for e in ctx.events if e[0] == "find"]
    if looked:
        ok = len(cp) == 1 and cp[0][1] == ("pkg.Cls",) and set(cp[0][2]) == {"sub_add_kwargs"} and cp[0][2]["sub_add_kwargs"] == {"fail_untyped": False}
        ctx.oblige("post", "the-parameter-is-looked-up-in-the-parser-of-the-configured-class(built with the option's settings, without its link targets)" + tag, ok)
        ctx.oblige("post", "by-the-key-below-<dest>.init_args.(only the leading prefix removed)" + tag, len(fd) == 1 and fd[0][1] is d["parser"] and fd[0][2] == rest)
    else:
        ctx.oblige("post", "otherwise-no-class-parser-is-built" + tag, not cp and not fd)
    ctx.oblige("frame", "the-option's-own-sub_add_kwargs(with its link targets)-are-not-modified" + tag, set(d["sak"]) == {"fail_untyped", "linked_targets"} and d["sak"]["linked_targets"] is d["linked"] and d["sak"]["fail_untyped"] is False)


# ------------------------------------------------------------------------------------------------ prepare_add_argument
def paa_setup(ctx):
    tk = pick(ctx, ["int", "List[int]", "class-type", "Union[class,int]", "Callable-returning-class", "List[class]"], "type")
    ak = pick(ctx, ["no-action-key", "action=None", "action-given"], "kwargs.action")
    sk = pick(ctx, ["no-sub_add_kwargs", "empty-sub_add_kwargs", "sub_add_kwargs"], "sub_add_kwargs")
    name = z3.String("name")
    ctx.assume(z3.Length(name) > 0)
    hint = Rec("hint", attrs={"kind": tk})
    helpv = Rec("help text")
    kwargs = {"type": hint, "help": helpv}
    if ak != "no-action-key":
        kwargs["action"] = None if ak == "action=None" else Rec("some action")
    sak = {"no-sub_add_kwargs": None, "empty-sub_add_kwargs": {}, "sub_add_kwargs": {"fail_untyped": False}}[sk]
    registered = []

    def add_argument(c, s_, a, k):
        ha = Rec("registered help action", attrs={"args": a, "kwargs": dict(k)})
        registered.append(ha)
        return ha

    container = Rec("container", methods={"add_argument": add_argument})
    logger, enable_path = Rec("logger"), z3.Bool("enable_path")
    calls = {"ActionTypeHint.supports_append": lambda c, a, k: a[0].attrs["kind"] in ("List[int]", "List[class]"),
             "ActionTypeHint.is_subclass_typehint": lambda c, a, k: (c.event("is_subclass_typehint", dict(k)), a[0].attrs["kind"] == "class-type" or (a[0].attrs["kind"] == "Union[class,int]" and k.get("all_subtypes") is False))[1],
             "ActionTypeHint.is_return_subclass_typehint": lambda c, a, k: a[0].attrs["kind"] == "Callable-returning-class",
             "_ActionHelpClassPath": lambda c, a, k: Rec("_ActionHelpClassPath", attrs={"init": (a, dict(k))}), "ActionTypeHint": lambda c, a, k: Rec("ActionTypeHint", attrs={"init": (a, dict(k))})}
    env = {"args": (name,), "kwargs": kwargs, "enable_path": enable_path, "container": container, "logger": logger}
    if sk != "no-sub_add_kwargs":
        env["sub_add_kwargs"] = sak
    return Setup(env=env, calls=calls, data=dict(tk=tk, ak=ak, sk=sk, name=name, hint=hint, helpv=helpv, kwargs=kwargs, sak=sak, registered=registered, logger=logger, enable_path=enable_path), watch={"name": name})


def paa_post(ctx, st, result):
    d = st.data
    tag = f"[{d['tk']},{d['ak']},{d['sk']}]"
    name, kw = d["name"], d["kwargs"]
    ctx.oblige("post", "accepted=>no-action-was-given-besides-the-type" + tag, d["ak"] != "action-given")
    act = kw.get("action")
    ok = "type" not in kw and isinstance(act, Rec) and act.cls == "ActionTypeHint" and act.attrs["init"][0] == () and set(act.attrs["init"][1]) == {"typehint", "enable_path", "logger"} and act.attrs["init"][1]["typehint"] is d["hint"] \
        and act.attrs["init"][1]["enable_path"] is d["enable_path"] and act.attrs["init"][1]["logger"] is d["logger"] and kw.get("help") is d["helpv"] and set(kw) == {"help", "action"}
    ctx.oblige("post", "the-type-keyword-is-replaced-by-a-type-checking-action-for-that-very-hint(with the caller's enable_path and logger);the-other-keywords-stay" + tag, ok)
    shape = isinstance(result, tuple) and len(result) in (1, 2) and all(is_z3(x) for x in result)
    ctx.oblige("post", "the-option-strings-come-back-as-a-tuple" + tag, shape)
    if shape:
        appendable = d["tk"] in ("List[int]", "List[class]")
        ctx.oblige("post", "the-given-name-stays-first" + tag, result[0] == name)
        if len(result) == 2:
            ctx.oblige("post", "'<name>+'-is-added-only-for-a-long-option-of-a-list-type,and-is-the-name-followed-by-'+'" + tag, z3.And(z3.BoolVal(appendable), z3.PrefixOf(z3.StringVal("--"), name), result[1] == z3.Concat(name, z3.StringVal("+"))))
        else:
            ctx.oblige("post", "no-append-form=>not(a long option of a list type)" + tag, z3.Not(z3.And(z3.BoolVal(appendable), z3.PrefixOf(z3.StringVal("--"), name))))
    classy = d["tk"] in ("class-type", "Union[class,int]", "Callable-returning-class")
    reg = d["registered"]
    if classy:
        ok = len(reg) == 1 and len(reg[0].attrs["args"]) == 1 and set(reg[0].attrs["kwargs"]) == {"action"} and isinstance(reg[0].attrs["kwargs"]["action"], Rec) and reg[0].attrs["kwargs"]["action"].cls == "_ActionHelpClassPath" \
            and reg[0].attrs["kwargs"]["action"].attrs["init"] == ((), {"typehint": d["hint"]})
        ctx.oblige("post", "a-class-typed-option(some member a class, or a callable returning one)-gets-exactly-one-help-option-for-that-hint" + tag, ok)
        if ok:
            opt = lift(reg[0].attrs["args"][0])
            ctx.oblige("post", "named-<name>.help-for-an-option,--<name>.help-for-a-positional" + tag, opt == z3.If(z3.PrefixOf(z3.StringVal("-"), name), z3.Concat(name, z3.StringVal(".help")), z3.Concat(z3.StringVal("--"), name, z3.StringVal(".help"))))
            carried = reg[0].attrs.get("sub_add_kwargs")
            ctx.oblige("post", "which-carries-the-caller's-sub_add_kwargs(when there are any)" + tag, (carried is d["sak"]) if d["sk"] == "sub_add_kwargs" else carried is None)
    else:
        ctx.oblige("post", "any-other-type-registers-nothing-on-the-container" + tag, not reg)


def paa_raises(ctx, st, exc):
    d = st.data
    tag = f"[{d['tk']},{d['ak']},{d['sk']}]"
    ctx.oblige("raises", "refused=>ValueError,exactly-when-an-action-is-given-besides-the-type" + tag, exc.cls == "ValueError" and d["ak"] == "action-given")
    ctx.oblige("frame", "and-then-nothing-was-registered-and-the-keywords-are-untouched" + tag, not d["registered"] and d["kwargs"].get("type") is d["hint"])


# ------------------------------------------------------------------------------------------------ add_sub_defaults (+ skip_sub_defaults_apply)
def asd_setup(ctx):
    fails = ctx.choose(2, "_apply_actions-fails") == 1
    open_cms = []
    parser = Rec("ArgumentParser")

    def apply_actions(c, s_, a, k):
        c.event("_apply_actions", a, dict(k), list(open_cms))
        if fails:
            raise PyRaise(ExcVal("TypeError", origin="_apply_actions"))
        return Rec("cfg returned")
    parser.methods["_apply_actions"] = apply_actions
    cfg = Rec("Namespace(cfg)")
    cms = {"ActionTypeHint.sub_defaults_context": (lambda c, a, k: (open_cms.append(("sub_defaults", a, dict(k))), ("t1", "$token"))[1], lambda c, t, e: (open_cms.remove([x for x in open_cms if x[0] == "sub_defaults"][0]), False)[1]),
           "parent_parsers_context": (lambda c, a, k: (open_cms.append(("parent_parsers", a, dict(k))), ("t2", "$token"))[1], lambda c, t, e: (open_cms.remove([x for x in open_cms if x[0] == "parent_parsers"][0]), False)[1])}
    return Setup(env={"parser": parser, "cfg": cfg}, cms=cms, data=dict(fails=fails, open_cms=open_cms, parser=parser, cfg=cfg))


def _asd_common(ctx, d, tag):
    ev = [e for e in ctx.events if e[0] == "_apply_actions"]
    ok = len(ev) == 1 and len(ev[0][1]) == 1 and ev[0][1][0] is d["cfg"] and set(ev[0][2]) == {"skip_fn"} and isinstance(ev[0][2]["skip_fn"], Closure) and ev[0][2]["skip_fn"].name == "skip_sub_defaults_apply"
    ctx.oblige("post", "the-parser's-actions-are-applied-once-more-to-this-config,skipping-by-skip_sub_defaults_apply" + tag, ok)
    if ok:
        opened = ev[0][3]
        ctx.oblige("post", "while-sub-defaults-are-switched-on-and-the-parent-parser-context-is-cleared(None, None)" + tag,
                   sorted(x[0] for x in opened) == ["parent_parsers", "sub_defaults"] and [x for x in opened if x[0] == "parent_parsers"][0][1:] == ((None, None), {}) and [x for x in opened if x[0] == "sub_defaults"][0][1:] == ((), {}))
    ctx.oblige("frame", "both-contexts-are-left-again" + tag, not d["open_cms"])


def asd_post(ctx, st, result):
    ctx.oblige("post", "returns-normally=>the-application-succeeded", not st.data["fails"])
    _asd_common(ctx, st.data, "[ok]")


def asd_raises(ctx, st, exc):
    ctx.oblige("raises", "only-the-failure-of-the-application-propagates", st.data["fails"] and exc.origin == "_apply_actions")
    _asd_common(ctx, st.data, "[application fails]")


SKV = ["text", "empty-text", "Namespace", "spec", "list-with-a-spec", "list-without", "empty-list", "dict-with-a-spec-value", "dict-without", "dict-with-a-spec-key-only", "int", "None", "tuple-with-a-spec"]


def skv_setup(ctx):
    k = pick(ctx, SKV, "value")
    ctx.classes.add("Namespace", [])
    SPEC = {"class_path": "pkg.C"}
    v = {"text": z3.String("v"), "empty-text": "", "Namespace": Rec("Namespace"), "spec": SPEC, "list-with-a-spec": [1, SPEC], "list-without": [1, {"x": 2}], "empty-list": [], "dict-with-a-spec-value": {"a": 1, "b": SPEC},
         "dict-without": {"a": 1}, "dict-with-a-spec-key-only": {"class_path_x": 1}, "int": z3.Int("v"), "None": None, "tuple-with-a-spec": (SPEC,)}[k]
    return Setup(env={"v": v}, calls={"is_subclass_spec": lambda c, a, kw: a[0] is SPEC}, consts={"Namespace": ClassRef("Namespace")}, data=dict(k=k))


def skv_post(ctx, st, result):
    k = st.data["k"]
    applies = k in ("text", "empty-text", "Namespace", "spec", "list-with-a-spec", "dict-with-a-spec-value")
    ctx.oblige("post", f"sub-defaults-are-applied-only-to-values-that-can-name-a-class:a-text,a-namespace,a-class-spec,a-list/dict-holding-a-spec;everything-else-is-skipped[{k}]", truthy(result) is (not applies))


def units_c(prop):
    A4 = "typing objects carry __origin__/__args__ as typing documents; get_typehint_origin / is_subclass / inspect.isclass answer for the hint (their own units in this module)"
    real = "is_optional / get_optional_arg / get_callable_return_type / typehint_from_action interpreted from their real bodies"
    M = TH + "ActionTypeHint."
    return [
        Unit(prop, TH + "yield_subclass_types", yst_setup, yst_post, _no_exc, trusted=[A4, real, "is_single_subclass_typehint: its own unit (contracts/any_units.py)",
             "scenarios without recursion only: `yield from` (a Union of classes, a list with also_lists, a callable with callable_return) is outside the engine's subset"]),
        Unit(prop, TH + "get_subclass_types", gst_setup, gst_post, _no_exc, trusted=["yield_subclass_types by contract (its own unit)"]),
        Unit(prop, TH + "get_subclass_names", gsn_setup, gsn_post, _no_exc, trusted=["yield_subclass_types by contract (its own unit)"]),
        Unit(prop, TH + "get_all_subclass_paths", gasp_setup, gasp_post, _no_exc, trusted=[A4, "the nested add_subclasses by contract (its own unit, contracts/any_units.py)", "is_subclass_typehint: its own unit"]),
        Unit(prop, TH + "adapt_partial_callable_class", apc_setup, apc_post, apc_raises, expect_cover=("return", "raise:ImportError"),
             trusted=[A4, "get_subclass_types / resolve_class_path_by_name / import_object / get_import_path by contract (their own units)", "Namespace.clone gives an independent copy (C11)"]),
        Unit(prop, TH + "serialize_class_instance", sci_setup, sci_post, sci_raises, trusted=["get_import_path / import_object by contract (C14 units)", "contextlib.suppress(Exception) swallows every Exception subclass"]),
        Unit(prop, M + "is_init_arg_mapping_typehint", iam_setup, iam_post, _no_exc, max_paths=4000,
             trusted=["get_class_parser / _find_action / is_subclass_typehint / is_mapping_typehint by contract (their own units)", "re.sub evaluated by CPython on the concrete keys of the scenario"]),
        Unit(prop, M + "prepare_add_argument", paa_setup, paa_post, paa_raises, expect_cover=("return", "raise:ValueError"),
             trusted=["supports_append / is_subclass_typehint / is_return_subclass_typehint: their own units", "container.add_argument returns the registered action", "precondition: a non-empty option name (argparse refuses an empty one)"]),
        Unit(prop, M + "add_sub_defaults", asd_setup, asd_post, asd_raises, expect_cover=("return", "raise:TypeError"), trusted=["sub_defaults_context / parent_parsers_context are context managers that restore on exit (C09 units)", "_apply_actions: its own unit"]),
        Unit(prop, M + "add_sub_defaults.<locals>.skip_sub_defaults_apply", skv_setup, skv_post, _no_exc, trusted=["is_subclass_spec: its own unit (contracts/any_units.py)"]),
    ]



# ------------------------------------------------------------------------------------------------ small utilities (_util.py)
def gpk_setup(ctx):
    req = pick(ctx, ["one-name", "two-names"], "requested")
    have = pick(ctx, ["none-given", "first-given", "all-given", "an-unexpected-one-too", "only-an-unexpected-one"], "data")
    names = ["_skip_validation"] if req == "one-name" else ["_skip_validation", "_fail_no_subcommand"]
    defaults = {n: z3.Int(f"default.{n}") for n in names}
    given = {n: z3.Int(f"given.{n}") for n in names}
    data = {}
    if have in ("first-given", "all-given", "an-unexpected-one-too"):
        data[names[0]] = given[names[0]]
    if have in ("all-given", "an-unexpected-one-too") and len(names) > 1:
        data[names[1]] = given[names[1]]
    if "unexpected" in have:
        data["_typo"] = z3.Int("given._typo")
    return Setup(env={"data": data, "kwargs": dict(defaults)}, data=dict(req=req, have=have, names=names, defaults=defaults, given=given, data=data, before=dict(data)))


def _gpk_want(d):
    return [d["before"].get(n, d["defaults"][n]) for n in d["names"]]


def gpk_post(ctx, st, result):
    d = st.data
    tag = f"[{d['req']},{d['have']}]"
    ctx.oblige("post", "accepted=>every-keyword-given-was-one-of-the-requested-names" + tag, "unexpected" not in d["have"])
    want = _gpk_want(d)
    if len(want) == 1:
        ctx.oblige("post", "one-name:its-value(the default when not given),not-a-list" + tag, is_z3(result) and result.eq(want[0]))
    else:
        ctx.oblige("post", "several-names:their-values-in-the-order-requested(defaults for the ones not given)" + tag, isinstance(result, list) and len(result) == len(want) and all(is_z3(x) and x.eq(y) for x, y in zip(result, want)))
    ctx.oblige("frame", "the-requested-keywords-are-taken-out-of-the-dictionary-given" + tag, d["data"] == {})


def gpk_raises(ctx, st, exc):
    d = st.data
    ctx.oblige("raises", f"refused=>ValueError,exactly-when-an-unexpected-keyword-is-left[{d['req']},{d['have']}]", exc.cls == "ValueError" and "unexpected" in d["have"])


UNQ = {"empty": "", "one": "a", "two-different": "ab", "twice-the-same": "aa", "a-b-a": "aba", "a-b-b-c": "abbc", "equal-but-distinct-objects": "aA", "c-b-a(order kept, not sorted)": "cba", "a-a-a": "aaa"}


def unq_setup(ctx):
    k = pick(ctx, list(UNQ), "iterable")
    items = [Rec(f"item {ch}#{i}", attrs={"key": ch.lower()}) for i, ch in enumerate(UNQ[k])]
    as_tuple = ctx.choose(2, "given-as-a-tuple") == 1
    given = tuple(items) if as_tuple else list(items)
    return Setup(env={"iterable": given}, calls={"hash_item": lambda c, a, kw: "hash:" + a[0].attrs["key"]}, data=dict(k=k, items=items, given=given))


def unq_post(ctx, st, result):
    d = st.data
    want, seen = [], set()
    for it in d["items"]:
        if it.attrs["key"] not in seen:
            seen.add(it.attrs["key"])
            want.append(it)
    ctx.oblige("post", f"the-first-occurrence-of-every-distinct-item(equal hash: the same item),in-the-order-given[{d['k']}]", isinstance(result, list) and len(result) == len(want) and all(x is y for x, y in zip(result, want)))
    ctx.oblige("frame", f"a-new-list;the-iterable-given-is-unchanged[{d['k']}]", result is not d["given"] and len(d["given"]) == len(d["items"]) and all(x is y for x, y in zip(d["given"], d["items"])))


def its_setup(ctx):
    n = ctx.choose(4, "distinct-elements")
    sepk = pick(ctx, ["default-sep", "sep='|'"], "sep")
    elems = [z3.String(f"elem{i}") for i in range(n)]
    given = Rec("iterable")
    env = {"val": given}
    if sepk != "default-sep":
        env["sep"] = "|"
    return Setup(env=env, calls={"unique": lambda c, a, k: (c.event("unique", a[0]), list(elems))[1]}, data=dict(n=n, sepk=sepk, elems=elems, given=given))


def its_post(ctx, st, result):
    d = st.data
    tag = f"[{d['n']} distinct,{d['sepk']}]"
    sep = z3.StringVal("," if d["sepk"] == "default-sep" else "|")
    ctx.oblige("post", "duplicates-are-dropped-first(unique of the values given)" + tag, [e[1] for e in ctx.events if e[0] == "unique"] == [d["given"]])
    e = d["elems"]
    if d["n"] == 1:
        ctx.oblige("post", "a-single-choice-is-shown-bare" + tag, lift(result) == e[0])
    else:
        parts = [z3.StringVal("{")]
        for i, x in enumerate(e):
            if i:
                parts.append(sep)
            parts.append(x)
        parts.append(z3.StringVal("}"))
        ctx.oblige("post", "several(or no)-choices-are-shown-as-{a<sep>b<sep>c}-in-order" + tag, lift(result) == z3.Concat(*parts))


INDENT = z3.Function("textwrap.indent", z3.StringSort(), z3.StringSort(), z3.StringSort())


def ind_setup(ctx):
    first = [None, True, False][ctx.choose(3, "first_line")]
    nlines = 1 + ctx.choose(3, "lines") if first is False else 0
    text = z3.String("text")
    lines = [z3.String(f"line{i}") for i in range(nlines)]
    env = {"text": text}
    if first is not None:
        env["first_line"] = first
    calls = {"textwrap.indent": lambda c, a, k: INDENT(lift(a[0]), lift(a[1])), "text.splitlines": lambda c, a, k: list(lines)}
    return Setup(env=env, calls=calls, consts={"os.linesep": "\n"}, data=dict(first=first, nlines=nlines, text=text, lines=lines))


def ind_post(ctx, st, result):
    d = st.data
    tag = f"[first_line={d['first']},{d['nlines']} lines]"
    two = z3.StringVal("  ")
    if d["first"] is not False:
        ctx.oblige("post", "every-line-is-indented-by-two-spaces(textwrap.indent of the whole text)" + tag, lift(result) == INDENT(d["text"], two))
    elif d["nlines"] == 1:
        ctx.oblige("post", "first_line=False:a-one-line-text-is-returned-unchanged" + tag, lift(result) == d["text"])
    else:
        rest = d["lines"][1]
        for x in d["lines"][2:]:
            rest = z3.Concat(rest, z3.StringVal("\n"), x)
        ctx.oblige("post", "first_line=False:the-first-line-stays,the-others-follow-on-new-lines-indented-by-two-spaces" + tag, lift(result) == z3.Concat(d["lines"][0], z3.StringVal("\n"), INDENT(rest, two)))


# ------------------------------------------------------------------------------------------------ class predicates (_common.py)
def ifc_setup(ctx):
    k = pick(ctx, ["@final-class", "__final__=False", "plain-class", "an-instance"], "cls")
    cls = {"@final-class": Rec("class F", attrs={"__final__": True}), "__final__=False": Rec("class G", attrs={"__final__": False}), "plain-class": Rec("class C"), "an-instance": Rec("instance")}[k]
    return Setup(env={"cls": cls}, data=dict(k=k))


def ifc_post(ctx, st, result):
    k = st.data["k"]
    ctx.oblige("post", f"final-exactly-for-a-class-marked-by-typing.final(__final__ true)[{k}]", truthy(result) is (k == "@final-class"))


GEN_K = ["user-generic-alias(MyGen[int])", "typing-alias(List[int], module typing)", "alias-without-__module__", "plain-class", "None"]


def _gen_value(ctx, k):
    ctx.classes.add("_GenericAlias", [])
    origin = Rec("class MyGen")
    v = {"user-generic-alias(MyGen[int])": Rec("_GenericAlias", attrs={"__module__": "mymod", "__origin__": origin}), "typing-alias(List[int], module typing)": Rec("_GenericAlias", attrs={"__module__": "typing", "__origin__": Rec("class list")}),
         "alias-without-__module__": Rec("_GenericAlias", attrs={"__origin__": origin}), "plain-class": Rec("class C", attrs={"__module__": "mymod"}), "None": None}[k]
    return v, origin


def igc_setup(ctx):
    k = pick(ctx, GEN_K, "cls")
    v, origin = _gen_value(ctx, k)
    return Setup(env={"cls": v}, consts={"_GenericAlias": ClassRef("_GenericAlias")}, inline={"is_generic_class": CM + "is_generic_class"}, data=dict(k=k, v=v, origin=origin))


def igc_post(ctx, st, result):
    k = st.data["k"]
    ctx.oblige("post", f"a-generic-class-is-a-parametrised-alias-of-a-user's-Generic-class(not one of typing's own containers)[{k}]", truthy(result) is (k in ("user-generic-alias(MyGen[int])", "alias-without-__module__")))


def ggo_post(ctx, st, result):
    d = st.data
    if d["k"] in ("user-generic-alias(MyGen[int])", "alias-without-__module__"):
        ctx.oblige("post", f"MyGen[int]->MyGen[{d['k']}]", result is d["origin"])
    else:
        ctx.oblige("post", f"anything-else-is-returned-as-it-is(List[int] stays List[int])[{d['k']}]", result is d["v"])


UNA = ["plain", "Annotated[T]", "alias=T", "alias=Annotated[T]", "Annotated[alias=T]", "alias=alias=T", "Annotated[alias=Annotated[alias=T]]"]


def una_setup(ctx):
    k = pick(ctx, UNA, "cls")
    T = Rec("type T")

    def ann(x):
        return Rec("Annotated", attrs={"base": x})

    def alias(x):
        return Rec("TypeAliasType", attrs={"target": x})
    given = {"plain": T, "Annotated[T]": ann(T), "alias=T": alias(T), "alias=Annotated[T]": alias(ann(T)), "Annotated[alias=T]": ann(alias(T)), "alias=alias=T": alias(alias(T)), "Annotated[alias=Annotated[alias=T]]": ann(alias(ann(alias(T))))}[k]
    calls = {"is_annotated": lambda c, a, kw: a[0].cls == "Annotated", "get_annotated_base_type": lambda c, a, kw: a[0].attrs["base"], "is_alias_type": lambda c, a, kw: a[0].cls == "TypeAliasType", "get_alias_target": lambda c, a, kw: a[0].attrs["target"]}
    return Setup(env={"cls": given}, calls=calls, data=dict(k=k, T=T))


def una_post(ctx, st, result):
    ctx.oblige("post", f"the-type-behind-every-layer-of-Annotated[..]-and-`type X = ..`-alias,in-any-nesting[{st.data['k']}]", result is st.data["T"])


DCL = ["generic-alias-of-a-dataclass", "generic-alias-of-a-plain-class", "not-a-class", "object", "final-class", "dataclass", "dataclass-deriving-from-a-dataclass", "dataclass-with-Generic-base", "dataclass-deriving-from-a-plain-class",
       "plain-class-deriving-from-a-dataclass", "plain-class", "pydantic-model", "attrs-class", "attrs-class(attrs not installed)"]


def dcl_setup(ctx):
    k = pick(ctx, DCL, "cls")
    OBJECT, GENERIC = Rec("class object"), Rec("class Generic")
    dc1, dc2, plain = Rec("class DC1", attrs={"dc": True}), Rec("class DC2", attrs={"dc": True}), Rec("class Plain", attrs={"dc": False})
    cls = Rec("class " + k, attrs={"dc": k.startswith("dataclass")})
    mro = {"dataclass": [cls, OBJECT], "dataclass-deriving-from-a-dataclass": [cls, dc1, dc2, OBJECT], "dataclass-with-Generic-base": [cls, GENERIC, OBJECT], "dataclass-deriving-from-a-plain-class": [cls, dc1, plain, OBJECT],
           "plain-class-deriving-from-a-dataclass": [cls, dc1, OBJECT], "object": [OBJECT]}.get(k, [cls, OBJECT])
    if k == "object":
        cls = OBJECT
    if k == "not-a-class":
        cls = Rec("instance")
    if k.startswith("generic-alias"):
        cls = Rec("_GenericAlias", attrs={"__origin__": Rec("class Origin", attrs={"of": k})})
    attrs_installed = k != "attrs-class(attrs not installed)"

    def rec(c, a, kw):
        c.event("recursive", a[0])
        return a[0].attrs["of"] == "generic-alias-of-a-dataclass"

    calls = {"is_generic_class": lambda c, a, kw: a[0].cls == "_GenericAlias", "is_dataclass_like": rec, "inspect.isclass": lambda c, a, kw: a[0].cls.startswith("class"), "is_final_class": lambda c, a, kw: k == "final-class",
             "inspect.getmro": lambda c, a, kw: tuple(mro), "dataclasses.is_dataclass": lambda c, a, kw: bool(a[0].attrs.get("dc")), "is_pydantic_model": lambda c, a, kw: k == "pydantic-model",
             "attrs.has": lambda c, a, kw: k.startswith("attrs-class") if attrs_installed else (_ for _ in ()).throw(Unsupported("attrs used although not installed"))}
    return Setup(env={"cls": cls}, calls=calls, consts={"object": OBJECT, "Generic": GENERIC, "attrs_support": attrs_installed}, data=dict(k=k))


def dcl_post(ctx, st, result):
    k = st.data["k"]
    want = k in ("generic-alias-of-a-dataclass", "final-class", "dataclass", "dataclass-deriving-from-a-dataclass", "dataclass-with-Generic-base", "pydantic-model", "attrs-class")
    ctx.oblige("post", f"dataclass-like(its fields are the options, no class_path)-iff:a-final-class,a-class-whose-whole-MRO(but object/Generic)-are-dataclasses,a-pydantic-model,an-attrs-class(attrs installed),or-a-generic-alias-of-one;"
               f"a-mixed-hierarchy,a-plain-class,object-and-a-non-class-are-not[{k}]", truthy(result) is want)


def units_d(prop):
    return [
        Unit(prop, UT + "get_private_kwargs", gpk_setup, gpk_post, gpk_raises, expect_cover=("return", "raise:ValueError"), trusted=["dict.pop / dict.items on the concrete key sets of the scenario; values symbolic"]),
        Unit(prop, UT + "unique", unq_setup, unq_post, _no_exc, trusted=["hash_item gives equal keys exactly for items that count as the same (hash / repr / compact dump)"]),
        Unit(prop, UT + "iter_to_set_str", its_setup, its_post, _no_exc, trusted=["unique by contract (its own unit)", "str() of a text is the text (elements symbolic strings)"]),
        Unit(prop, UT + "indent_text", ind_setup, ind_post, _no_exc, trusted=["textwrap.indent(text, prefix) uninterpreted; str.splitlines gives the lines (1-3 symbolic lines); os.linesep is the newline"]),
        Unit(prop, CM + "is_final_class", ifc_setup, ifc_post, _no_exc, trusted=["typing.final sets __final__ = True"]),
        Unit(prop, CM + "is_generic_class", igc_setup, igc_post, _no_exc, trusted=["typing._GenericAlias is the class of parametrised aliases; typing's own containers report module 'typing'"]),
        Unit(prop, CM + "get_generic_origin", igc_setup, ggo_post, _no_exc, trusted=["is_generic_class interpreted from its real body"]),
        Unit(prop, CM + "get_unaliased_type", una_setup, una_post, _no_exc, trusted=["is_annotated / get_annotated_base_type / is_alias_type / get_alias_target (jsonargparse._optionals) describe one layer each"]),
        Unit(prop, CM + "is_dataclass_like", dcl_setup, dcl_post, _no_exc, trusted=["inspect.getmro / dataclasses.is_dataclass / attrs.has / is_pydantic_model as documented", "is_generic_class / is_final_class: their own units", "the recursive call by contract"]),
    ]



# ------------------------------------------------------------------------------------------------ lazy instances (C14: built once, with exactly the configured init_args)
def clk_setup(ctx):
    kk = pick(ctx, ["no-kwargs", "valid-kwargs", "invalid-kwargs"], "lazy_kwargs")
    class_type = Rec("class C")
    kwargs = {} if kk == "no-kwargs" else {"a": z3.Int("a"), "b": z3.String("b")}
    inner = ExcVal("ArgumentError", (None, "bad a"), origin="parse_object")

    def parser_model(c, a, k):
        c.event("ArgumentParser", a, dict(k))
        r = Rec("ArgumentParser")
        r.methods["add_class_arguments"] = lambda c2, s2, a2, k2: c2.event("add_class_arguments", a2, dict(k2))

        def parse_object(c2, s2, a2, k2):
            c2.event("parse_object", a2, dict(k2))
            if kk == "invalid-kwargs":
                raise PyRaise(inner)
            return Rec("Namespace")
        r.methods["parse_object"] = parse_object
        return r

    return Setup(env={"class_type": class_type, "lazy_kwargs": kwargs}, calls={"ArgumentParser": parser_model}, data=dict(kk=kk, class_type=class_type, kwargs=kwargs, inner=inner))


def _clk_validated(ctx, d):
    ev = ctx.events
    return len(ev) == 3 and ev[0] == ("ArgumentParser", (), {"exit_on_error": False}) and ev[1][0] == "add_class_arguments" and len(ev[1][1]) == 1 and ev[1][1][0] is d["class_type"] and not ev[1][2] \
        and ev[2][0] == "parse_object" and len(ev[2][1]) == 1 and ev[2][1][0] is d["kwargs"] and not ev[2][2]


def clk_post(ctx, st, result):
    d = st.data
    ctx.oblige("post", f"accepted=>the-keyword-arguments-are-valid-for-the-class(or there are none)[{d['kk']}]", d["kk"] != "invalid-kwargs")
    if d["kk"] == "no-kwargs":
        ctx.oblige("post", "no-arguments:nothing-to-validate(no parser built)", not ctx.events)
    else:
        ctx.oblige("post", "the-arguments-are-validated-by-a-non-exiting-parser-holding-the-parameters-of-that-very-class", _clk_validated(ctx, d))


def clk_raises(ctx, st, exc):
    d = st.data
    ctx.oblige("raises", f"invalid-arguments=>ValueError(not ArgumentError, no exit),chained-to-the-parser's-error[{d['kk']}]", d["kk"] == "invalid-kwargs" and exc.cls == "ValueError" and exc.cause is d["inner"] and _clk_validated(ctx, d))


def _lazy_self(kwargs):
    lazy_cls, real_cls = Rec("class LazyInstance_C"), Rec("class C")
    return Rec("LazyInstance_C", attrs={"_lazy": lazy_cls, "_lazy_class_type": real_cls, "_lazy_kwargs": kwargs}), lazy_cls, real_cls


def _ns_model(c, a, k):
    c.event("Namespace", a, dict(k))
    store = dict(a[0]) if a else {}
    store.update(k)
    r = Rec("Namespace", attrs={"store": store, "built_from": a[0] if a else None})
    r.methods["__setitem__"] = lambda c2, s2, a2, k2: s2.attrs["store"].__setitem__(a2[0], a2[1])
    return r


def lga_setup(ctx):
    n = ctx.choose(2, "kwargs")
    kwargs = {} if n == 0 else {"a": z3.Int("a"), "b": Rec("nested instance")}
    self, lazy_cls, real_cls = _lazy_self(kwargs)
    return Setup(env={"self": self}, calls={"Namespace": _ns_model}, data=dict(kwargs=kwargs, before=dict(kwargs)))


def lga_post(ctx, st, result):
    d = st.data
    ok = isinstance(result, Rec) and result.cls == "Namespace" and set(result.attrs["store"]) == set(d["before"]) and all(result.attrs["store"][k] is d["before"][k] for k in d["before"])
    ctx.oblige("post", f"the-init-args-of-a-lazy-instance-are-exactly-the-keyword-arguments-it-was-created-with,as-a-namespace[{len(d['before'])} kwargs]", ok)
    ctx.oblige("frame", "the-stored-arguments-are-not-modified", d["kwargs"] == d["before"])


def lgd_setup(ctx):
    n = ctx.choose(2, "kwargs")
    kwargs = {} if n == 0 else {"a": z3.Int("a")}
    self, lazy_cls, real_cls = _lazy_self(kwargs)
    init_args = Rec("Namespace(init args)")
    self.methods["lazy_get_init_args"] = lambda c, s_, a, k: init_args
    calls = {"Namespace": _ns_model, "get_import_path": lambda c, a, k: "pkg.C" if a[0] is real_cls else "pkg.LazyInstance_C" if a[0] is lazy_cls else "?"}
    return Setup(env={"self": self}, calls=calls, data=dict(n=n, init_args=init_args, kwargs=kwargs, before=dict(kwargs)))


def lgd_post(ctx, st, result):
    d = st.data
    ok = isinstance(result, Rec) and result.cls == "Namespace"
    ctx.oblige("post", "a-lazy-instance-is-stored-as-a-class-spec(a namespace)", ok)
    if ok:
        store = result.attrs["store"]
        ctx.oblige("post", "whose-class_path-is-the-import-path-of-the-class-given(not of the generated lazy class)", store.get("class_path") == "pkg.C")
        if d["n"]:
            ctx.oblige("post", "and-whose-init_args-are-the-instance's-init-args", set(store) == {"class_path", "init_args"} and store["init_args"] is d["init_args"])
        else:
            ctx.oblige("post", "without-init_args-when-it-was-created-without-arguments", set(store) == {"class_path"})
    ctx.oblige("frame", "the-stored-arguments-are-not-modified", d["kwargs"] == d["before"])


def lin_setup(ctx):
    has_call = ctx.choose(2, "the-class-defines-__call__") == 1
    kwargs = {"a": z3.Int("a"), "b": Rec("nested instance")} if ctx.choose(2, "kwargs") == 1 else {}
    self, lazy_cls, real_cls = _lazy_self(kwargs)
    real = {"fit": Rec("bound C.fit"), "predict": Rec("bound C.predict")}
    if has_call:
        real["__call__"] = Rec("bound C.__call__")
    other = Rec("an attribute set by the user")
    inst = {n: Rec(f"lazy wrapper {n}") for n in real}
    inst["_own"] = other
    self.attrs["_lazy_methods"] = dict(real)
    self.attrs["__dict__"] = inst
    lazy_cls.attrs["__call__"] = Rec("lazy wrapper __call__ (class level)")

    def super_(c, a, k):
        return Rec("super()", methods={"__init__": lambda c2, s2, a2, k2: c2.event("C.__init__", a2, dict(k2), sorted(inst))})

    return Setup(env={"self": self}, calls={"super": super_}, data=dict(has_call=has_call, kwargs=kwargs, before=dict(kwargs), real=real, inst=inst, other=other, lazy_cls=lazy_cls))


def lin_post(ctx, st, result):
    d = st.data
    tag = f"[__call__={d['has_call']},{len(d['before'])} kwargs]"
    ev = [e for e in ctx.events if e[0] == "C.__init__"]
    ok = len(ev) == 1 and ev[0][1] == () and set(ev[0][2]) == set(d["before"]) and all(ev[0][2][k] is d["before"][k] for k in d["before"])
    ctx.oblige("post", "the-real-constructor-runs-exactly-once,with-exactly-the-keyword-arguments-the-lazy-instance-was-created-with" + tag, ok)
    ctx.oblige("post", "every-lazy-wrapper-is-gone-from-the-instance(the class's own methods show again);other-attributes-stay" + tag, set(d["inst"]) == {"_own"} and d["inst"]["_own"] is d["other"])
    if ok:
        ctx.oblige("post", "the-wrappers-are-removed-before-the-constructor-runs(a constructor calling its own methods reaches the real ones)" + tag, ev[0][3] == ["_own"])
    if d["has_call"]:
        ctx.oblige("post", "the-class-level-__call__-is-the-real-one-again" + tag, d["lazy_cls"].attrs["__call__"] is d["real"]["__call__"])
    ctx.oblige("frame", "the-stored-arguments-are-not-modified" + tag, d["kwargs"] == d["before"])


def lii_setup(ctx):
    ck = pick(ctx, ["plain-class", "class-with-__call__", "a-lazy-class(refused)"], "class_type")
    kwargs = {"a": z3.Int("a")} if ctx.choose(2, "kwargs") == 1 else {}
    class_type = Rec("class C")
    lazy_cls = Rec("class LazyInstance_C")
    f = {n: Rec(f"function C.{n}") for n in ["__init__", "fit", "static_fn"] + (["__call__"] if ck == "class-with-__call__" else [])}
    members = sorted([(n, fn) for n, fn in f.items()] + [("fit_alias", f["fit"])])  # one function under two names
    bound = {n: Rec(f"bound {n}", attrs={"kind": "function" if n == "static_fn" else "method"}) for n, _ in members}
    inst = {}
    self = Rec("LazyInstance_C", attrs={"__dict__": inst})
    starter = Rec("bound _lazy_init_then_call_method")

    def getattr_(c, s_, a, k):
        if a[0] == "_lazy_init_then_call_method":
            return starter
        if a[0] in inst:
            return inst[a[0]]
        if a[0] in bound:
            return bound[a[0]]
        raise PyRaise(ExcVal("AttributeError", (a[0],), origin="getattr"))
    self.methods["__getattr__"] = getattr_

    calls = {"issubclass": lambda c, a, k: ck == "a-lazy-class(refused)", "check_lazy_kwargs": lambda c, a, k: c.event("check_lazy_kwargs", a, dict(k), dict(self.attrs)), "type": lambda c, a, k: lazy_cls if a[0] is self else Rec("?"),
             "inspect.getmembers": lambda c, a, k: (c.event("getmembers", a[0], k.get("predicate")), list(members))[1], "inspect.ismethod": lambda c, a, k: a[0].attrs.get("kind") == "method",
             "partial": lambda c, a, k: Rec("partial", attrs={"fn": a[0], "args": a[1:], "kw": dict(k)}), "id": lambda c, a, k: id(a[0]), "super": lambda c, a, k: (c.event("super"), Rec("super()"))[1]}
    consts = {"LazyInitBaseClass": Rec("class LazyInitBaseClass"), "inspect.isfunction": "inspect.isfunction"}
    return Setup(env={"self": self, "class_type": class_type, "lazy_kwargs": kwargs}, calls=calls, consts=consts,
                 data=dict(ck=ck, kwargs=kwargs, class_type=class_type, lazy_cls=lazy_cls, bound=bound, inst=inst, self_=self, starter=starter, members=members))


def lii_post(ctx, st, result):
    d = st.data
    tag = f"[{d['ck']},{len(d['kwargs'])} kwargs]"
    a = d["self_"].attrs
    ctx.oblige("post", "accepted=>the-class-is-not-itself-a-lazy-class" + tag, d["ck"] != "a-lazy-class(refused)")
    ev = [e for e in ctx.events if e[0] == "check_lazy_kwargs"]
    ctx.oblige("post", "the-arguments-are-validated-against-the-class-first(before anything is stored)" + tag,
               len(ev) == 1 and len(ev[0][1]) == 2 and ev[0][1][0] is d["class_type"] and ev[0][1][1] is d["kwargs"] and not ev[0][2] and set(ev[0][3]) == {"__dict__"})
    ctx.oblige("post", "class-and-arguments-are-kept-for-the-later-construction(the very objects given)" + tag, a.get("_lazy_class_type") is d["class_type"] and a.get("_lazy_kwargs") is d["kwargs"] and a.get("_lazy") is d["lazy_cls"])
    ctx.oblige("post", "the-real-constructor-does-not-run-now" + tag, not [e for e in ctx.events if e[0] == "super"])
    wrapped = sorted(n for n, _ in d["members"] if n not in ("__init__", "static_fn"))
    inst = d["inst"]
    ctx.oblige("post", "every-method-of-the-class(not __init__, not a plain function)-is-shadowed-on-the-instance-by-a-wrapper" + tag, sorted(inst) == wrapped)
    ok = all(isinstance(inst[n], Rec) and inst[n].cls == "partial" and inst[n].attrs["fn"] is d["starter"] and not inst[n].attrs["kw"] for n in inst)
    ctx.oblige("post", "each-wrapper-first-constructs-the-object,then-calls-the-real-method-of-that-name(two names of one function share the wrapper of the first)" + tag,
               ok and all(inst[n].attrs["args"] == (("fit",) if n == "fit_alias" else (n,)) for n in inst))
    lm = a.get("_lazy_methods")
    ctx.oblige("post", "the-real-bound-methods-are-remembered-under-their-names" + tag, isinstance(lm, dict) and sorted(lm) == wrapped and all(lm[n] is d["bound"][n] for n in lm))
    if d["ck"] == "class-with-__call__":
        ctx.oblige("post", "calling-the-instance-goes-through-the-wrapper-too(installed on the generated class)" + tag, d["lazy_cls"].attrs.get("__call__") is inst.get("__call__"))
    else:
        ctx.oblige("post", "no-__call__-is-invented-for-a-class-without-one" + tag, "__call__" not in d["lazy_cls"].attrs)
    gm = [e for e in ctx.events if e[0] == "getmembers"]
    ctx.oblige("post", "the-methods-are-those-of-the-class-given" + tag, len(gm) == 1 and gm[0][1] is d["class_type"] and gm[0][2] == "inspect.isfunction")


def lii_raises(ctx, st, exc):
    d = st.data
    ctx.oblige("raises", f"refused=>AssertionError,exactly-for-a-lazy-class,before-anything-is-validated-or-stored[{d['ck']}]", exc.cls == "AssertionError" and d["ck"] == "a-lazy-class(refused)" and not ctx.events and set(d["self_"].attrs) == {"__dict__"})


def lzi_setup(ctx):
    mk = pick(ctx, ["first-use-in-this-module", "class-already-generated", "name-taken-by-something-else", "caller-module-unknown(None)"], "caller-module")
    kwargs = {"a": z3.Int("a")} if ctx.choose(2, "kwargs") == 1 else {}
    BASE = Rec("class LazyInitBaseClass")
    class_type = Rec("class C", attrs={"__name__": "C"})
    created = []

    def make_class(name, bases, ns_):
        cl = Rec("class " + name, attrs={"__name__": name, "__qualname__": name, "__bases__": tuple(bases), "__module__": "jsonargparse._typehints", "ns": ns_})
        cl.methods["__call__"] = lambda c, s_, a, k: (c.event("construct", s_, a, dict(k)), Rec("instance of " + name, attrs={"__class__": s_}))[1]
        return cl

    cached = make_class("LazyInstance_C", (BASE, class_type), {}) if mk == "class-already-generated" else Rec("function LazyInstance_C") if mk == "name-taken-by-something-else" else None
    module = None if mk.startswith("caller-module-unknown") else Rec("module caller", attrs={"__name__": "caller.mod"})
    if cached is not None:
        module.attrs["LazyInstance_C"] = cached

    def type_(c, a, k):
        if len(a) != 3:
            raise Unsupported("type() with one argument is not expected here")
        cl = make_class(a[0], a[1], a[2])
        created.append(cl)
        return cl

    def is_subclass(c, a, k):
        return isinstance(a[0], Rec) and a[0].cls.startswith("class") and any(b is a[1] for b in a[0].attrs.get("__bases__", ()))

    frames = [[Rec("frame of lazy_instance")], [Rec("frame of the caller")]]
    calls = {"inspect.stack": lambda c, a, k: frames, "inspect.getmodule": lambda c, a, k: (c.event("getmodule", a[0]), module)[1], "type": type_, "is_subclass": is_subclass}
    return Setup(env={"class_type": class_type, "kwargs": kwargs}, calls=calls, consts={"LazyInitBaseClass": BASE, "__name__": "jsonargparse._typehints"},
                 data=dict(mk=mk, kwargs=kwargs, class_type=class_type, BASE=BASE, cached=cached, module=module, created=created, frames=frames))


def lzi_post(ctx, st, result):
    d = st.data
    tag = f"[{d['mk']},{len(d['kwargs'])} kwargs]"
    ctx.oblige("post", "accepted=>the-name-LazyInstance_<class>-in-the-caller's-module-is-free-or-holds-the-generated-class" + tag, d["mk"] != "name-taken-by-something-else")
    cons = [e for e in ctx.events if e[0] == "construct"]
    ok = len(cons) == 1 and len(cons[0][2]) == 2 and cons[0][2][0] is d["class_type"] and cons[0][2][1] is d["kwargs"] and not cons[0][3]
    ctx.oblige("post", "one-lazy-object-is-created,from-the-class-given-and-exactly-the-keyword-arguments-given;it-is-what-is-returned" + tag, ok and isinstance(result, Rec) and result.attrs.get("__class__") is cons[0][1])
    if not ok:
        return
    cl = cons[0][1]
    ctx.oblige("post", "its-class-derives-from-(LazyInitBaseClass, the class given),in-that-order,and-is-named-LazyInstance_<class>" + tag, cl.attrs["__bases__"] == (d["BASE"], d["class_type"]) and cl.attrs["__name__"] == "LazyInstance_C")
    if d["mk"] == "class-already-generated":
        ctx.oblige("post", "a-class-generated-earlier-for-this-module-is-reused(none created)" + tag, cl is d["cached"] and not d["created"])
    elif d["module"] is not None:
        ctx.oblige("post", "a-new-class-is-registered-in-the-caller's-module-under-its-name,reporting-that-module" + tag,
                   d["created"] == [cl] and d["module"].attrs.get("LazyInstance_C") is cl and cl.attrs["__module__"] == "caller.mod")
    else:
        ctx.oblige("post", "unknown-caller-module:a-new-class,registered-nowhere" + tag, d["created"] == [cl])
    gm = [e for e in ctx.events if e[0] == "getmodule"]
    ctx.oblige("post", "the-caller-is-the-frame-above-lazy_instance" + tag, len(gm) == 1 and gm[0][1] is d["frames"][1][0])


def lzi_raises(ctx, st, exc):
    d = st.data
    ctx.oblige("raises", f"refused=>AssertionError,exactly-when-the-name-is-taken-by-something-that-is-not-the-generated-class;nothing-is-constructed[{d['mk']}]",
               exc.cls == "AssertionError" and d["mk"] == "name-taken-by-something-else" and not [e for e in ctx.events if e[0] == "construct"] and not d["created"])


def units_e(prop):
    L = TH + "LazyInitBaseClass."
    return [
        Unit(prop, TH + "check_lazy_kwargs", clk_setup, clk_post, clk_raises, expect_cover=("return", "raise:ValueError"), trusted=["ArgumentParser(exit_on_error=False).add_class_arguments(cls) / parse_object(kwargs): the C12 / C06 units"]),
        Unit(prop, L + "lazy_get_init_args", lga_setup, lga_post, _no_exc, trusted=["Namespace(mapping) copies the mapping (C11)"]),
        Unit(prop, L + "lazy_get_init_data", lgd_setup, lgd_post, _no_exc, trusted=["Namespace(**kw) / namespace[key] = value (C11)", "get_import_path: its own unit (C14)"]),
        Unit(prop, L + "_lazy_init", lin_setup, lin_post, _no_exc, trusted=["super().__init__ is the constructor of the class given (second base of the generated class)", "self.__dict__ is the instance dictionary"]),
        Unit(prop, L + "__init__", lii_setup, lii_post, lii_raises, expect_cover=("return", "raise:AssertionError"),
             trusted=["inspect.getmembers(cls, predicate=isfunction) lists (name, function) sorted by name; inspect.ismethod tells bound methods from plain functions", "functools.partial(f, name) calls f(name, ...)", "check_lazy_kwargs: its own unit"]),
        Unit(prop, TH + "lazy_instance", lzi_setup, lzi_post, lzi_raises, expect_cover=("return", "raise:AssertionError"),
             trusted=["inspect.stack()[1][0] is the caller's frame, inspect.getmodule(frame) its module (None when unknown)", "type(name, bases, ns) creates the class; calling it runs LazyInitBaseClass.__init__ (its own unit)", "is_subclass: its own unit"]),
    ]


def units(prop):
    return units_a(prop) + units_b(prop) + units_c(prop) + units_d(prop) + units_e(prop)


CARRIES = {
    "C02": [":is_optional", ":get_optional_arg", ":is_ellipsis_tuple", ":is_enum_type", "_typehints:is_callable_type", ":typehint_from_action", ":get_typehint_origin", ":get_callable_return_type", ":raise_unexpected_value",
            ":raise_union_unexpected_value", ":argument_error", ":literal_to_str", ":type_to_str", "ActionTypeHint.is_mapping_typehint", "ActionTypeHint.is_callable_typehint", "ActionTypeHint.supports_append",
            "ActionTypeHint._is_valid_string", ":unique", ":iter_to_set_str", ":indent_text", ":get_unaliased_type", "_common:is_subclass", ":get_private_kwargs", ":is_dataclass_like", ":is_generic_class", ":get_generic_origin", ":is_final_class"],
    "C14": [":is_protocol", ":is_subclass_or_implements_protocol", ":is_instance_or_supports_protocol", ":implements_protocol", "_common:is_subclass", ":yield_subclass_types", ":get_subclass_types", ":get_subclass_names",
            ":get_all_subclass_paths", ":adapt_partial_callable_class", ":serialize_class_instance", "ActionTypeHint.is_return_subclass_typehint", "ActionTypeHint.is_init_arg_mapping_typehint", "ActionTypeHint.prepare_add_argument",
            "ActionTypeHint.add_sub_defaults", "skip_sub_defaults_apply", ":check_lazy_kwargs", "LazyInitBaseClass.__init__", "LazyInitBaseClass._lazy_init", "LazyInitBaseClass.lazy_get_init_args", "LazyInitBaseClass.lazy_get_init_data",
            ":lazy_instance", ":is_dataclass_like", ":get_callable_return_type", ":get_optional_arg", ":is_optional"],
    "C10": ["ActionTypeHint._is_valid_string", ":serialize_class_instance", "LazyInitBaseClass.lazy_get_init_data", ":literal_to_str"],
}
