"""Round 2 - jsonargparse/_postponed_annotations.py under contract (C12, C13): which *type* a parameter is given when its annotation is a
string (from __future__ import annotations), a forward reference, `X | Y` on an old Python, or a name imported under `if TYPE_CHECKING:`.

Clause of C12 / C13 behind every unit: each parameter is bound to the value converted to the *declared* type and keeps the type of the signature
it comes from - so the type resolved for a parameter is the one its annotation denotes in the namespace of the function's own module; a failure
to resolve never silently turns a typed parameter into another type (the annotation is left as it was / the caller gets the exception);
nothing of the component (its module globals, its parameters' other attributes) is modified.

Modelling: type hints are records (`__origin__`, `__args__`; a ForwardRef has `__forward_arg__`), ast nodes are records as in
contracts/r2_resolver.py, ParamData is a record, exceptions are the engine's exception values.  Shapes (annotation forms, outcomes of the
callees) are enumerated exhaustively; names are symbolic strings where the engine carries them (component / parent names).

  evaluate_postponed_annotations   nothing is looked up when no annotation needs it; the types are asked once, of the component (of the dataclass for a
                                   constructor the dataclass did not define under its own name); a parameter with a resolved type gets exactly that type; one
                                   whose type is an exception, or is not answered, keeps its annotation; a failure of get_types changes nothing and does not
                                   escape; name / default / kind and the list are untouched  (type_requires_eval / has_subtypes run with their real bodies)
  get_types                        everything resolved by typing.get_type_hints -> that answer, the source is not needed; otherwise every annotated
                                   parameter (positional-or-keyword, keyword-only; annotated fields of a class) get_type_hints left unresolved gets what its
                                   annotation denotes in {builtins overlaid by the module globals}, with forward references resolved; a parameter that cannot
                                   be evaluated carries its exception and does not disturb the others; all fail -> the get_type_hints exception (else the
                                   first parameter's); no source -> the get_type_hints exception class / its partial answer; globals and builtins unmodified
  get_arg_type                     the annotation expression is evaluated with each of its names bound to the object the caller's namespace binds it to (the
                                   value of a stub resolver's (source, value) pair); names whose alias is an exception stay unbound and that exception is
                                   the cause of the NameError; stub assignments are executed first; on Python < 3.10 the back-ported tree is what runs; the
                                   namespace and the annotation node are not modified
  resolve_forward_refs             [no-forward-reference paths] a string naming an alias is that alias; a hint without forward references is returned as the
                                   very same object, whatever its nesting
  resolve_forward_refs.<locals>.resolve_subtypes_forward_refs@if(forward_arg in aliases)      'A' -> aliases['A'], 'mod.A.B' -> attribute chain below aliases['mod']
  resolve_forward_refs.<locals>.resolve_subtypes_forward_refs@if(subtypes != list(typehint.__args__))   the rebuilt hint is the same kind of container with exactly the resolved
                                   arguments in order (Python >= 3.10: the same origin; < 3.10: its typing generic)
  has_subtypes / type_requires_eval   an unresolved reference (str / ForwardRef) at any depth below Union / sequence / tuple-set / mapping / type[...]
  get_global_vars                  every module global, plus the names the module binds only under TYPE_CHECKING when the source mentions it; no failure of
                                   the source lookup or of the TYPE_CHECKING block escapes; the module's own namespace is not modified
  TypeCheckingVisitor.visit_Import / visit_ImportFrom / visit_If / generic_visit / update_aliases
                                   `import typing [as t]` makes t.TYPE_CHECKING, `from typing import TYPE_CHECKING [as TC]` makes TC a guard; the body (never
                                   the else arm) of an `if <guard>:` is executed once into the aliases, a failure is swallowed; any other test (another name,
                                   `not TYPE_CHECKING`, a comparison) executes nothing; only module-level statements and ifs are searched
  get_return_type                  an evaluated return annotation is returned as it is; a postponed one is what get_type_hints says in the module namespace
                                   (a bare forward reference: resolved); a failure gives None, never an exception
  BackportTypeHints.visit_BinOp / append_union_elts / visit_Constant / visit_Subscript / new_name_load / backport
                                   `X | Y | Z` -> Union[X, Y, Z] (flat, in order, operands back-ported), None -> NoneType, list[...] -> List[...] with the
                                   subscript back-ported, other subscripts keep their value; the names introduced are bound in the namespace given; the input
                                   tree is not modified (a copy is transformed)
  NamesVisitor.find                the distinct names of the expression in order of first occurrence
refuted on the unchanged tree (real, reproduced natively - see the builder's report):
  get_arg_type     a module global that is a tuple and is named in an annotation is replaced by its second element (Union[TYPES] with TYPES = (int, str) -> str)
  get_types        a quoted annotation that is more than a bare name ("Optional[int]") stays a string on the source path (reached when another annotation of
                   the signature fails in get_type_hints): the parameter is then dropped from the parser
  get_global_vars  the TYPE_CHECKING block is executed into the live module namespace (vars(module)): the names appear in the user's module
  resolve_subtypes_forward_refs (rebuild arm, Python < 3.10 only)   Set['A'] / set['A'] is rebuilt as Tuple[A]
not under contract: getattr_recursive and the ForwardRef arm of resolve_subtypes_forward_refs up to the alias lookup (starred unpacking `a, *b = ...` is outside the
  engine's subset); the and/or-test arm of visit_If (any() over two nested generators is outside the subset); logging calls (dropped by the engine)
"""
import z3

from pyvc.engine import And, ClassRef, ExcVal, Implies, Not, Or, PathEnd, PyRaise, Rec
from pyvc.units import Setup, Unit

M = "jsonargparse._postponed_annotations"
MOD = M + ":"


# ============================================================================================================ shared modelling
def never(ctx, st, exc):
    ctx.oblige("raises", f"never-raises(got {exc.cls}@{exc.origin})", False)


class U:
    """The typing objects the bodies compare against and a few classes, as records (fresh per path).  get_typehint_origin (its own unit in
    r2_typehelpers) answers the runtime class for a parametrised hint (List[int] -> list) and None for a plain class."""

    def __init__(self):
        self.made = []

        def origin(label):
            o = Rec(label, attrs={"__name__": label.split()[-1]})
            o.methods["__getitem__"] = lambda c, s_, a, k: self._subscript(s_, a[0])
            return o

        self.Union = origin("typing Union")
        self.list, self.tuple, self.set, self.dict, self.type = (origin("class " + n) for n in ("list", "tuple", "set", "dict", "type"))
        self.List, self.Tuple, self.Set, self.Dict, self.Type = (origin("typing " + n) for n in ("List", "Tuple", "Set", "Dict", "Type"))
        self.Callable = origin("collections.abc Callable")
        self.type.methods["__call__"] = lambda c, s_, a, k: ClassRef(a[0].cls if isinstance(a[0], (ExcVal, Rec)) else type(a[0]).__name__)  # type(x): the class of x
        mk = lambda n: Rec("class " + n, attrs={"__name__": n})  # noqa: E731
        self.int, self.str, self.NoneType, self.A, self.B, self.Empty = mk("int"), mk("str"), mk("NoneType"), mk("A"), mk("B"), mk("inspect._empty")

    def _subscript(self, origin, args):
        h = self.g(origin, *(args if isinstance(args, tuple) else (args,)))
        self.made.append((origin, args))
        h.attrs["made"] = True
        return h

    def g(self, origin, *args):
        return Rec("hint", attrs={"__origin__": origin, "__args__": tuple(args)})

    def ref(self, name):
        return Rec("ForwardRef", attrs={"__forward_arg__": name})

    def consts(self):
        return {"Union": self.Union, "List": self.List, "Tuple": self.Tuple, "Dict": self.Dict, "Type": self.Type, "type": self.type, "ForwardRef": ClassRef("ForwardRef"),
                "sequence_origin_types": {self.List, self.list}, "tuple_set_origin_types": {self.Tuple, self.tuple, self.Set, self.set}, "mapping_origin_types": {self.Dict, self.dict}}

    def calls(self):
        return {"get_typehint_origin": lambda c, a, k: a[0].attrs.get("__origin__") if isinstance(a[0], Rec) else None}

    CONTAINERS = ("Union", "list", "List", "tuple", "Tuple", "set", "Set", "dict", "Dict", "type", "Type")

    def is_container(self, h):
        """A parametrised hint whose arguments are types the parameter's value is made of (by the definition of the typing forms)."""
        o = h.attrs.get("__origin__") if isinstance(h, Rec) else None
        return o is not None and any(o is getattr(self, n) for n in self.CONTAINERS)

    def unresolved(self, h):
        """Definition: a string or ForwardRef at any depth below the containers."""
        if isinstance(h, str) or (isinstance(h, Rec) and h.cls == "ForwardRef"):
            return True
        return self.is_container(h) and any(self.unresolved(a) for a in h.attrs.get("__args__", ()))


def classes(ctx):
    ctx.classes.add("ForwardRef", ["object"])
    ctx.classes.add("hint", ["object"])
    ctx.classes.add("AST", ["object"])
    for c in ("Module", "FunctionDef", "ClassDef", "AnnAssign", "Assign", "Constant", "Name", "Subscript", "BinOp", "BitOr", "Add", "Tuple", "Load", "Store", "arguments", "arg", "Attribute",
              "If", "Import", "ImportFrom", "alias", "BoolOp", "UnaryOp", "Compare", "And", "Or", "Not", "Expr", "Index", "Lambda", "Pass"):
        ctx.classes.add(c, ["AST"])


AST_NAMES = ("Module", "FunctionDef", "ClassDef", "AnnAssign", "Assign", "Constant", "Name", "Subscript", "BinOp", "BitOr", "Tuple", "Load", "Attribute", "If", "Import", "ImportFrom",
             "BoolOp", "And", "Or", "AST")
AST_CONSTS = {"ast." + c: ClassRef(c) for c in AST_NAMES}


def _no_such_field(c, s_, a, k):
    raise PyRaise(ExcVal("AttributeError", args=(f"'{s_.cls}' object has no attribute {a[0]!r}",), origin=f"{s_.cls}.{a[0]}"))


def N(cls, **attrs):
    """An ast node: reading a field the node class does not have is AttributeError, as in CPython."""
    return Rec(cls, attrs=attrs, methods={"__getattr__": _no_such_field})


def name(id_):
    return N("Name", id=id_, ctx=N("Load"))


def const(v):
    return N("Constant", value=v)


def subscript(value, sl):
    return N("Subscript", value=value, slice=sl, ctx=N("Load"))


def bitor(left, right):
    return N("BinOp", left=left, op=N("BitOr"), right=right)


def dump(v):
    """ast.dump: canonical text of the structure (positions excluded)."""
    if isinstance(v, Rec):
        return v.cls + "(" + ", ".join(f"{k}={dump(x)}" for k, x in sorted(v.attrs.items()) if k not in ("lineno", "col_offset", "tag")) + ")"
    if isinstance(v, (list, tuple)):
        return "[" + ", ".join(dump(x) for x in v) + "]"
    return repr(v)


def copy_node(v):
    if isinstance(v, Rec) and v.cls not in ("hint", "ForwardRef") and not v.cls.startswith(("class ", "typing ")):
        return Rec(v.cls, attrs={k: copy_node(x) for k, x in v.attrs.items()}, methods=dict(v.methods))
    if isinstance(v, list):
        return [copy_node(x) for x in v]
    return v


AST_TRUST = "ast: node classes and fields as ast.parse produces them; ast.dump(a) == ast.dump(b) iff a and b are structurally equal; deepcopy copies a tree"
ORIGIN_TRUST = "get_typehint_origin: the runtime class of a parametrised hint (List[int] -> list, Optional[int] -> Union), None for a plain class (its own unit, r2_typehelpers)"
INL_EVAL = {"type_requires_eval": MOD + "type_requires_eval", "has_subtypes": MOD + "has_subtypes"}


# ============================================================================================================ evaluate_postponed_annotations
ANN_FORMS = ["class int", "empty", "List[int]", "'A'(str)", "ForwardRef('A')", "Optional['A']", "Dict[str, List['A']]"]


def ann_form(u, form):
    return {"class int": lambda: u.int, "empty": lambda: u.Empty, "List[int]": lambda: u.g(u.list, u.int), "'A'(str)": lambda: "A", "ForwardRef('A')": lambda: u.ref("A"),
            "Optional['A']": lambda: u.g(u.Union, u.ref("A"), u.NoneType), "Dict[str, List['A']]": lambda: u.g(u.dict, u.str, u.g(u.list, u.ref("A")))}[form]()


def epa_setup(ctx):
    classes(ctx)
    u = U()
    n = ctx.choose(3, "n-params")
    forms = []
    if n >= 1:
        forms.append(ANN_FORMS[ctx.choose(len(ANN_FORMS), "annotation-of-p0")])
    if n >= 2:
        forms.append(["class int", "'A'(str)", "Optional['A']"][ctx.choose(3, "annotation-of-p1")])
    anns = [ann_form(u, f) for f in forms]
    params = [Rec("ParamData", attrs={"name": f"p{i}", "annotation": a, "default": z3.Int(f"default{i}"), "kind": "POSITIONAL_OR_KEYWORD"}) for i, a in enumerate(anns)]
    needs = any(u.unresolved(a) for a in anns)
    pk = "no-parent"
    cname, qual, pname = "run", z3.String("component.__qualname__"), z3.String("parent.__name__")
    if needs:  # the component dimensions matter only when something is looked up
        pk = ["no-parent", "plain-class", "dataclass"][ctx.choose(3, "parent")]
        cname = ["__init__", "run"][ctx.choose(2, "component.__name__")] if pk != "no-parent" else "run"
    parent = None if pk == "no-parent" else Rec("class Parent", attrs={"__name__": pname})
    component = Rec("component", attrs={"__name__": cname, "__qualname__": qual})
    logger = Rec("logger")
    outcome = {}

    def get_types(c, a, k):
        c.event("get_types", a[0], a[1] if len(a) > 1 else k.get("logger"))
        if c.choose(2, "get_types-raises") == 1:
            raise PyRaise(ExcVal("NameError", ("name 'A' is not defined",), origin="get_types"))
        types = {"unrelated": Rec("type of a name that is no parameter")}
        for p in params:
            o = ["a-type", "an-exception", "not-answered"][c.choose(3, f"answer-for-{p.attrs['name']}")]
            outcome[p.attrs["name"]] = o
            if o == "a-type":
                types[p.attrs["name"]] = Rec("resolved type of " + p.attrs["name"])
            elif o == "an-exception":
                types[p.attrs["name"]] = ExcVal("NameError", ("name 'A' is not defined",), origin="per-parameter")
        outcome["$types"] = types
        outcome["$snapshot"] = dict(types)
        return types

    calls = dict(u.calls(), get_types=get_types, is_dataclass=lambda c, a, k: a[0] is not None and pk == "dataclass")
    return Setup(env={"params": params, "component": component, "parent": parent, "logger": logger}, calls=calls, consts=u.consts(), inline=INL_EVAL,
                 data=dict(u=u, forms=forms, anns=anns, params=params, lst=list(params), needs=needs, pk=pk, cname=cname, qual=qual, pname=pname, parent=parent, component=component,
                           logger=logger, outcome=outcome, defaults=[p.attrs["default"] for p in params]))


def epa_post(ctx, st, result):
    d = st.data
    params, anns, outcome = d["params"], d["anns"], d["outcome"]
    tag = f"[({', '.join(d['forms'])});parent:{d['pk']};component:{d['cname']}]"
    asked = [e for e in ctx.events if e[0] == "get_types"]
    ctx.oblige("post", "returns-nothing(the parameters are updated in place)" + tag, result is None)
    ctx.oblige("frame", "the-list-keeps-its-parameters;name,default,kind-of-every-parameter-are-untouched" + tag,
               len(st.env["params"]) == len(d["lst"]) and all(x is y for x, y in zip(st.env["params"], d["lst"]))
               and all(p.attrs["name"] == f"p{i}" and p.attrs["default"] is d["defaults"][i] and p.attrs["kind"] == "POSITIONAL_OR_KEYWORD" and set(p.attrs) == {"name", "annotation", "default", "kind"} for i, p in enumerate(params)))
    if not d["needs"]:
        ctx.oblige("post", "when-no-annotation-holds-an-unresolved-reference-nothing-is-looked-up(no source needed)-and-every-annotation-stays-the-object-it-was" + tag,
                   not asked and all(p.attrs["annotation"] is a for p, a in zip(params, anns)))
        return
    ctx.oblige("post", "the-types-are-asked-for-exactly-once,with-the-caller's-logger" + tag, len(asked) == 1 and asked[0][2] is d["logger"])
    if len(asked) != 1:
        return
    own_init = z3.PrefixOf(z3.Concat(d["pname"], z3.StringVal(".")), d["qual"])
    want_parent = And(d["pk"] == "dataclass", d["cname"] == "__init__", Not(own_init))
    ctx.oblige("post", "asked-of-the-component-itself;of-the-dataclass-only-for-a-constructor-the-dataclass-did-not-define-under-its-own-name(its fields are what that constructor takes)" + tag,
               Or(And(want_parent, asked[0][1] is d["parent"]), And(Not(want_parent), asked[0][1] is d["component"])))
    if "$types" not in outcome:
        ctx.oblige("post", "a-failure-to-resolve-the-types-changes-no-annotation(left as it was)" + tag, all(p.attrs["annotation"] is a for p, a in zip(params, anns)))
        return
    types = outcome["$types"]
    for p, a in zip(params, anns):
        nm = p.attrs["name"]
        if outcome[nm] == "a-type":
            ctx.oblige("post", f"a-parameter-whose-type-was-resolved-gets-exactly-that-type[{nm}]" + tag, p.attrs["annotation"] is types[nm])
        elif outcome[nm] == "an-exception":
            ctx.oblige("post", f"a-parameter-whose-type-could-not-be-resolved-keeps-its-annotation:the-exception-never-becomes-the-type[{nm}]" + tag, p.attrs["annotation"] is a)
        else:
            ctx.oblige("post", f"a-parameter-the-answer-does-not-name-keeps-its-annotation[{nm}]" + tag, p.attrs["annotation"] is a)
    ctx.oblige("frame", "the-answer-of-get_types-is-not-modified" + tag, set(types) == set(outcome["$snapshot"]) and all(types[k] is v for k, v in outcome["$snapshot"].items()))


def epa_raises(ctx, st, exc):
    ctx.oblige("raises", f"never-raises:a-failure-to-resolve-is-logged,the-annotations-stay(got {exc.cls}@{exc.origin})[({', '.join(st.data['forms'])})]", False)


# ============================================================================================================ has_subtypes / type_requires_eval
HINTS = ["class int", "'A'(str)", "ForwardRef('A')", "empty", "List[int]", "List['A']", "list['A']", "Optional['A']", "Optional[int]", "Union[int, List['A']]", "Dict[str, 'A']", "Dict[str, int]",
         "Tuple['A', ...]", "Set['A']", "Type['A']", "type['A']", "bare type", "Dict[str, List[Optional['A']]]", "Dict[str, List[Optional[int]]]", "List[str-hint 'A']"]


def hint_form(u, form):
    E = Rec("Ellipsis")
    t = {
        "class int": lambda: u.int, "'A'(str)": lambda: "A", "ForwardRef('A')": lambda: u.ref("A"), "empty": lambda: u.Empty, "List[int]": lambda: u.g(u.list, u.int),
        "List['A']": lambda: u.g(u.list, u.ref("A")), "list['A']": lambda: u.g(u.list, u.ref("A")), "Optional['A']": lambda: u.g(u.Union, u.ref("A"), u.NoneType),
        "Optional[int]": lambda: u.g(u.Union, u.int, u.NoneType), "Union[int, List['A']]": lambda: u.g(u.Union, u.int, u.g(u.list, u.ref("A"))),
        "Dict[str, 'A']": lambda: u.g(u.dict, u.str, u.ref("A")), "Dict[str, int]": lambda: u.g(u.dict, u.str, u.int), "Tuple['A', ...]": lambda: u.g(u.tuple, u.ref("A"), E),
        "Set['A']": lambda: u.g(u.set, u.ref("A")), "Type['A']": lambda: u.g(u.type, u.ref("A")), "type['A']": lambda: u.g(u.type, u.ref("A")), "bare type": lambda: u.type,
        "Dict[str, List[Optional['A']]]": lambda: u.g(u.dict, u.str, u.g(u.list, u.g(u.Union, u.ref("A"), u.NoneType))),
        "Dict[str, List[Optional[int]]]": lambda: u.g(u.dict, u.str, u.g(u.list, u.g(u.Union, u.int, u.NoneType))), "List[str-hint 'A']": lambda: u.g(u.list, "A"),
    }
    return t[form]()


def tre_setup(ctx):
    classes(ctx)
    u = U()
    form = HINTS[ctx.choose(len(HINTS), "typehint")]
    h = hint_form(u, form)
    return Setup(env={"typehint": h}, calls=u.calls(), consts=u.consts(), inline=INL_EVAL, data=dict(u=u, form=form, h=h))


def tre_post(ctx, st, result):
    d = st.data
    ctx.oblige("post", f"true-exactly-when-a-string-or-ForwardRef-occurs-at-any-depth-below-Union/sequence/tuple-set/mapping/type[...](such a hint is not yet a type)[{d['form']}]",
               result is d["u"].unresolved(d["h"]) if isinstance(result, bool) else False)


def hs_post(ctx, st, result):
    d = st.data
    ctx.oblige("post", f"true-exactly-for-a-parametrised-Union/sequence/tuple-set/mapping/type[...]-hint(a plain class,a string,a bare `type` have no subtypes)[{d['form']}]",
               result is d["u"].is_container(d["h"]) if isinstance(result, bool) else False)


# ============================================================================================================ get_types
GT_FORMS = ["unannotated", "A(expression)", "'A'(quoted name)", "'Optional[A]'(quoted expression)", "Undefined(expression that fails)", "Optional['A'](nested forward reference)"]


def gt_setup(ctx):
    classes(ctx)
    u = U()
    kind = ["function", "class"][ctx.choose(2, "component-kind")]
    hints = ["get_type_hints-resolves-everything", "get_type_hints-raises", "get_type_hints-leaves-p0-unresolved"][ctx.choose(3, "get_type_hints")]
    f0 = GT_FORMS[ctx.choose(len(GT_FORMS), "annotation-of-p0")]
    f1 = GT_FORMS[ctx.choose(len(GT_FORMS), "annotation-of-p1(keyword-only)")]
    if hints == "get_type_hints-resolves-everything" and "Undefined(expression that fails)" in (f0, f1):
        raise PathEnd()  # typing.get_type_hints cannot resolve an undefined name
    if hints == "get_type_hints-leaves-p0-unresolved" and f0 in ("unannotated", "Undefined(expression that fails)"):
        raise PathEnd()
    if hints == "get_type_hints-leaves-p0-unresolved" and f1 == "Undefined(expression that fails)":
        raise PathEnd()
    source = "available" if hints == "get_type_hints-resolves-everything" else ["available", "getsource-fails(OSError)", "not-a-single-definition"][ctx.choose(3, "source")]
    OPT, OPT_A, OPT_REF, OPT_RESOLVED = Rec("typing Optional"), Rec("hint Optional[A]"), u.g(u.Union, u.ref("A"), u.NoneType), u.g(u.Union, u.A, u.NoneType)
    shadow_b, shadow_g = Rec("builtin object named shadow"), Rec("module global named shadow")
    builtins = {"int": u.int, "str": u.str, "shadow": shadow_b}
    G = {"A": u.A, "Optional": OPT, "shadow": shadow_g}
    nodes, want = {}, {}
    for nm, f in (("p0", f0), ("p1", f1)):
        nodes[nm] = {"unannotated": lambda: None, "A(expression)": lambda: name("A"), "'A'(quoted name)": lambda: const("A"), "'Optional[A]'(quoted expression)": lambda: const("Optional[A]"),
                     "Undefined(expression that fails)": lambda: name("Undefined"), "Optional['A'](nested forward reference)": lambda: subscript(name("Optional"), const("A"))}[f]()
        want[nm] = {"unannotated": None, "A(expression)": u.A, "'A'(quoted name)": u.A, "'Optional[A]'(quoted expression)": OPT_A, "Undefined(expression that fails)": "exception",
                    "Optional['A'](nested forward reference)": OPT_RESOLVED}[f]
    if kind == "function":
        mkarg = lambda nm: N("arg", arg=nm, annotation=nodes[nm])  # noqa: E731
        node = N("FunctionDef", name="f", args=N("arguments", posonlyargs=[], args=[mkarg("p0")], kwonlyargs=[mkarg("p1")], vararg=None, kwarg=None), body=[N("Pass")])
    else:
        body = [N("Expr", value=const("docstring"))]
        for nm in ("p0", "p1"):
            if nodes[nm] is not None:
                body.append(N("AnnAssign", target=N("Name", id=nm, ctx=N("Store")), annotation=nodes[nm], value=None, simple=1))
        body.append(N("Assign", targets=[N("Name", id="unannotated_attr", ctx=N("Store"))], value=const(1)))
        node = N("ClassDef", name="K", body=body)
    tree = N("Module", body=[node] if source != "not-a-single-definition" else [node, N("Pass")])
    obj = Rec("component", attrs={"__module__": "usermod", "__annotations__": {"p0": "A"}})
    hinted = {nm: Rec("type of " + nm + " from get_type_hints") for nm, f in (("p0", f0), ("p1", f1)) if f != "unannotated"}
    if hints == "get_type_hints-leaves-p0-unresolved":
        hinted["p0"] = u.g(u.list, u.ref("A"))
    hinted_dict = dict(hinted)
    seen = {}

    def get_type_hints(c, a, k):
        c.event("get_type_hints", a[0], a[1] if len(a) > 1 else None)
        if hints == "get_type_hints-raises":
            raise PyRaise(ExcVal("NameError", ("name 'Undefined' is not defined",), origin="get_type_hints"))
        return hinted_dict

    def getsource(c, a, k):
        c.event("getsource", a[0])
        if source == "getsource-fails(OSError)":
            raise PyRaise(ExcVal("OSError", ("could not get source code",), origin="inspect.getsource"))
        return "<source>"

    def get_arg_type(c, a, k):
        node_, aliases = a
        seen["aliases"] = aliases
        seen.setdefault("alias_snapshots", []).append(dict(aliases))
        c.event("get_arg_type", node_)
        if node_.cls == "Constant":
            return node_.attrs["value"]  # a string constant evaluates to the string
        if node_.cls == "Name" and node_.attrs["id"] not in aliases:
            raise PyRaise(ExcVal("KeyError", (node_.attrs["id"],), origin="get_arg_type"))
        if node_.cls == "Name":
            return aliases[node_.attrs["id"]]
        return OPT_REF  # Optional['A']: the subscript of Optional with a string is a hint holding a forward reference

    def resolve_forward_refs(c, a, k):
        t, aliases = a[0], a[1]
        c.event("resolve_forward_refs", t)
        if isinstance(t, str) and t in aliases:
            return aliases[t]
        if t is OPT_REF:
            return OPT_RESOLVED if "A" in aliases else OPT_REF
        return t

    calls = dict(u.calls(), get_global_vars=lambda c, a, k: (c.event("get_global_vars", a[0], a[1]), G)[1], get_type_hints=get_type_hints, get_arg_type=get_arg_type, resolve_forward_refs=resolve_forward_refs,
                 iter=lambda c, a, k: a[0])
    calls["inspect.getsource"] = getsource
    calls["textwrap.dedent"] = lambda c, a, k: a[0]
    calls["ast.parse"] = lambda c, a, k: tree
    consts = dict(u.consts(), **AST_CONSTS, __builtins__=builtins)
    logger = Rec("logger")
    return Setup(env={"obj": obj, "logger": logger}, calls=calls, consts=consts, inline=INL_EVAL,
                 data=dict(u=u, kind=kind, hints=hints, f0=f0, f1=f1, source=source, G=G, G0=dict(G), builtins=builtins, B0=dict(builtins), want=want, hinted=hinted, hinted_dict=hinted_dict, obj=obj,
                           obj_attrs=dict(obj.attrs), seen=seen, shadow_g=shadow_g, nodes=nodes, tree_dump=dump(tree), logger=logger))


def gt_tag(d):
    return f"[{d['kind']}(p0: {d['f0']}, *, p1: {d['f1']});{d['hints']};source:{d['source']}]"


def gt_frame(ctx, d, tag):
    G, B = d["G"], d["builtins"]
    ctx.oblige("frame", "the-module-globals-and-the-builtins-are-not-modified(the lookup namespace is a copy);the-component-is-not-touched;the-parsed-tree-is-not-modified" + tag,
               set(G) == set(d["G0"]) and all(G[k] is v for k, v in d["G0"].items()) and set(B) == set(d["B0"]) and all(B[k] is v for k, v in d["B0"].items())
               and set(d["obj"].attrs) == set(d["obj_attrs"]) and all(d["obj"].attrs[k] is v for k, v in d["obj_attrs"].items()))
    gg = [e for e in ctx.events if e[0] == "get_global_vars"]
    gh = [e for e in ctx.events if e[0] == "get_type_hints"]
    ctx.oblige("post", "the-names-are-looked-up-in-the-namespace-of-the-component's-own-module(get_global_vars(obj)),which-is-what-get_type_hints-is-given" + tag,
               len(gg) == 1 and gg[0][1] is d["obj"] and len(gh) == 1 and gh[0][1] is d["obj"] and gh[0][2] is G)


def gt_expect(d):
    """name -> expected entry on the source path, by the statement: what the annotation denotes; 'exception' for one that cannot be evaluated; absent when unannotated."""
    exp = {}
    for nm in ("p0", "p1"):
        w = d["want"][nm]
        if w is None:
            continue
        if nm in d["hinted"] and d["hints"] == "get_type_hints-leaves-p0-unresolved" and nm == "p1":
            exp[nm] = d["hinted"][nm]  # resolved by get_type_hints: kept
        else:
            exp[nm] = w
    return exp


def gt_post(ctx, st, result):
    d = st.data
    tag = gt_tag(d)
    gt_frame(ctx, d, tag)
    src_events = [e for e in ctx.events if e[0] in ("getsource", "get_arg_type")]
    if d["hints"] == "get_type_hints-resolves-everything":
        ctx.oblige("post", "when-typing.get_type_hints-resolves-every-annotation-its-answer-is-the-result;the-source-is-not-needed" + tag,
                   isinstance(result, dict) and set(result) == set(d["hinted"]) and all(result[k] is v for k, v in d["hinted"].items()) and not src_events)
        return
    if d["source"] != "available":
        ctx.oblige("post", "without-usable-source-the-partial-answer-of-get_type_hints-is-returned-as-it-is(the unresolved annotation is left as it was)" + tag,
                   d["hints"] == "get_type_hints-leaves-p0-unresolved" and result is d["hinted_dict"] and set(result) == set(d["hinted"]) and all(result[k] is v for k, v in d["hinted"].items()))
        return
    exp = gt_expect(d)
    ok_shape = isinstance(result, dict)
    ctx.oblige("post", "the-result-names-exactly-the-annotated-parameters(positional-or-keyword and keyword-only / annotated fields)" + tag, ok_shape and set(result) == set(exp), note=f"got {sorted(result) if ok_shape else result!r}")
    if not ok_shape:
        return
    for nm, w in exp.items():
        form = d["f0"] if nm == "p0" else d["f1"]
        got = result.get(nm)
        if w == "exception":
            ctx.oblige("post", f"a-parameter-whose-annotation-cannot-be-evaluated-carries-the-exception(never a type);the-others-are-not-disturbed[{nm}: {form}]" + tag, isinstance(got, ExcVal))
        elif form == "'Optional[A]'(quoted expression)" and w is not d["hinted"].get(nm, object()):
            ctx.oblige("post", f"a-quoted-annotation-denotes-the-same-type-as-the-unquoted-one(\"Optional[A]\" is Optional[A])[{nm}: {form}]" + tag, got is w)
        else:
            ctx.oblige("post", f"the-parameter-gets-the-type-its-annotation-denotes-in-the-module-namespace,forward-references-resolved(a type get_type_hints resolved is kept)[{nm}: {form}]" + tag, got is w)
    snaps = d["seen"].get("alias_snapshots", [])
    if snaps:
        ctx.oblige("post", "annotations-are-evaluated-in{builtins overlaid by the module globals}:a-module-global-shadows-the-builtin-of-the-same-name,every-builtin-and-global-is-visible" + tag,
                   all(s.get("shadow") is d["shadow_g"] and s.get("int") is d["u"].int and s.get("A") is d["u"].A and set(s) == set(d["G0"]) | set(d["B0"]) for s in snaps))


def gt_raises(ctx, st, exc):
    d = st.data
    tag = gt_tag(d)
    gt_frame(ctx, d, tag)
    if d["hints"] == "get_type_hints-resolves-everything":
        ctx.oblige("raises", f"no-exception-when-get_type_hints-resolves-everything(got {exc.cls}@{exc.origin})" + tag, False)
        return
    if d["source"] != "available":
        ctx.oblige("raises", f"without-usable-source-the-caller-gets-an-exception-of-the-class-get_type_hints-raised(NameError),only-when-get_type_hints-failed(got {exc.cls}@{exc.origin})" + tag,
                   d["hints"] == "get_type_hints-raises" and exc.cls == "NameError")
        return
    exp = gt_expect(d)
    all_fail = all(w == "exception" for w in exp.values())
    ctx.oblige("raises", f"an-exception-escapes-only-when-no-annotated-parameter-could-be-evaluated(got {exc.cls}@{exc.origin})" + tag, all_fail)
    if all_fail:
        ctx.oblige("raises", "it-is-the-exception-get_type_hints-raised(the caller gets the documented NameError)" + tag, exc.cls == "NameError" and exc.origin == "get_type_hints" if d["hints"] == "get_type_hints-raises" else exc.origin == "get_arg_type")


# ============================================================================================================ units
def units(prop):
    T_EVAL = "type_requires_eval / has_subtypes: interpreted with their real bodies (inlined)"
    return [
        Unit(prop, MOD + "evaluate_postponed_annotations", epa_setup, epa_post, epa_raises,
             trusted=[ORIGIN_TRUST, T_EVAL, "get_types by contract (its own unit): a dict name -> type or exception, or an exception", "dataclasses.is_dataclass as documented", "precondition: logger is a logging.Logger (the resolvers always pass one)"]),
        Unit(prop, MOD + "type_requires_eval", tre_setup, tre_post, never, trusted=[ORIGIN_TRUST]),
        Unit(prop, MOD + "has_subtypes", tre_setup, hs_post, never, trusted=[ORIGIN_TRUST]),
        Unit(prop, MOD + "get_types", gt_setup, gt_post, gt_raises, expect_cover=("return", "raise:NameError"),
             trusted=[ORIGIN_TRUST, T_EVAL, AST_TRUST, "typing.get_type_hints(obj, globalns): name -> evaluated annotation, or the exception of the first annotation that fails",
                      "inspect.getsource / textwrap.dedent / ast.parse: the definition's tree, OSError/TypeError without source", "get_global_vars, get_arg_type, resolve_forward_refs by contract (their own units)"]),
    ]


CARRIES = {"C12": [":evaluate_postponed_annotations", ":get_types", ":type_requires_eval", ":has_subtypes"],
           "C13": [":evaluate_postponed_annotations", ":get_types"]}
