"""Round 2 - jsonargparse/_postponed_annotations.py under contract (C12, C13): which *type* a parameter is given when its annotation is a
string (from __future__ import annotations), a forward reference, `X | Y` on an old Python, or a name imported under `if TYPE_CHECKING:`.

Clause of C12 / C13 behind every unit: each parameter is bound to the value converted to the *declared* type and keeps the type of the signature
it comes from - so the type resolved for a parameter is the one its annotation denotes in the namespace of the function's own module; a failure
to resolve never silently turns a typed parameter into another type (the annotation is left as it was / the caller gets the exception);
nothing of the component (its module globals, its parameters' other attributes) is modified.

Modelling: type hints are records (`__origin__`, `__args__`; a ForwardRef has `__forward_arg__`), ast nodes are records as in
contracts/r2_resolver.py, ParamData is a record, exceptions are the engine's exception values.  Shapes (annotation forms, outcomes of the
callees) are enumerated exhaustively; names are symbolic strings where the engine carries them (component / parent names).

  evaluate_postponed_annotations   nothing is looked up when no annotation needs it; the types are asked once, of the component (of the dataclass for a
                                   constructor the dataclass did not define under its own name); a parameter with a resolved type gets exactly that type; one
                                   whose type is an exception, or is not answered, keeps its annotation; a failure of get_types changes nothing and does not
                                   escape; name / default / kind and the list are untouched  (type_requires_eval / has_subtypes run with their real bodies)
  get_types                        everything resolved by typing.get_type_hints -> that answer, the source is not needed; otherwise every annotated
                                   parameter (positional-or-keyword, keyword-only; annotated fields of a class) get_type_hints left unresolved gets what its
                                   annotation denotes in {builtins overlaid by the module globals}, with forward references resolved; a parameter that cannot
                                   be evaluated carries its exception and does not disturb the others; all fail -> the get_type_hints exception (else the
                                   first parameter's); no source -> the get_type_hints exception class / its partial answer; globals and builtins unmodified
  get_arg_type                     the annotation expression is evaluated with each of its names bound to the object the caller's namespace binds it to (the
                                   value of a stub resolver's (source, value) pair); names whose alias is an exception stay unbound and that exception is
                                   the cause of the NameError; stub assignments are executed first; on Python < 3.10 the back-ported tree is what runs; the
                                   namespace and the annotation node are not modified
  resolve_forward_refs             [no-forward-reference paths] a string naming an alias is that alias; a hint without forward references is returned as the
                                   very same object, whatever its nesting
  resolve_forward_refs.<locals>.resolve_subtypes_forward_refs@if(forward_arg in aliases)      'A' -> aliases['A'], 'mod.A.B' -> attribute chain below aliases['mod']
  resolve_forward_refs.<locals>.resolve_subtypes_forward_refs@if(subtypes != list(typehint.__args__))   the rebuilt hint is the same kind of container with exactly the resolved
                                   arguments in order (Python >= 3.10: the same origin; < 3.10: its typing generic)
  has_subtypes / type_requires_eval   an unresolved reference (str / ForwardRef) at any depth below Union / sequence / tuple-set / mapping / type[...]
  get_global_vars                  every module global, plus the names the module binds only under TYPE_CHECKING when the source mentions it; no failure of
                                   the source lookup or of the TYPE_CHECKING block escapes; the module's own namespace is not modified
  TypeCheckingVisitor.visit_Import / visit_ImportFrom / visit_If / generic_visit / update_aliases
                                   `import typing [as t]` makes t.TYPE_CHECKING, `from typing import TYPE_CHECKING [as TC]` makes TC a guard; the body (never
                                   the else arm) of an `if <guard>:` is executed once into the aliases, a failure is swallowed; any other test (another name,
                                   `not TYPE_CHECKING`, a comparison) executes nothing; only module-level statements and ifs are searched
  get_return_type                  an evaluated return annotation is returned as it is; a postponed one is what get_type_hints says in the module namespace
                                   (a bare forward reference: resolved); a failure gives None, never an exception
  BackportTypeHints.visit_BinOp / append_union_elts / visit_Constant / visit_Subscript / new_name_load / backport
                                   `X | Y | Z` -> Union[X, Y, Z] (flat, in order, operands back-ported), None -> NoneType, list[...] -> List[...] with the
                                   subscript back-ported, other subscripts keep their value; the names introduced are bound in the namespace given; the input
                                   tree is not modified (a copy is transformed)
  NamesVisitor.find                the distinct names of the expression in order of first occurrence
refuted on the unchanged tree (real, reproduced natively - see the builder's report):
  TypeCheckingVisitor.update_aliases   type_checking_names is a class attribute that is never reset: a guard found in one module (`from typing import TYPE_CHECKING as FLAG`) makes
                   `if FLAG:` of every module searched later a block to execute - into that module's live namespace
  get_arg_type     a module global that is a tuple and is named in an annotation is replaced by its second element (Union[TYPES] with TYPES = (int, str) -> str)
  get_types        a quoted annotation that is more than a bare name ("Optional[int]") stays a string on the source path (reached when another annotation of
                   the signature fails in get_type_hints): the parameter is then dropped from the parser
  get_global_vars  the TYPE_CHECKING block is executed into the live module namespace (vars(module)): the names appear in the user's module
  resolve_subtypes_forward_refs (rebuild arm, Python < 3.10 only)   Set['A'] / set['A'] is rebuilt as Tuple[A]
not under contract: getattr_recursive and the ForwardRef arm of resolve_subtypes_forward_refs up to the alias lookup (starred unpacking `a, *b = ...` is outside the
  engine's subset); the and/or-test arm of visit_If (any() over two nested generators is outside the subset); logging calls (dropped by the engine)
"""
import z3

from pyvc.engine import And, ClassRef, ExcVal, Implies, Not, Or, PathEnd, PyRaise, Rec
from pyvc.units import Setup, Unit

M = "jsonargparse._postponed_annotations"
MOD = M + ":"


# ============================================================================================================ shared modelling
def never(ctx, st, exc):
    ctx.oblige("raises", f"never-raises(got {exc.cls}@{exc.origin})", False)


class U:
    """The typing objects the bodies compare against and a few classes, as records (fresh per path).  get_typehint_origin (its own unit in
    r2_typehelpers) answers the runtime class for a parametrised hint (List[int] -> list) and None for a plain class."""

    def __init__(self):
        self.made = []

        def origin(label):
            o = Rec(label, attrs={"__name__": label.split()[-1]})
            o.methods["__getitem__"] = lambda c, s_, a, k: self._subscript(s_, a[0])
            return o

        self.Union = origin("typing Union")
        self.list, self.tuple, self.set, self.dict, self.type = (origin("class " + n) for n in ("list", "tuple", "set", "dict", "type"))
        self.List, self.Tuple, self.Set, self.Dict, self.Type = (origin("typing " + n) for n in ("List", "Tuple", "Set", "Dict", "Type"))
        self.Callable = origin("collections.abc Callable")
        self.type.methods["__call__"] = lambda c, s_, a, k: ClassRef(a[0].cls if isinstance(a[0], (ExcVal, Rec)) else type(a[0]).__name__)  # type(x): the class of x
        mk = lambda n: Rec("class " + n, attrs={"__name__": n})  # noqa: E731
        self.int, self.str, self.NoneType, self.A, self.B, self.Empty = mk("int"), mk("str"), mk("NoneType"), mk("A"), mk("B"), mk("inspect._empty")

    def _subscript(self, origin, args):
        h = self.g(origin, *(args if isinstance(args, tuple) else (args,)))
        self.made.append((origin, args))
        h.attrs["made"] = True
        return h

    def g(self, origin, *args):
        return Rec("hint", attrs={"__origin__": origin, "__args__": tuple(args)})

    def ref(self, name):
        return Rec("ForwardRef", attrs={"__forward_arg__": name})

    def consts(self):
        return {"Union": self.Union, "List": self.List, "Tuple": self.Tuple, "Dict": self.Dict, "Type": self.Type, "type": self.type, "ForwardRef": ClassRef("ForwardRef"),
                "sequence_origin_types": {self.List, self.list}, "tuple_set_origin_types": {self.Tuple, self.tuple, self.Set, self.set}, "mapping_origin_types": {self.Dict, self.dict}}

    def calls(self):
        return {"get_typehint_origin": lambda c, a, k: a[0].attrs.get("__origin__") if isinstance(a[0], Rec) else None}

    CONTAINERS = ("Union", "list", "List", "tuple", "Tuple", "set", "Set", "dict", "Dict", "type", "Type")

    def is_container(self, h):
        """A parametrised hint whose arguments are types the parameter's value is made of (by the definition of the typing forms)."""
        o = h.attrs.get("__origin__") if isinstance(h, Rec) else None
        return o is not None and any(o is getattr(self, n) for n in self.CONTAINERS)

    def unresolved(self, h):
        """Definition: a string or ForwardRef at any depth below the containers."""
        if isinstance(h, str) or (isinstance(h, Rec) and h.cls == "ForwardRef"):
            return True
        return self.is_container(h) and any(self.unresolved(a) for a in h.attrs.get("__args__", ()))


def classes(ctx):
    ctx.classes.add("ForwardRef", ["object"])
    ctx.classes.add("hint", ["object"])
    ctx.classes.add("AST", ["object"])
    for c in ("Module", "FunctionDef", "ClassDef", "AnnAssign", "Assign", "Constant", "Name", "Subscript", "BinOp", "BitOr", "Add", "Tuple", "Load", "Store", "arguments", "arg", "Attribute",
              "If", "Import", "ImportFrom", "alias", "BoolOp", "UnaryOp", "Compare", "And", "Or", "Not", "Expr", "Index", "Lambda", "Pass"):
        ctx.classes.add(c, ["AST"])


AST_NAMES = ("Module", "FunctionDef", "ClassDef", "AnnAssign", "Assign", "Constant", "Name", "Subscript", "BinOp", "BitOr", "Tuple", "Load", "Attribute", "If", "Import", "ImportFrom",
             "BoolOp", "And", "Or", "AST")
AST_CONSTS = {"ast." + c: ClassRef(c) for c in AST_NAMES}


def _no_such_field(c, s_, a, k):
    raise PyRaise(ExcVal("AttributeError", args=(f"'{s_.cls}' object has no attribute {a[0]!r}",), origin=f"{s_.cls}.{a[0]}"))


def N(cls, **attrs):
    """An ast node: reading a field the node class does not have is AttributeError, as in CPython."""
    return Rec(cls, attrs=attrs, methods={"__getattr__": _no_such_field})


def name(id_):
    return N("Name", id=id_, ctx=N("Load"))


def const(v):
    return N("Constant", value=v)


def subscript(value, sl):
    return N("Subscript", value=value, slice=sl, ctx=N("Load"))


def bitor(left, right):
    return N("BinOp", left=left, op=N("BitOr"), right=right)


def dump(v):
    """ast.dump: canonical text of the structure (positions excluded)."""
    if isinstance(v, Rec):
        return v.cls + "(" + ", ".join(f"{k}={dump(x)}" for k, x in sorted(v.attrs.items()) if k not in ("lineno", "col_offset", "tag")) + ")"
    if isinstance(v, (list, tuple)):
        return "[" + ", ".join(dump(x) for x in v) + "]"
    return repr(v)


def copy_node(v):
    if isinstance(v, Rec) and v.cls not in ("hint", "ForwardRef") and not v.cls.startswith(("class ", "typing ")):
        return Rec(v.cls, attrs={k: copy_node(x) for k, x in v.attrs.items()}, methods=dict(v.methods))
    if isinstance(v, list):
        return [copy_node(x) for x in v]
    return v


AST_TRUST = "ast: node classes and fields as ast.parse produces them; ast.dump(a) == ast.dump(b) iff a and b are structurally equal; deepcopy copies a tree"
ORIGIN_TRUST = "get_typehint_origin: the runtime class of a parametrised hint (List[int] -> list, Optional[int] -> Union), None for a plain class (its own unit, r2_typehelpers)"
INL_EVAL = {"type_requires_eval": MOD + "type_requires_eval", "has_subtypes": MOD + "has_subtypes"}


# ============================================================================================================ evaluate_postponed_annotations
ANN_FORMS = ["class int", "empty", "List[int]", "'A'(str)", "ForwardRef('A')", "Optional['A']", "Dict[str, List['A']]"]


def ann_form(u, form):
    return {"class int": lambda: u.int, "empty": lambda: u.Empty, "List[int]": lambda: u.g(u.list, u.int), "'A'(str)": lambda: "A", "ForwardRef('A')": lambda: u.ref("A"),
            "Optional['A']": lambda: u.g(u.Union, u.ref("A"), u.NoneType), "Dict[str, List['A']]": lambda: u.g(u.dict, u.str, u.g(u.list, u.ref("A")))}[form]()


def epa_setup(ctx):
    classes(ctx)
    u = U()
    n = ctx.choose(3, "n-params")
    forms = []
    if n >= 1:
        forms.append(ANN_FORMS[ctx.choose(len(ANN_FORMS), "annotation-of-p0")])
    if n >= 2:
        forms.append(["class int", "'A'(str)", "Optional['A']"][ctx.choose(3, "annotation-of-p1")])
    anns = [ann_form(u, f) for f in forms]
    params = [Rec("ParamData", attrs={"name": f"p{i}", "annotation": a, "default": z3.Int(f"default{i}"), "kind": "POSITIONAL_OR_KEYWORD"}) for i, a in enumerate(anns)]
    needs = any(u.unresolved(a) for a in anns)
    pk = "no-parent"
    cname, qual, pname = "run", z3.String("component.__qualname__"), z3.String("parent.__name__")
    if needs:  # the component dimensions matter only when something is looked up
        pk = ["no-parent", "plain-class", "dataclass"][ctx.choose(3, "parent")]
        cname = ["__init__", "run"][ctx.choose(2, "component.__name__")] if pk != "no-parent" else "run"
    parent = None if pk == "no-parent" else Rec("class Parent", attrs={"__name__": pname})
    component = Rec("component", attrs={"__name__": cname, "__qualname__": qual})
    logger = Rec("logger")
    outcome = {}

    def get_types(c, a, k):
        c.event("get_types", a[0], a[1] if len(a) > 1 else k.get("logger"))
        if c.choose(2, "get_types-raises") == 1:
            raise PyRaise(ExcVal("NameError", ("name 'A' is not defined",), origin="get_types"))
        types = {"unrelated": Rec("type of a name that is no parameter")}
        for p in params:
            o = ["a-type", "an-exception", "not-answered"][c.choose(3, f"answer-for-{p.attrs['name']}")]
            outcome[p.attrs["name"]] = o
            if o == "a-type":
                types[p.attrs["name"]] = Rec("resolved type of " + p.attrs["name"])
            elif o == "an-exception":
                types[p.attrs["name"]] = ExcVal("NameError", ("name 'A' is not defined",), origin="per-parameter")
        outcome["$types"] = types
        outcome["$snapshot"] = dict(types)
        return types

    calls = dict(u.calls(), get_types=get_types, is_dataclass=lambda c, a, k: a[0] is not None and pk == "dataclass")
    return Setup(env={"params": params, "component": component, "parent": parent, "logger": logger}, calls=calls, consts=u.consts(), inline=INL_EVAL,
                 data=dict(u=u, forms=forms, anns=anns, params=params, lst=list(params), needs=needs, pk=pk, cname=cname, qual=qual, pname=pname, parent=parent, component=component,
                           logger=logger, outcome=outcome, defaults=[p.attrs["default"] for p in params]))


def epa_post(ctx, st, result):
    d = st.data
    params, anns, outcome = d["params"], d["anns"], d["outcome"]
    tag = f"[({', '.join(d['forms'])});parent:{d['pk']};component:{d['cname']}]"
    asked = [e for e in ctx.events if e[0] == "get_types"]
    ctx.oblige("post", "returns-nothing(the parameters are updated in place)" + tag, result is None)
    ctx.oblige("frame", "the-list-keeps-its-parameters;name,default,kind-of-every-parameter-are-untouched" + tag,
               len(st.env["params"]) == len(d["lst"]) and all(x is y for x, y in zip(st.env["params"], d["lst"]))
               and all(p.attrs["name"] == f"p{i}" and p.attrs["default"] is d["defaults"][i] and p.attrs["kind"] == "POSITIONAL_OR_KEYWORD" and set(p.attrs) == {"name", "annotation", "default", "kind"} for i, p in enumerate(params)))
    if not d["needs"]:
        ctx.oblige("post", "when-no-annotation-holds-an-unresolved-reference-nothing-is-looked-up(no source needed)-and-every-annotation-stays-the-object-it-was" + tag,
                   not asked and all(p.attrs["annotation"] is a for p, a in zip(params, anns)))
        return
    ctx.oblige("post", "the-types-are-asked-for-exactly-once,with-the-caller's-logger" + tag, len(asked) == 1 and asked[0][2] is d["logger"])
    if len(asked) != 1:
        return
    own_init = z3.PrefixOf(z3.Concat(d["pname"], z3.StringVal(".")), d["qual"])
    want_parent = And(d["pk"] == "dataclass", d["cname"] == "__init__", Not(own_init))
    ctx.oblige("post", "asked-of-the-component-itself;of-the-dataclass-only-for-a-constructor-the-dataclass-did-not-define-under-its-own-name(its fields are what that constructor takes)" + tag,
               Or(And(want_parent, asked[0][1] is d["parent"]), And(Not(want_parent), asked[0][1] is d["component"])))
    if "$types" not in outcome:
        ctx.oblige("post", "a-failure-to-resolve-the-types-changes-no-annotation(left as it was)" + tag, all(p.attrs["annotation"] is a for p, a in zip(params, anns)))
        return
    types = outcome["$types"]
    for p, a in zip(params, anns):
        nm = p.attrs["name"]
        if outcome[nm] == "a-type":
            ctx.oblige("post", f"a-parameter-whose-type-was-resolved-gets-exactly-that-type[{nm}]" + tag, p.attrs["annotation"] is types[nm])
        elif outcome[nm] == "an-exception":
            ctx.oblige("post", f"a-parameter-whose-type-could-not-be-resolved-keeps-its-annotation:the-exception-never-becomes-the-type[{nm}]" + tag, p.attrs["annotation"] is a)
        else:
            ctx.oblige("post", f"a-parameter-the-answer-does-not-name-keeps-its-annotation[{nm}]" + tag, p.attrs["annotation"] is a)
    ctx.oblige("frame", "the-answer-of-get_types-is-not-modified" + tag, set(types) == set(outcome["$snapshot"]) and all(types[k] is v for k, v in outcome["$snapshot"].items()))


def epa_raises(ctx, st, exc):
    ctx.oblige("raises", f"never-raises:a-failure-to-resolve-is-logged,the-annotations-stay(got {exc.cls}@{exc.origin})[({', '.join(st.data['forms'])})]", False)


# ============================================================================================================ has_subtypes / type_requires_eval
HINTS = ["class int", "'A'(str)", "ForwardRef('A')", "empty", "List[int]", "List['A']", "list['A']", "Optional['A']", "Optional[int]", "Union[int, List['A']]", "Dict[str, 'A']", "Dict[str, int]",
         "Tuple['A', ...]", "Set['A']", "Type['A']", "type['A']", "bare type", "Dict[str, List[Optional['A']]]", "Dict[str, List[Optional[int]]]", "List[str-hint 'A']"]


def hint_form(u, form):
    E = Rec("Ellipsis")
    t = {
        "class int": lambda: u.int, "'A'(str)": lambda: "A", "ForwardRef('A')": lambda: u.ref("A"), "empty": lambda: u.Empty, "List[int]": lambda: u.g(u.list, u.int),
        "List['A']": lambda: u.g(u.list, u.ref("A")), "list['A']": lambda: u.g(u.list, u.ref("A")), "Optional['A']": lambda: u.g(u.Union, u.ref("A"), u.NoneType),
        "Optional[int]": lambda: u.g(u.Union, u.int, u.NoneType), "Union[int, List['A']]": lambda: u.g(u.Union, u.int, u.g(u.list, u.ref("A"))),
        "Dict[str, 'A']": lambda: u.g(u.dict, u.str, u.ref("A")), "Dict[str, int]": lambda: u.g(u.dict, u.str, u.int), "Tuple['A', ...]": lambda: u.g(u.tuple, u.ref("A"), E),
        "Set['A']": lambda: u.g(u.set, u.ref("A")), "Type['A']": lambda: u.g(u.type, u.ref("A")), "type['A']": lambda: u.g(u.type, u.ref("A")), "bare type": lambda: u.type,
        "Dict[str, List[Optional['A']]]": lambda: u.g(u.dict, u.str, u.g(u.list, u.g(u.Union, u.ref("A"), u.NoneType))),
        "Dict[str, List[Optional[int]]]": lambda: u.g(u.dict, u.str, u.g(u.list, u.g(u.Union, u.int, u.NoneType))), "List[str-hint 'A']": lambda: u.g(u.list, "A"),
    }
    return t[form]()


def tre_setup(ctx):
    classes(ctx)
    u = U()
    form = HINTS[ctx.choose(len(HINTS), "typehint")]
    h = hint_form(u, form)
    return Setup(env={"typehint": h}, calls=u.calls(), consts=u.consts(), inline=INL_EVAL, data=dict(u=u, form=form, h=h))


def tre_post(ctx, st, result):
    d = st.data
    ctx.oblige("post", f"true-exactly-when-a-string-or-ForwardRef-occurs-at-any-depth-below-Union/sequence/tuple-set/mapping/type[...](such a hint is not yet a type)[{d['form']}]",
               result is d["u"].unresolved(d["h"]) if isinstance(result, bool) else False)


def hs_post(ctx, st, result):
    d = st.data
    ctx.oblige("post", f"true-exactly-for-a-parametrised-Union/sequence/tuple-set/mapping/type[...]-hint(a plain class,a string,a bare `type` have no subtypes)[{d['form']}]",
               result is d["u"].is_container(d["h"]) if isinstance(result, bool) else False)


# ============================================================================================================ get_types
GT_FORMS = ["unannotated", "A(expression)", "'A'(quoted name)", "'Optional[A]'(quoted expression)", "Undefined(expression that fails)", "Optional['A'](nested forward reference)"]


def gt_setup(ctx):
    classes(ctx)
    u = U()
    kind = ["function", "class"][ctx.choose(2, "component-kind")]
    hints = ["get_type_hints-resolves-everything", "get_type_hints-raises", "get_type_hints-leaves-p0-unresolved"][ctx.choose(3, "get_type_hints")]
    f0 = GT_FORMS[ctx.choose(len(GT_FORMS), "annotation-of-p0")]
    f1 = GT_FORMS[ctx.choose(len(GT_FORMS), "annotation-of-p1(keyword-only)")]
    if hints == "get_type_hints-resolves-everything" and "Undefined(expression that fails)" in (f0, f1):
        raise PathEnd()  # typing.get_type_hints cannot resolve an undefined name
    if hints == "get_type_hints-leaves-p0-unresolved" and f0 in ("unannotated", "Undefined(expression that fails)"):
        raise PathEnd()
    if hints == "get_type_hints-leaves-p0-unresolved" and f1 == "Undefined(expression that fails)":
        raise PathEnd()
    source = "available" if hints == "get_type_hints-resolves-everything" else ["available", "getsource-fails(OSError)", "not-a-single-definition"][ctx.choose(3, "source")]
    OPT, OPT_A, OPT_REF, OPT_RESOLVED = Rec("typing Optional"), Rec("hint Optional[A]"), u.g(u.Union, u.ref("A"), u.NoneType), u.g(u.Union, u.A, u.NoneType)
    shadow_b, shadow_g = Rec("builtin object named shadow"), Rec("module global named shadow")
    builtins = {"int": u.int, "str": u.str, "shadow": shadow_b}
    G = {"A": u.A, "Optional": OPT, "shadow": shadow_g}
    nodes, want = {}, {}
    for nm, f in (("p0", f0), ("p1", f1)):
        nodes[nm] = {"unannotated": lambda: None, "A(expression)": lambda: name("A"), "'A'(quoted name)": lambda: const("A"), "'Optional[A]'(quoted expression)": lambda: const("Optional[A]"),
                     "Undefined(expression that fails)": lambda: name("Undefined"), "Optional['A'](nested forward reference)": lambda: subscript(name("Optional"), const("A"))}[f]()
        want[nm] = {"unannotated": None, "A(expression)": u.A, "'A'(quoted name)": u.A, "'Optional[A]'(quoted expression)": OPT_A, "Undefined(expression that fails)": "exception",
                    "Optional['A'](nested forward reference)": OPT_RESOLVED}[f]
    if kind == "function":
        mkarg = lambda nm: N("arg", arg=nm, annotation=nodes[nm])  # noqa: E731
        node = N("FunctionDef", name="f", args=N("arguments", posonlyargs=[], args=[mkarg("p0")], kwonlyargs=[mkarg("p1")], vararg=None, kwarg=None), body=[N("Pass")])
    else:
        body = [N("Expr", value=const("docstring"))]
        for nm in ("p0", "p1"):
            if nodes[nm] is not None:
                body.append(N("AnnAssign", target=N("Name", id=nm, ctx=N("Store")), annotation=nodes[nm], value=None, simple=1))
        body.append(N("Assign", targets=[N("Name", id="unannotated_attr", ctx=N("Store"))], value=const(1)))
        node = N("ClassDef", name="K", body=body)
    tree = N("Module", body=[node] if source != "not-a-single-definition" else [node, N("Pass")])
    obj = Rec("component", attrs={"__module__": "usermod", "__annotations__": {"p0": "A"}})
    hinted = {nm: Rec("type of " + nm + " from get_type_hints") for nm, f in (("p0", f0), ("p1", f1)) if f != "unannotated"}
    if hints == "get_type_hints-leaves-p0-unresolved":
        hinted["p0"] = u.g(u.list, u.ref("A"))
    hinted_dict = dict(hinted)
    seen = {}

    def get_type_hints(c, a, k):
        c.event("get_type_hints", a[0], a[1] if len(a) > 1 else None)
        if hints == "get_type_hints-raises":
            raise PyRaise(ExcVal("NameError", ("name 'Undefined' is not defined",), origin="get_type_hints"))
        return hinted_dict

    def getsource(c, a, k):
        c.event("getsource", a[0])
        if source == "getsource-fails(OSError)":
            raise PyRaise(ExcVal("OSError", ("could not get source code",), origin="inspect.getsource"))
        return "<source>"

    def get_arg_type(c, a, k):
        node_, aliases = a
        seen["aliases"] = aliases
        seen.setdefault("alias_snapshots", []).append(dict(aliases))
        c.event("get_arg_type", node_)
        if node_.cls == "Constant":
            return node_.attrs["value"]  # a string constant evaluates to the string
        if node_.cls == "Name" and node_.attrs["id"] not in aliases:
            raise PyRaise(ExcVal("KeyError", (node_.attrs["id"],), origin="get_arg_type"))
        if node_.cls == "Name":
            return aliases[node_.attrs["id"]]
        return OPT_REF  # Optional['A']: the subscript of Optional with a string is a hint holding a forward reference

    def resolve_forward_refs(c, a, k):
        t, aliases = a[0], a[1]
        c.event("resolve_forward_refs", t)
        if isinstance(t, str) and t in aliases:
            return aliases[t]
        if t is OPT_REF:
            return OPT_RESOLVED if "A" in aliases else OPT_REF
        return t

    calls = dict(u.calls(), get_global_vars=lambda c, a, k: (c.event("get_global_vars", a[0], a[1]), G)[1], get_type_hints=get_type_hints, get_arg_type=get_arg_type, resolve_forward_refs=resolve_forward_refs,
                 iter=lambda c, a, k: a[0])
    calls["inspect.getsource"] = getsource
    calls["textwrap.dedent"] = lambda c, a, k: a[0]
    calls["ast.parse"] = lambda c, a, k: tree
    consts = dict(u.consts(), **AST_CONSTS, __builtins__=builtins)
    logger = Rec("logger")
    return Setup(env={"obj": obj, "logger": logger}, calls=calls, consts=consts, inline=INL_EVAL,
                 data=dict(u=u, kind=kind, hints=hints, f0=f0, f1=f1, source=source, G=G, G0=dict(G), builtins=builtins, B0=dict(builtins), want=want, hinted=hinted, hinted_dict=hinted_dict, obj=obj,
                           obj_attrs=dict(obj.attrs), seen=seen, shadow_g=shadow_g, nodes=nodes, tree_dump=dump(tree), logger=logger))


def gt_tag(d):
    return f"[{d['kind']}(p0: {d['f0']}, *, p1: {d['f1']});{d['hints']};source:{d['source']}]"


def gt_frame(ctx, d, tag):
    G, B = d["G"], d["builtins"]
    ctx.oblige("frame", "the-module-globals-and-the-builtins-are-not-modified(the lookup namespace is a copy);the-component-is-not-touched;the-parsed-tree-is-not-modified" + tag,
               set(G) == set(d["G0"]) and all(G[k] is v for k, v in d["G0"].items()) and set(B) == set(d["B0"]) and all(B[k] is v for k, v in d["B0"].items())
               and set(d["obj"].attrs) == set(d["obj_attrs"]) and all(d["obj"].attrs[k] is v for k, v in d["obj_attrs"].items()))
    gg = [e for e in ctx.events if e[0] == "get_global_vars"]
    gh = [e for e in ctx.events if e[0] == "get_type_hints"]
    ctx.oblige("post", "the-names-are-looked-up-in-the-namespace-of-the-component's-own-module(get_global_vars(obj)),which-is-what-get_type_hints-is-given" + tag,
               len(gg) == 1 and gg[0][1] is d["obj"] and len(gh) == 1 and gh[0][1] is d["obj"] and gh[0][2] is G)


def gt_expect(d):
    """name -> expected entry on the source path, by the statement: what the annotation denotes; 'exception' for one that cannot be evaluated; absent when unannotated."""
    exp = {}
    for nm in ("p0", "p1"):
        w = d["want"][nm]
        if w is None:
            continue
        if nm in d["hinted"] and d["hints"] == "get_type_hints-leaves-p0-unresolved" and nm == "p1":
            exp[nm] = d["hinted"][nm]  # resolved by get_type_hints: kept
        else:
            exp[nm] = w
    return exp


def gt_post(ctx, st, result):
    d = st.data
    tag = gt_tag(d)
    gt_frame(ctx, d, tag)
    src_events = [e for e in ctx.events if e[0] in ("getsource", "get_arg_type")]
    if d["hints"] == "get_type_hints-resolves-everything":
        ctx.oblige("post", "when-typing.get_type_hints-resolves-every-annotation-its-answer-is-the-result;the-source-is-not-needed" + tag,
                   isinstance(result, dict) and set(result) == set(d["hinted"]) and all(result[k] is v for k, v in d["hinted"].items()) and not src_events)
        return
    if d["source"] != "available":
        ctx.oblige("post", "without-usable-source-the-partial-answer-of-get_type_hints-is-returned-as-it-is(the unresolved annotation is left as it was)" + tag,
                   d["hints"] == "get_type_hints-leaves-p0-unresolved" and result is d["hinted_dict"] and set(result) == set(d["hinted"]) and all(result[k] is v for k, v in d["hinted"].items()))
        return
    exp = gt_expect(d)
    ok_shape = isinstance(result, dict)
    ctx.oblige("post", "the-result-names-exactly-the-annotated-parameters(positional-or-keyword and keyword-only / annotated fields)" + tag, ok_shape and set(result) == set(exp), note=f"got {sorted(result) if ok_shape else result!r}")
    if not ok_shape:
        return
    for nm, w in exp.items():
        form = d["f0"] if nm == "p0" else d["f1"]
        got = result.get(nm)
        if w == "exception":
            ctx.oblige("post", f"a-parameter-whose-annotation-cannot-be-evaluated-carries-the-exception(never a type);the-others-are-not-disturbed[{nm}: {form}]" + tag, isinstance(got, ExcVal))
        elif form == "'Optional[A]'(quoted expression)" and w is not d["hinted"].get(nm, object()):
            ctx.oblige("post", f"a-quoted-annotation-denotes-the-same-type-as-the-unquoted-one(\"Optional[A]\" is Optional[A])[{nm}: {form}]" + tag, got is w)
        else:
            ctx.oblige("post", f"the-parameter-gets-the-type-its-annotation-denotes-in-the-module-namespace,forward-references-resolved(a type get_type_hints resolved is kept)[{nm}: {form}]" + tag, got is w)
    snaps = d["seen"].get("alias_snapshots", [])
    if snaps:
        ctx.oblige("post", "annotations-are-evaluated-in{builtins overlaid by the module globals}:a-module-global-shadows-the-builtin-of-the-same-name,every-builtin-and-global-is-visible" + tag,
                   all(s.get("shadow") is d["shadow_g"] and s.get("int") is d["u"].int and s.get("A") is d["u"].A and set(s) == set(d["G0"]) | set(d["B0"]) for s in snaps))


def gt_raises(ctx, st, exc):
    d = st.data
    tag = gt_tag(d)
    gt_frame(ctx, d, tag)
    if d["hints"] == "get_type_hints-resolves-everything":
        ctx.oblige("raises", f"no-exception-when-get_type_hints-resolves-everything(got {exc.cls}@{exc.origin})" + tag, False)
        return
    if d["source"] != "available":
        ctx.oblige("raises", f"without-usable-source-the-caller-gets-an-exception-of-the-class-get_type_hints-raised(NameError),only-when-get_type_hints-failed(got {exc.cls}@{exc.origin})" + tag,
                   d["hints"] == "get_type_hints-raises" and exc.cls == "NameError")
        return
    exp = gt_expect(d)
    all_fail = all(w == "exception" for w in exp.values())
    ctx.oblige("raises", f"an-exception-escapes-only-when-no-annotated-parameter-could-be-evaluated(got {exc.cls}@{exc.origin})" + tag, all_fail)
    if all_fail:
        ctx.oblige("raises", "it-is-the-exception-get_type_hints-raised(the caller gets the documented NameError)" + tag, exc.cls == "NameError" and exc.origin == "get_type_hints" if d["hints"] == "get_type_hints-raises" else exc.origin == "get_arg_type")


# ============================================================================================================ get_arg_type
GA_FORMS = ["A", "Optional[A]", "Dict[str, A]", "Union[A]", "A | None"]
GA_BINDINGS = ["a-class", "a-tuple-valued-module-global(int, str)", "alias-is-an-exception", "not-bound", "a-stub-assignment(A = Union[int, str])"]


def show(v):
    """Canonical text of a (modelled) type: structural for parametrised hints, identity label for everything else."""
    if isinstance(v, Rec) and v.cls == "hint":
        return "hint(" + show(v.attrs["__origin__"]) + "; " + ", ".join(show(a) for a in v.attrs["__args__"]) + ")"
    if isinstance(v, Rec):
        return v.cls + "#" + str(v.attrs.get("__name__", ""))
    if isinstance(v, tuple):
        return "(" + ", ".join(show(x) for x in v) + ")"
    return repr(v)


def names_in(node, out=None):
    """The Name ids of an expression, first occurrence first (contract of NamesVisitor.find)."""
    out = [] if out is None else out
    if isinstance(node, Rec):
        if node.cls == "Name" and node.attrs["id"] not in out:
            out.append(node.attrs["id"])
        for k in sorted(node.attrs):
            if k != "ctx":
                names_in(node.attrs[k], out)
    elif isinstance(node, (list, tuple)):
        for x in node:
            names_in(x, out)
    return out


def py_eval(u, node, ns, origin="exec"):
    """What CPython's evaluation of the expression forms used here yields in namespace ns (trusted semantics of exec for Name / Constant / Subscript / Tuple / `|`)."""
    if node.cls == "Name":
        if node.attrs["id"] not in ns:
            raise PyRaise(ExcVal("NameError", (f"name '{node.attrs['id']}' is not defined",), origin=origin))
        return ns[node.attrs["id"]]
    if node.cls == "Constant":
        return u.NoneType if node.attrs["value"] is None else node.attrs["value"]
    if node.cls == "Tuple":
        return tuple(py_eval(u, e, ns, origin) for e in node.attrs["elts"])
    if node.cls == "Subscript":
        base, idx = py_eval(u, node.attrs["value"], ns, origin), py_eval(u, node.attrs["slice"], ns, origin)
        if not (isinstance(base, Rec) and "__getitem__" in base.methods):
            raise PyRaise(ExcVal("TypeError", ("not subscriptable",), origin=origin))
        return base.methods["__getitem__"](None, base, (idx,), {})
    if node.cls == "BinOp":
        return u.g(u.Union, py_eval(u, node.attrs["left"], ns, origin), py_eval(u, node.attrs["right"], ns, origin))
    raise PyRaise(ExcVal("SyntaxError", (node.cls,), origin=origin))


def py_exec(u, tree, ns):
    for st_ in tree.attrs["body"]:
        if st_.cls in ("Assign", "AnnAssign"):
            tgt = st_.attrs["targets"][0] if st_.cls == "Assign" else st_.attrs["target"]
            ns[tgt.attrs["id"]] = py_eval(u, st_.attrs["value"], ns)


def ga_setup(ctx):
    classes(ctx)
    u = U()
    caller = ["plain-namespace(get_types: name -> object)", "stub-resolver-pairs(name -> (source, value))"][ctx.choose(2, "caller")]
    pairs = caller.startswith("stub")
    form = GA_FORMS[ctx.choose(len(GA_FORMS), "annotation")]
    binding = GA_BINDINGS[ctx.choose(len(GA_BINDINGS), "binding-of-A")]
    if binding == "a-tuple-valued-module-global(int, str)" and (pairs or form != "Union[A]"):
        raise PathEnd()
    if binding in ("alias-is-an-exception", "a-stub-assignment(A = Union[int, str])") and not pairs:
        raise PathEnd()
    py = [(3, 9), (3, 12)][ctx.choose(2, "python-version")]
    OPT = Rec("typing Optional", attrs={"__name__": "Optional"})
    OPT.methods["__getitem__"] = lambda c, s_, a, k: u.g(u.Union, a[0], u.NoneType)
    node = {"A": lambda: name("A"), "Optional[A]": lambda: subscript(name("Optional"), name("A")), "Dict[str, A]": lambda: subscript(name("Dict"), N("Tuple", elts=[name("str"), name("A")], ctx=N("Load"))),
            "Union[A]": lambda: subscript(name("Union"), name("A")), "A | None": lambda: bitor(name("A"), const(None))}[form]()
    alias_exc = ExcVal("NotImplementedError", ("'A' from 'pkg' not in builtins, module or stub",), origin="stub-alias")
    stub_assign = N("Assign", targets=[N("Name", id="A", ctx=N("Store"))], value=subscript(name("Union"), N("Tuple", elts=[name("int"), name("str")], ctx=N("Load"))))
    values = {"Optional": OPT, "Dict": u.Dict, "Union": u.Union, "str": u.str, "int": u.int, "unused": Rec("class unused", attrs={"__name__": "unused"})}
    a_value = {"a-class": u.A, "a-tuple-valued-module-global(int, str)": (u.int, u.str), "alias-is-an-exception": alias_exc, "not-bound": None, "a-stub-assignment(A = Union[int, str])": stub_assign}[binding]
    if binding != "not-bound":
        values["A"] = a_value
    aliases = {k: (("src:" + k, v) if pairs else v) for k, v in values.items()}
    seen = {}

    def exec_model(c, a, k):
        tree, g, l = a
        seen["exec"] = (tree, g is l, dict(g))
        c.event("exec", tree)
        py_exec(u, tree, g)

    def backport(c, s_, a, k):
        c.event("backport", a[0], a[1])
        out = Rec("Module", attrs={"body": list(a[0].attrs["body"]), "backported": True})
        seen["backported"] = out
        return out

    type_alias = Rec("typing_extensions TypeAlias")
    calls = {"NamesVisitor().find": lambda c, a, k: names_in(a[0]), "compile": lambda c, a, k: a[0], "exec": exec_model, "str": lambda c, a, k: a[0].args[0] if isinstance(a[0], ExcVal) else str(a[0]),
             "BackportTypeHints": lambda c, a, k: Rec("BackportTypeHints", methods={"backport": backport}), "typing_extensions_import": lambda c, a, k: type_alias}
    calls["ast.parse"] = lambda c, a, k: N("Module", body=[N("Assign", targets=[N("Name", id="___arg_type___", ctx=N("Store"))], value=const(0))])
    calls["ast.fix_missing_locations"] = lambda c, a, k: a[0]
    consts = dict(AST_CONSTS, **{"sys.version_info": py})
    return Setup(env={"arg_ast": node, "aliases": aliases}, calls=calls, consts=consts,
                 data=dict(u=u, caller=caller, pairs=pairs, form=form, binding=binding, py=py, node=node, node_dump=dump(node), aliases=aliases, aliases0=dict(aliases), values=values, OPT=OPT, alias_exc=alias_exc, seen=seen,
                           stub_assign=stub_assign))


def ga_tag(d):
    return f"[{d['form']};A:{d['binding']};{d['caller']};py{d['py'][0]}.{d['py'][1]}]"


def ga_frame(ctx, d, tag):
    ctx.oblige("frame", "the-caller's-namespace-is-not-modified(no name added,removed,rebound);the-annotation-node-is-not-modified" + tag,
               set(d["aliases"]) == set(d["aliases0"]) and all(d["aliases"][k] is v for k, v in d["aliases0"].items()) and dump(d["node"]) == d["node_dump"])


def ga_expected(d):
    """The type the annotation denotes when every name stands for the object the caller's namespace binds it to."""
    u = d["u"]
    ns = {k: v for k, v in d["values"].items()}
    if d["binding"] == "a-stub-assignment(A = Union[int, str])":
        ns["A"] = u.g(u.Union, u.int, u.str)
    A = ns["A"]
    return {"A": lambda: A, "Optional[A]": lambda: u.g(u.Union, A, u.NoneType), "Dict[str, A]": lambda: u.g(u.Dict, u.str, A), "Union[A]": lambda: u.g(u.Union, *(A if isinstance(A, tuple) else (A,))),
            "A | None": lambda: u.g(u.Union, A, u.NoneType)}[d["form"]]()


def ga_post(ctx, st, result):
    d = st.data
    tag = ga_tag(d)
    ga_frame(ctx, d, tag)
    if d["binding"] in ("alias-is-an-exception", "not-bound"):
        ctx.oblige("post", "an-annotation-naming-something-the-namespace-cannot-supply-never-evaluates-to-a-type" + tag, False)
        return
    want = ga_expected(d)
    ctx.oblige("post", "the-result-is-what-the-annotation-denotes-with-every-name-bound-to-the-object-the-caller's-namespace-binds-it-to(for (source, value) pairs: the value)" + tag,
               show(result) == show(want), note=f"want {show(want)} got {show(result)}")
    ex = d["seen"].get("exec")
    bp = [e for e in ctx.events if e[0] == "backport"]
    if d["py"] < (3, 10):
        ctx.oblige("post", "on-Python<3.10-the-tree-that-runs-is-the-back-ported-one(`X | Y`, list[...] are not evaluable there),back-ported-once-with-the-namespace-it-runs-in" + tag,
                   ex is not None and len(bp) == 1 and ex[0] is d["seen"].get("backported") and ex[1])
    else:
        ctx.oblige("post", "on-Python>=3.10-the-annotation-is-evaluated-as-written(no back-port)" + tag, ex is not None and not bp and ex[1])


def ga_raises(ctx, st, exc):
    d = st.data
    tag = ga_tag(d)
    ga_frame(ctx, d, tag)
    if d["binding"] == "not-bound":
        ctx.oblige("raises", f"a-name-the-namespace-does-not-bind:the-caller-gets-KeyError-naming-it(got {exc.cls}@{exc.origin})" + tag, exc.cls == "KeyError" and exc.args == ("A",))
    elif d["binding"] == "alias-is-an-exception":
        ctx.oblige("raises", f"a-name-whose-alias-is-an-exception-stays-unbound:NameError,caused-by-that-exception(got {exc.cls}@{exc.origin})" + tag, exc.cls == "NameError" and exc.cause is d["alias_exc"])
    else:
        ctx.oblige("raises", f"an-annotation-whose-names-are-all-bound-evaluates-without-exception(got {exc.cls}@{exc.origin})" + tag, False)


# ============================================================================================================ resolve_forward_refs
RF_HINTS = ["class int", "'A'(alias)", "'Zed'(no alias)", "List[int]", "Optional[int]", "Dict[str, List[Optional[int]]]", "bare type", "Tuple[int, ...]", "empty"]


def rf_setup(ctx):
    classes(ctx)
    u = U()
    form = RF_HINTS[ctx.choose(len(RF_HINTS), "arg_type")]
    py = [(3, 9), (3, 12)][ctx.choose(2, "python-version")]
    h = {"'A'(alias)": lambda: "A", "'Zed'(no alias)": lambda: "Zed", "Tuple[int, ...]": lambda: u.g(u.tuple, u.int, Rec("Ellipsis"))}.get(form, lambda: hint_form(u, form))()
    aliases = {"A": u.A, "int": u.int}
    logger = [None, Rec("logger")][ctx.choose(2, "logger")]
    return Setup(env={"arg_type": h, "aliases": aliases, "logger": logger}, calls=u.calls(), consts=dict(u.consts(), **{"sys.version_info": py}), inline={"has_subtypes": MOD + "has_subtypes"},
                 data=dict(u=u, form=form, h=h, aliases=aliases, aliases0=dict(aliases), py=py))


def rf_post(ctx, st, result):
    d = st.data
    tag = f"[{d['form']};py{d['py'][0]}.{d['py'][1]}]"
    if d["form"] == "'A'(alias)":
        ctx.oblige("post", "a-string-that-names-an-alias-is-that-alias(a forward reference resolves to the class the module defines)" + tag, result is d["u"].A)
    else:
        ctx.oblige("post", "a-hint-without-forward-references(at any depth)-and-a-string-that-names-nothing-are-returned-as-the-very-same-object(left as it was,nothing rebuilt)" + tag,
                   result is d["h"] and not d["u"].made)
    ctx.oblige("frame", "the-aliases-are-not-modified" + tag, set(d["aliases"]) == set(d["aliases0"]) and all(d["aliases"][k] is v for k, v in d["aliases0"].items()))


def rfl_setup(ctx):
    """The arm `if forward_arg in aliases:` of the nested function: variables as the statements before it leave them."""
    classes(ctx)
    u = U()
    dotted = ["A", "mod.A", "mod.A.B"][ctx.choose(3, "forward-reference")]
    head, _, rest = dotted.partition(".")
    mod = Rec("module mod")
    aliases = {"A": u.A, "mod": mod, "B": u.B}
    chain = []

    def getattr_recursive(c, a, k):
        chain.append((a[0], a[1]))
        return Rec("attribute chain result")

    arg = u.ref(dotted)
    return Setup(env={"forward_arg": head, "forward_args": [rest] if rest else [], "aliases": aliases, "arg": arg}, calls={"getattr_recursive": getattr_recursive},
                 data=dict(u=u, dotted=dotted, head=head, rest=rest, aliases=aliases, chain=chain, mod=mod, aliases0=dict(aliases)))


def rfl_post(ctx, st, result):
    d = st.data
    got = st.data["env"].lookup("arg")
    if not d["rest"]:
        ctx.oblige("post", f"a-forward-reference-'A'-is-the-object-the-namespace-binds-to-A[{d['dotted']}]", got is d["u"].A and not d["chain"])
    else:
        ctx.oblige("post", f"a-dotted-forward-reference-'mod.A.B'-is-the-attribute-chain-A.B-below-the-object-bound-to-mod[{d['dotted']}]",
                   len(d["chain"]) == 1 and d["chain"][0][0] is d["mod"] and d["chain"][0][1] == d["rest"] and isinstance(got, Rec) and got.cls == "attribute chain result")
    ctx.oblige("frame", f"the-aliases-are-not-modified[{d['dotted']}]", set(d["aliases"]) == set(d["aliases0"]) and all(d["aliases"][k] is v for k, v in d["aliases0"].items()))


RB_ORIGINS = ["list", "List", "tuple", "Tuple", "set", "Set", "dict", "Dict", "type", "Type", "Union"]
RB_KIND = {"list": "sequence", "List": "sequence", "tuple": "tuple", "Tuple": "tuple", "set": "set", "Set": "set", "dict": "mapping", "Dict": "mapping", "type": "type", "Type": "type", "Union": "union"}


def rb_setup(ctx):
    """The arm `if subtypes != list(typehint.__args__):` - the hint is rebuilt from the resolved arguments."""
    classes(ctx)
    u = U()
    oname = RB_ORIGINS[ctx.choose(len(RB_ORIGINS), "origin")]
    py = [(3, 9), (3, 12)][ctx.choose(2, "python-version")]
    o = getattr(u, oname)
    two = oname in ("dict", "Dict", "Union", "tuple", "Tuple")
    old_args = (u.str, u.ref("A")) if two else (u.ref("A"),)
    subtypes = [u.str, u.A] if two else [u.A]
    h = u.g(o, *old_args)
    return Setup(env={"typehint": h, "subtypes": subtypes}, calls=u.calls(), consts=dict(u.consts(), **{"sys.version_info": py}),
                 data=dict(u=u, oname=oname, o=o, py=py, h=h, old_args=old_args, subtypes=list(subtypes)))


def rb_post(ctx, st, result):
    d = st.data
    u = d["u"]
    tag = f"[{d['oname']}[...];py{d['py'][0]}.{d['py'][1]}]"
    new = st.data["env"].lookup("typehint")
    ok = isinstance(new, Rec) and new.attrs.get("made") is True and len(u.made) == 1
    ctx.oblige("post", "the-hint-is-rebuilt-once,by-subscripting,with-exactly-the-resolved-arguments-in-order" + tag, ok and tuple(new.attrs["__args__"]) == tuple(d["subtypes"]))
    if not ok:
        return
    o2 = new.attrs["__origin__"]
    name2 = [n for n in RB_ORIGINS if getattr(u, n) is o2]
    ctx.oblige("post", "the-rebuilt-hint-is-the-same-kind-of-container(a list stays a list,a set a set,a mapping a mapping...):resolving-a-forward-reference-never-changes-the-declared-type" + tag,
               len(name2) == 1 and RB_KIND[name2[0]] == RB_KIND[d["oname"]], note=f"rebuilt with {name2}")
    if d["py"] >= (3, 10):
        ctx.oblige("post", "on-Python>=3.10-the-origin-itself-is-subscripted" + tag, o2 is d["o"])
    ctx.oblige("frame", "the-original-hint-object-is-not-modified" + tag, d["h"].attrs["__args__"] == d["old_args"] and d["h"].attrs["__origin__"] is d["o"])


# ============================================================================================================ get_global_vars
def ggv_setup(ctx):
    classes(ctx)
    src_kind = ["module-not-in-sys.modules", "getsource-fails(OSError)", "source-without-TYPE_CHECKING", "source-mentions-TYPE_CHECKING"][ctx.choose(4, "source")]
    G = {"A": Rec("class A"), "Optional": Rec("typing Optional")}
    module = Rec("module usermod", attrs={"__dict__": G})
    obj = Rec("component", attrs={"__module__": "usermod"})
    logger = [None, Rec("logger")][ctx.choose(2, "logger")]
    source = z3.String("module_source")
    if src_kind == "source-without-TYPE_CHECKING":
        ctx.assume(z3.Not(z3.Contains(source, z3.StringVal("TYPE_CHECKING"))))
    if src_kind == "source-mentions-TYPE_CHECKING":
        ctx.assume(z3.Contains(source, z3.StringVal("TYPE_CHECKING")))
    DEC = Rec("class decimal.Decimal")
    ua = {}

    def update_aliases(c, a, k):
        c.event("update_aliases", a[0], a[1], a[2], a[3] if len(a) > 3 else k.get("logger"))
        ua["dict"] = a[2]
        outcome = c.choose(2, "update_aliases-raises")
        if outcome == 1:
            raise PyRaise(ExcVal("SyntaxError", ("invalid syntax",), origin="update_aliases"))
        a[2]["Decimal"] = DEC  # contract of update_aliases: the names bound under TYPE_CHECKING are added to the dict it is given
        ua["added"] = True

    def getsource(c, a, k):
        c.event("getsource", a[0])
        if src_kind == "getsource-fails(OSError)":
            raise PyRaise(ExcVal("OSError", ("source code not available",), origin="inspect.getsource"))
        return source

    calls = {"import_module": lambda c, a, k: (c.event("import_module", a[0]), module)[1], "TypeCheckingVisitor().update_aliases": update_aliases}
    calls["inspect.getsource"] = getsource
    sys_modules = {} if src_kind == "module-not-in-sys.modules" else {"usermod": module}
    return Setup(env={"obj": obj, "logger": logger}, calls=calls, consts={"sys.modules": sys_modules},
                 data=dict(src_kind=src_kind, G=G, G0=dict(G), module=module, obj=obj, logger=logger, DEC=DEC, ua=ua, source=source), watch={"module_source": source})


def ggv_post(ctx, st, result):
    d = st.data
    tag = f"[{d['src_kind']};logger:{'yes' if d['logger'] is not None else 'None'}]"
    G0 = d["G0"]
    ok = isinstance(result, dict)
    ctx.oblige("post", "the-result-binds-every-global-of-the-component's-module-to-the-module's-object" + tag, ok and all(k in result and result[k] is v for k, v in G0.items()))
    if not ok:
        return
    ups = [e for e in ctx.events if e[0] == "update_aliases"]
    if d["src_kind"] == "source-mentions-TYPE_CHECKING":
        ctx.oblige("post", "when-the-module-source-mentions-TYPE_CHECKING-its-guarded-imports-are-evaluated-once,for-this-module's-source-and-name,into-the-namespace-that-is-returned" + tag,
                   len(ups) == 1 and ups[0][1] is d["source"] and ups[0][2] == "usermod" and ups[0][3] is result and ups[0][4] is d["logger"])
        if d["ua"].get("added"):
            ctx.oblige("post", "a-name-imported-only-under-TYPE_CHECKING-resolves-to-the-imported-object" + tag, result.get("Decimal") is d["DEC"] and set(result) == set(G0) | {"Decimal"})
        else:
            ctx.oblige("post", "a-failing-TYPE_CHECKING-block-leaves-the-module's-own-globals-as-the-answer" + tag, set(result) >= set(G0))
    else:
        ctx.oblige("post", "without-source,or-without-a-mention-of-TYPE_CHECKING,the-result-is-exactly-the-module's-globals(nothing is parsed or executed)" + tag, not ups and set(result) == set(G0))
    ctx.oblige("frame", "the-module's-own-namespace-is-not-modified:no-name-appears-in-the-user's-module" + tag, set(d["G"]) == set(G0) and all(d["G"][k] is v for k, v in G0.items()))


def ggv_raises(ctx, st, exc):
    ctx.oblige("raises", f"no-failure-of-the-source-lookup-or-of-the-TYPE_CHECKING-evaluation-escapes(got {exc.cls}@{exc.origin})[{st.data['src_kind']}]", False)


# ============================================================================================================ TypeCheckingVisitor
def ast_ctor(cls):
    return lambda c, a, k: N(cls, **k)


TC_CALLS = {"ast.dump": lambda c, a, k: dump(a[0]), "ast.Attribute": ast_ctor("Attribute"), "ast.Name": ast_ctor("Name"), "ast.Load": ast_ctor("Load")}
TC_ATTR = lambda base: dump(N("Attribute", value=name(base), attr="TYPE_CHECKING", ctx=N("Load")))  # noqa: E731
TC_NAME = lambda nm: dump(name(nm))  # noqa: E731
IMPORTS = {"import typing": [("typing", None)], "import typing as t": [("typing", "t")], "import os": [("os", None)], "import os, typing as t": [("os", None), ("typing", "t")], "import typing.re": [("typing.re", None)],
           "import typing as t, os as typing": [("typing", "t"), ("os", "typing")]}


def vimp_setup(ctx):
    classes(ctx)
    stmt = list(IMPORTS)[ctx.choose(len(IMPORTS), "statement")]
    node = N("Import", names=[N("alias", name=n, asname=a) for n, a in IMPORTS[stmt]])
    earlier = "Name(earlier entry)"
    names = [earlier]
    self = Rec("TypeCheckingVisitor", attrs={"type_checking_names": names})
    return Setup(env={"self": self, "node": node}, calls=TC_CALLS, consts=AST_CONSTS, data=dict(stmt=stmt, names=names, earlier=earlier, node=node, node_dump=dump(node)))


def vimp_post(ctx, st, result):
    d = st.data
    want = {"import typing": [TC_ATTR("typing")], "import typing as t": [TC_ATTR("t")], "import os, typing as t": [TC_ATTR("t")], "import typing as t, os as typing": [TC_ATTR("t")]}.get(d["stmt"], [])
    ctx.oblige("post", f"`import typing [as t]`-makes-exactly-`t.TYPE_CHECKING`(the name the module binds)-a-guard;any-other-import-makes-none;earlier-guards-are-kept[{d['stmt']}]",
               d["names"] == [d["earlier"]] + want, note=f"got {d['names']}")
    ctx.oblige("frame", f"the-statement-is-not-modified[{d['stmt']}]", dump(d["node"]) == d["node_dump"])


FROMS = {"from typing import TYPE_CHECKING": ("typing", [("TYPE_CHECKING", None)]), "from typing import TYPE_CHECKING as TC": ("typing", [("TYPE_CHECKING", "TC")]),
         "from typing import Optional, TYPE_CHECKING": ("typing", [("Optional", None), ("TYPE_CHECKING", None)]), "from typing import Optional": ("typing", [("Optional", None)]),
         "from other import TYPE_CHECKING": ("other", [("TYPE_CHECKING", None)]), "from . import TYPE_CHECKING": (None, [("TYPE_CHECKING", None)]), "from typing import Optional as TYPE_CHECKING": ("typing", [("Optional", "TYPE_CHECKING")])}


def vfrom_setup(ctx):
    classes(ctx)
    stmt = list(FROMS)[ctx.choose(len(FROMS), "statement")]
    module, als = FROMS[stmt]
    node = N("ImportFrom", module=module, names=[N("alias", name=n, asname=a) for n, a in als], level=0)
    earlier = "Name(earlier entry)"
    names = [earlier]
    self = Rec("TypeCheckingVisitor", attrs={"type_checking_names": names})
    return Setup(env={"self": self, "node": node}, calls=TC_CALLS, consts=AST_CONSTS, data=dict(stmt=stmt, names=names, earlier=earlier, node=node, node_dump=dump(node)))


def vfrom_post(ctx, st, result):
    d = st.data
    want = {"from typing import TYPE_CHECKING": [TC_NAME("TYPE_CHECKING")], "from typing import TYPE_CHECKING as TC": [TC_NAME("TC")], "from typing import Optional, TYPE_CHECKING": [TC_NAME("TYPE_CHECKING")]}.get(d["stmt"], [])
    ctx.oblige("post", f"`from typing import TYPE_CHECKING [as TC]`-makes-exactly-the-bound-name-a-guard;another-module,another-name-make-none;earlier-guards-are-kept[{d['stmt']}]",
               d["names"] == [d["earlier"]] + want, note=f"got {d['names']}")
    ctx.oblige("frame", f"the-statement-is-not-modified[{d['stmt']}]", dump(d["node"]) == d["node_dump"])


IF_TESTS = ["TYPE_CHECKING(guard)", "t.TYPE_CHECKING(guard)", "OTHER_FLAG", "os.TYPE_CHECKING", "not TYPE_CHECKING", "TYPE_CHECKING == True", "TYPE_CHECKING(no guard registered)"]


def vif_setup(ctx):
    classes(ctx)
    tk = IF_TESTS[ctx.choose(len(IF_TESTS), "test")]
    has_else = ctx.choose(2, "has-else") == 1
    logger = [None, Rec("logger")][ctx.choose(2, "logger")]
    tc = lambda: name("TYPE_CHECKING")  # noqa: E731
    test = {"TYPE_CHECKING(guard)": tc, "t.TYPE_CHECKING(guard)": lambda: N("Attribute", value=name("t"), attr="TYPE_CHECKING", ctx=N("Load")), "OTHER_FLAG": lambda: name("OTHER_FLAG"),
            "os.TYPE_CHECKING": lambda: N("Attribute", value=name("os"), attr="TYPE_CHECKING", ctx=N("Load")), "not TYPE_CHECKING": lambda: N("UnaryOp", op=N("Not"), operand=tc()),
            "TYPE_CHECKING == True": lambda: N("Compare", left=tc(), ops=[N("Eq")], comparators=[const(True)]), "TYPE_CHECKING(no guard registered)": tc}[tk]()
    body = [N("ImportFrom", module="decimal", names=[N("alias", name="Decimal", asname=None)], level=0)]
    orelse = [N("Assign", targets=[N("Name", id="Decimal", ctx=N("Store"))], value=name("float"))] if has_else else []
    node = N("If", test=test, body=body, orelse=orelse)
    guards = [] if tk == "TYPE_CHECKING(no guard registered)" else [TC_NAME("TYPE_CHECKING"), TC_ATTR("t")]
    aliases = {"A": Rec("class A")}
    self = Rec("TypeCheckingVisitor", attrs={"type_checking_names": guards, "aliases": aliases, "logger": logger, "module": "usermod"})
    self.methods["generic_visit"] = lambda c, s_, a, k: c.event("generic_visit", a[0])
    runs = []

    def exec_model(c, a, k):
        runs.append((a[0], a[1], a[2], list(a[0].attrs["body"]) if isinstance(a[0], Rec) else None))
        if c.choose(2, "the-block-fails") == 1:
            raise PyRaise(ExcVal("ModuleNotFoundError", ("No module named 'decimal'",), origin="exec"))

    calls = dict(TC_CALLS, exec=exec_model, compile=lambda c, a, k: a[0])
    calls["ast.parse"] = lambda c, a, k: N("Module", body=[], type_ignores=[])
    return Setup(env={"self": self, "node": node}, calls=calls, consts=AST_CONSTS,
                 data=dict(tk=tk, has_else=has_else, node=node, body=body, orelse=orelse, aliases=aliases, self_=self, runs=runs, node_dump=dump(node), guards=guards, guards0=list(guards), logger=logger))


def vif_post(ctx, st, result):
    d = st.data
    tag = f"[if {d['tk']};{'else' if d['has_else'] else 'no else'};logger:{'yes' if d['logger'] is not None else 'None'}]"
    runs = d["runs"]
    if d["tk"] in ("TYPE_CHECKING(guard)", "t.TYPE_CHECKING(guard)"):
        ok = len(runs) == 1
        ctx.oblige("post", "the-body-of-an-`if <guard>:`-is-executed-exactly-once" + tag, ok)
        if ok:
            tree, g, l, stmts = runs[0]
            ctx.oblige("post", "what-runs-is-exactly-the-guarded-body(never the else arm),as-a-module,with-the-aliases-as-globals-and-locals(the imported names land there)" + tag,
                       isinstance(tree, Rec) and tree.cls == "Module" and stmts is not None and len(stmts) == len(d["body"]) and all(x is y for x, y in zip(stmts, d["body"])) and g is d["aliases"] and l is d["aliases"])
    else:
        ctx.oblige("post", "a-test-that-is-not-a-guard-of-this-module(another name,`not TYPE_CHECKING`,a comparison,no guard imported)-executes-nothing" + tag, not runs)
    ctx.oblige("frame", "the-if-statement,the-guards-and-the-visitor's-aliases-object-are-not-modified" + tag,
               dump(d["node"]) == d["node_dump"] and d["node"].attrs["body"] is d["body"] and d["guards"] == d["guards0"] and d["self_"].attrs["aliases"] is d["aliases"])


def vif_raises(ctx, st, exc):
    ctx.oblige("raises", f"a-failing-TYPE_CHECKING-block(optional dependency missing)-is-swallowed(got {exc.cls}@{exc.origin})[if {st.data['tk']}]", False)


GV_NODES = ["Module", "If", "FunctionDef", "ClassDef", "Expr"]


def gv_setup(ctx):
    classes(ctx)
    nk = GV_NODES[ctx.choose(len(GV_NODES), "node")]
    node = N(nk, body=[])
    sup = Rec("super()", methods={"generic_visit": lambda c, s_, a, k: c.event("descend", a[0])})
    self = Rec("TypeCheckingVisitor")
    return Setup(env={"self": self, "node": node}, calls={"super": lambda c, a, k: sup}, consts=AST_CONSTS, data=dict(nk=nk, node=node))


def gv_post(ctx, st, result):
    d = st.data
    ev = [e for e in ctx.events if e[0] == "descend"]
    if d["nk"] in ("Module", "If"):
        ctx.oblige("post", f"the-search-descends-through-the-module-and-through-if-statements(module-level code)[{d['nk']}]", len(ev) == 1 and ev[0][1] is d["node"])
    else:
        ctx.oblige("post", f"function-and-class-bodies-are-not-searched(an import there binds no module-level name)[{d['nk']}]", not ev)


def ua_setup(ctx):
    classes(ctx)
    bad = ctx.choose(2, "source-does-not-parse") == 1
    leftover = ctx.choose(2, "a-guard-was-registered-while-another-module-was-searched") == 1
    tree = N("Module", body=[])
    src, modname = z3.String("module_source"), z3.String("module")
    aliases, logger = {"A": Rec("class A")}, Rec("logger")
    # type_checking_names is a class attribute: every visitor reads and appends to the one list (the record's attribute stands for it)
    guards = [dump(name("FLAG"))] if leftover else []
    self = Rec("TypeCheckingVisitor", attrs={"type_checking_names": guards},
               methods={"visit": lambda c, s_, a, k: c.event("visit", a[0], s_.attrs.get("aliases"), s_.attrs.get("module"), s_.attrs.get("logger"), list(s_.attrs.get("type_checking_names"))),
                        "generic_visit": lambda c, s_, a, k: c.event("generic_visit", a[0])})

    def parse(c, a, k):
        c.event("parse", a[0])
        if bad:
            raise PyRaise(ExcVal("SyntaxError", ("invalid syntax",), origin="ast.parse"))
        return tree

    return Setup(env={"self": self, "module_source": src, "module": modname, "aliases": aliases, "logger": logger}, calls={"ast.parse": parse}, consts=AST_CONSTS,
                 data=dict(bad=bad, leftover=leftover, tree=tree, src=src, modname=modname, aliases=aliases, logger=logger, self_=self))


def ua_post(ctx, st, result):
    d = st.data
    ev = list(ctx.events)
    ctx.oblige("post", "the-source-given-is-parsed-and-its-tree-visited-once,with-the-caller's-dict-itself-as-the-aliases(the names land in it),the-module-name-and-the-logger-in-place",
               not d["bad"] and len(ev) == 2 and ev[0] == ("parse", d["src"]) and ev[1][0] == "visit" and ev[1][1] is d["tree"] and ev[1][2] is d["aliases"] and ev[1][3] is d["modname"] and ev[1][4] is d["logger"])
    if len(ev) == 2 and ev[1][0] == "visit":
        ctx.oblige("post", f"the-search-of-a-module-starts-without-guards:only-what-this-module's-own-imports-make-a-guard-counts(a TYPE_CHECKING alias of another module is not carried over)[{'guard left from another module' if d['leftover'] else 'first search'}]",
                   ev[1][5] == [])


def ua_raises(ctx, st, exc):
    ctx.oblige("raises", f"only-a-source-that-does-not-parse-is-refused,with-SyntaxError(got {exc.cls}@{exc.origin})", st.data["bad"] and exc.cls == "SyntaxError" and not [e for e in ctx.events if e[0] == "visit"])


# ============================================================================================================ get_return_type
RT_FORMS = ["class int(evaluated)", "empty", "'A'(postponed)", "Optional['A'](postponed inside)"]


def rt_setup(ctx):
    classes(ctx)
    u = U()
    form = RT_FORMS[ctx.choose(len(RT_FORMS), "return-annotation")]
    ann = {"class int(evaluated)": lambda: u.int, "empty": lambda: u.Empty, "'A'(postponed)": lambda: "A", "Optional['A'](postponed inside)": lambda: u.g(u.Union, u.ref("A"), u.NoneType)}[form]()
    postponed = u.unresolved(ann)
    outcome = ["resolved", "raises", "no-return-entry", "a-bare-ForwardRef"][ctx.choose(4, "get_type_hints")] if postponed else "not-consulted"
    G = {"A": u.A}
    module = Rec("module usermod", attrs={"__dict__": G})
    component = Rec("component", attrs={"__module__": "usermod"})
    logger = [None, Rec("logger")][ctx.choose(2, "logger")]
    hinted, fref, resolved = Rec("return type from get_type_hints"), u.ref("A"), Rec("forward reference resolved")

    def get_type_hints(c, a, k):
        c.event("get_type_hints", a[0], a[1] if len(a) > 1 else None)
        if outcome == "raises":
            raise PyRaise(ExcVal("NameError", ("name 'A' is not defined",), origin="get_type_hints"))
        if outcome == "no-return-entry":
            return {"x": u.int}
        return {"x": u.int, "return": fref if outcome == "a-bare-ForwardRef" else hinted}

    calls = dict(u.calls(), get_type_hints=get_type_hints, import_module=lambda c, a, k: (c.event("import_module", a[0]), module)[1],
                 resolve_forward_refs=lambda c, a, k: (c.event("resolve_forward_refs", a[0], a[1]), resolved)[1])
    calls["inspect.signature"] = lambda c, a, k: (c.event("signature", a[0]), Rec("Signature", attrs={"return_annotation": ann}))[1]
    env = {"component": component}
    if logger is not None:
        env["logger"] = logger
    return Setup(env=env, calls=calls, consts=u.consts(), inline=INL_EVAL,
                 data=dict(u=u, form=form, ann=ann, postponed=postponed, outcome=outcome, G=G, G0=dict(G), component=component, hinted=hinted, resolved=resolved))


def rt_post(ctx, st, result):
    d = st.data
    tag = f"[{d['form']};get_type_hints:{d['outcome']}]"
    gh = [e for e in ctx.events if e[0] == "get_type_hints"]
    if not d["postponed"]:
        ctx.oblige("post", "an-already-evaluated-return-annotation(or none)-is-returned-as-the-object-it-is;nothing-is-looked-up" + tag, result is d["ann"] and not gh)
    else:
        ctx.oblige("post", "a-postponed-return-annotation-is-looked-up-once,of-the-component,in-its-own-module's-namespace" + tag, len(gh) == 1 and gh[0][1] is d["component"] and gh[0][2] is d["G"])
        if d["outcome"] == "resolved":
            ctx.oblige("post", "the-return-type-is-what-the-annotation-denotes-there" + tag, result is d["hinted"])
        elif d["outcome"] == "a-bare-ForwardRef":
            rs = [e for e in ctx.events if e[0] == "resolve_forward_refs"]
            ctx.oblige("post", "a-bare-forward-reference-is-resolved-by-its-name-in-the-module-namespace" + tag, result is d["resolved"] and len(rs) == 1 and rs[0][1] == "A" and rs[0][2] is d["G"])
        else:
            ctx.oblige("post", "a-return-annotation-that-cannot-be-evaluated-gives-None(no type),never-the-unevaluated-string" + tag, result is None)
    ctx.oblige("frame", "the-module-namespace-is-not-modified" + tag, set(d["G"]) == set(d["G0"]) and all(d["G"][k] is v for k, v in d["G0"].items()))


def rt_raises(ctx, st, exc):
    ctx.oblige("raises", f"never-raises-for-a-component-with-a-signature(got {exc.cls}@{exc.origin})[{st.data['form']};{st.data['outcome']}]", False)


# ============================================================================================================ BackportTypeHints / NamesVisitor
BP_CALLS = {"ast.Name": ast_ctor("Name"), "ast.Load": ast_ctor("Load"), "ast.Subscript": ast_ctor("Subscript"), "ast.Tuple": ast_ctor("Tuple"), "ast.Index": ast_ctor("Index"), "ast.Store": ast_ctor("Store")}
BP_CLASS = Rec("class BackportTypeHints", attrs={"__name__": "BackportTypeHints"})


def var_map(nm, value):
    return Rec("var_map", attrs={"name": nm, "value": value})


def bp_self(exec_vars):
    return Rec("BackportTypeHints", attrs={"__class__": BP_CLASS, "exec_vars": exec_vars})


def slice_value(sl):
    """The subscript's index expression: ast.Index(value) on Python 3.8, the expression itself from 3.9 on."""
    return sl.attrs["value"] if isinstance(sl, Rec) and sl.cls == "Index" else sl


def nnl_setup(ctx):
    classes(ctx)
    vname = z3.String("var.name")
    value, user = Rec("typing object"), Rec("user object")
    exec_vars = {"List": user}
    return Setup(env={"self": bp_self(exec_vars), "var": var_map(vname, value)}, calls=BP_CALLS, data=dict(vname=vname, value=value, user=user, exec_vars=exec_vars), watch={"var.name": vname})


def nnl_post(ctx, st, result):
    d = st.data
    ok = isinstance(result, Rec) and result.cls == "Name" and isinstance(result.attrs.get("ctx"), Rec) and result.attrs["ctx"].cls == "Load"
    ctx.oblige("post", "returns-a-Name-in-Load-context", ok)
    if not ok:
        return
    ident = result.attrs["id"]
    new_keys = [k for k in d["exec_vars"] if k != "List"]
    ctx.oblige("post", "the-name-is-bound-to-the-typing-object-in-the-namespace-the-tree-will-run-in;nothing-the-user-bound-is-touched",
               len(new_keys) == 1 and d["exec_vars"][new_keys[0]] is d["value"] and d["exec_vars"]["List"] is d["user"] and getattr(new_keys[0], "term", None) is not None and new_keys[0].term.eq(ident) if z3.is_expr(ident) else False)
    if z3.is_expr(ident):
        ctx.oblige("post", "the-name-cannot-collide-with-a-name-of-the-annotation(reserved prefix _BackportTypeHints_)-and-is-determined-by-the-typing-object's-name",
                   ident == z3.Concat(z3.StringVal("_BackportTypeHints_"), d["vname"]))


def vconst_setup(ctx):
    classes(ctx)
    vk = ["None", "'A'(string)", "3", "Ellipsis"][ctx.choose(4, "constant")]
    node = const({"None": None, "'A'(string)": "A", "3": 3, "Ellipsis": Rec("Ellipsis")}[vk])
    none_map = var_map("NoneType", Rec("class NoneType"))
    made = Rec("Name made by new_name_load")
    self = bp_self({})
    self.methods["new_name_load"] = lambda c, s_, a, k: (c.event("new_name_load", a[0]), made)[1]
    return Setup(env={"self": self, "node": node}, consts={"none_map": none_map, "union_map": var_map("Union", Rec("typing Union"))}, data=dict(vk=vk, node=node, none_map=none_map, made=made, node_dump=dump(node)))


def vconst_post(ctx, st, result):
    d = st.data
    ev = [e for e in ctx.events if e[0] == "new_name_load"]
    if d["vk"] == "None":
        ctx.oblige("post", "None-in-an-annotation-becomes-the-name-of-NoneType(`int | None` -> Union[int, NoneType])[None]", result is d["made"] and len(ev) == 1 and ev[0][1] is d["none_map"])
    else:
        ctx.oblige("post", f"any-other-constant(a quoted name,a number,...)-stays-the-node-it-is[{d['vk']}]", result is d["node"] and not ev and dump(d["node"]) == d["node_dump"])


def flatten_model(ctx, node, elts):
    """Contract of append_union_elts (its own unit): the operands of a chain of `|`, left to right, each back-ported."""
    if isinstance(node, Rec) and node.cls == "BinOp" and node.attrs["op"].cls == "BitOr":
        flatten_model(ctx, node.attrs["left"], elts)
        flatten_model(ctx, node.attrs["right"], elts)
    else:
        elts.append(("back-ported", node))


BINOPS = ["A | B", "A | B | None", "A | (B | C)", "A + B"]


def vbin_setup(ctx):
    classes(ctx)
    bk = BINOPS[ctx.choose(len(BINOPS), "expression")]
    A, B, C, NONE = name("A"), name("B"), name("C"), const(None)
    node = {"A | B": lambda: bitor(A, B), "A | B | None": lambda: bitor(bitor(A, B), NONE), "A | (B | C)": lambda: bitor(A, bitor(B, C)), "A + B": lambda: N("BinOp", left=A, op=N("Add"), right=B)}[bk]()
    leaves = {"A | B": [A, B], "A | B | None": [A, B, NONE], "A | (B | C)": [A, B, C], "A + B": []}[bk]
    union_map = var_map("Union", Rec("typing Union"))
    made = Rec("Name made by new_name_load")
    self = bp_self({})
    self.methods["new_name_load"] = lambda c, s_, a, k: (c.event("new_name_load", a[0]), made)[1]
    self.methods["append_union_elts"] = lambda c, s_, a, k: flatten_model(c, a[0], a[1])
    return Setup(env={"self": self, "node": node}, calls=BP_CALLS, consts=dict(AST_CONSTS, union_map=union_map, none_map=var_map("NoneType", Rec("class NoneType"))), data=dict(bk=bk, node=node, leaves=leaves, union_map=union_map, made=made, node_dump=dump(node)))


def vbin_post(ctx, st, result):
    d = st.data
    tag = f"[{d['bk']}]"
    if d["bk"] == "A + B":
        ctx.oblige("post", "an-operator-other-than-`|`-is-left-as-it-is" + tag, result is d["node"])
    else:
        ok = isinstance(result, Rec) and result.cls == "Subscript" and result.attrs.get("value") is d["made"] and isinstance(slice_value(result.attrs.get("slice")), Rec) and slice_value(result.attrs["slice"]).cls == "Tuple"
        ctx.oblige("post", "`X | Y | ...`-becomes-a-subscript-of-the-name-bound-to-typing.Union-with-a-tuple-of-members" + tag, ok and [e[1] for e in ctx.events if e[0] == "new_name_load"] == [d["union_map"]])
        if ok:
            elts = slice_value(result.attrs["slice"]).attrs["elts"]
            ctx.oblige("post", "the-members-are-exactly-the-operands-of-the-whole-chain,flat,left-to-right,each-back-ported(`A | B | None` is Union[A, B, NoneType],never a nested or reordered union)" + tag,
                       len(elts) == len(d["leaves"]) and all(isinstance(e, tuple) and e[0] == "back-ported" and e[1] is l for e, l in zip(elts, d["leaves"])))
    ctx.oblige("frame", "the-node-given-is-not-modified" + tag, dump(d["node"]) == d["node_dump"])


def aue_setup(ctx):
    classes(ctx)
    nk = ["leaf", "X | Y", "X + Y"][ctx.choose(3, "node")]
    X, Y = name("X"), name("Y")
    node = {"leaf": lambda: X, "X | Y": lambda: bitor(X, Y), "X + Y": lambda: N("BinOp", left=X, op=N("Add"), right=Y)}[nk]()
    earlier = ("back-ported", name("earlier"))
    elts = [earlier]
    self = bp_self({})
    self.methods["visit"] = lambda c, s_, a, k: ("back-ported", a[0])
    self.methods["append_union_elts"] = lambda c, s_, a, k: flatten_model(c, a[0], a[1])
    return Setup(env={"self": self, "node": node, "elts": elts}, consts=AST_CONSTS, data=dict(nk=nk, node=node, X=X, Y=Y, elts=elts, earlier=earlier))


def aue_post(ctx, st, result):
    d = st.data
    got = d["elts"][1:]
    want = [d["X"], d["Y"]] if d["nk"] == "X | Y" else [d["node"]]
    ctx.oblige("post", f"the-operands-of-a-`|`-are-appended-left-then-right;anything-else(a name,another operator)-is-one-member,back-ported;what-was-collected-before-stays-first[{d['nk']}]",
               d["elts"][0] is d["earlier"] and len(got) == len(want) and all(isinstance(g, tuple) and g[0] == "back-ported" and g[1] is w for g, w in zip(got, want)))


SUBS = ["list[X]", "dict[X]", "Optional[X]", "typing.List[X]", "MyGeneric[X]", "f()[X]"]


def vsub_setup(ctx):
    classes(ctx)
    sk = SUBS[ctx.choose(len(SUBS), "subscript")]
    sl = name("X")
    value = {"list[X]": lambda: name("list"), "dict[X]": lambda: name("dict"), "Optional[X]": lambda: name("Optional"), "typing.List[X]": lambda: N("Attribute", value=name("typing"), attr="List", ctx=N("Load")),
             "MyGeneric[X]": lambda: name("MyGeneric"), "f()[X]": lambda: N("Call", func=name("f"), args=[], keywords=[])}[sk]()
    node = N("Subscript", value=value, slice=sl, ctx=N("Load"))
    pep585 = {k: var_map(k.capitalize() if k != "frozenset" else "FrozenSet", Rec("typing " + k)) for k in ("dict", "frozenset", "list", "set", "tuple", "type")}
    made = Rec("Name made by new_name_load")
    self = bp_self({})
    self.methods["new_name_load"] = lambda c, s_, a, k: (c.event("new_name_load", a[0]), made)[1]
    self.methods["visit"] = lambda c, s_, a, k: ("back-ported", a[0])
    return Setup(env={"self": self, "node": node}, calls=BP_CALLS, consts=dict(AST_CONSTS, pep585_map=pep585), data=dict(sk=sk, node=node, value=value, sl=sl, pep585=pep585, made=made, node_dump=dump(node)))


def vsub_post(ctx, st, result):
    d = st.data
    tag = f"[{d['sk']}]"
    ok = isinstance(result, Rec) and result.cls == "Subscript" and result is not d["node"]
    ctx.oblige("post", "a-new-subscript-whose-index-is-the-back-ported-index(`list[int | None]`: the union inside is rewritten too)" + tag,
               ok and result.attrs.get("slice") == ("back-ported", d["sl"]) and result.attrs["slice"][1] is d["sl"])
    if ok:
        ev = [e[1] for e in ctx.events if e[0] == "new_name_load"]
        if d["sk"] in ("list[X]", "dict[X]"):
            ctx.oblige("post", "a-builtin-generic(list, dict, set, tuple, type, frozenset)-is-replaced-by-the-name-bound-to-its-typing-counterpart(list -> List,dict -> Dict)" + tag,
                       result.attrs.get("value") is d["made"] and len(ev) == 1 and ev[0] is d["pep585"][d["sk"].split("[")[0]])
        else:
            ctx.oblige("post", "any-other-subscripted-object(a typing generic,a user generic,an attribute,an expression)-is-kept-as-it-is" + tag, result.attrs.get("value") is d["value"] and not ev)
    ctx.oblige("frame", "the-node-given-is-not-modified" + tag, dump(d["node"]) == d["node_dump"])


def bpk_setup(ctx):
    classes(ctx)
    tree = N("Module", body=[N("Assign", targets=[N("Name", id="___arg_type___", ctx=N("Store"))], value=bitor(name("Sequence"), const(None)))])
    abc_seq, abc_odd, user = Rec("collections.abc Sequence", attrs={"__module__": "collections.abc"}), Rec("collections.abc Buffer", attrs={"__module__": "collections.abc"}), Rec("class A", attrs={"__module__": "usermod"})
    nomod = Rec("object without __module__")
    t_seq = Rec("typing Sequence")
    typing_mod = Rec("module typing", attrs={"Sequence": t_seq, "A": Rec("typing A (unrelated)")})
    exec_vars = {"Sequence": abc_seq, "Buffer": abc_odd, "A": user, "x": nomod}
    seen = {}

    def visit(c, s_, a, k):
        seen["visited"] = a[0]
        seen["exec_vars_at_visit"] = s_.attrs.get("exec_vars")
        c.event("visit", a[0])
        return Rec("Module", attrs={"body": [], "transformed": True})

    def fix(c, a, k):
        c.event("fix_missing_locations", a[0])
        seen["fixed"] = a[0]
        return a[0]

    self = Rec("BackportTypeHints", attrs={"__class__": BP_CLASS}, methods={"visit": visit})
    calls = {"__import__": lambda c, a, k: typing_mod, "deepcopy": lambda c, a, k: copy_node(a[0])}
    calls["ast.fix_missing_locations"] = fix
    return Setup(env={"self": self, "input_ast": tree, "exec_vars": exec_vars}, calls=calls,
                 data=dict(tree=tree, tree_dump=dump(tree), exec_vars=exec_vars, abc_seq=abc_seq, abc_odd=abc_odd, user=user, nomod=nomod, t_seq=t_seq, seen=seen))


def bpk_post(ctx, st, result):
    d = st.data
    seen, ev = d["seen"], d["exec_vars"]
    ctx.oblige("frame", "the-tree-given-is-not-modified:a-copy-is-transformed", dump(d["tree"]) == d["tree_dump"] and seen.get("visited") is not d["tree"] and seen.get("visited") is not None and dump(seen["visited"]) == d["tree_dump"])
    ctx.oblige("post", "the-result-is-the-transformed-copy,with-locations-completed(compile needs them)", result is seen.get("fixed") and isinstance(result, Rec) and result.attrs.get("transformed") is True)
    ctx.oblige("post", "the-names-the-transformation-introduces-are-bound-in-the-namespace-given(the one the tree will run in)", seen.get("exec_vars_at_visit") is ev)
    ctx.oblige("post", "a-collections.abc-class-of-the-namespace(not subscriptable before 3.9)-is-replaced-by-typing's-generic-of-the-same-name-when-there-is-one;every-other-name-keeps-its-object",
               set(ev) == {"Sequence", "Buffer", "A", "x"} and ev["Sequence"] is d["t_seq"] and ev["Buffer"] is d["abc_odd"] and ev["A"] is d["user"] and ev["x"] is d["nomod"])


def nvf_setup(ctx):
    classes(ctx)
    ek = ["Dict[str, A]", "A", "Optional[A] | A", "3"][ctx.choose(4, "expression")]
    node = {"Dict[str, A]": lambda: subscript(name("Dict"), N("Tuple", elts=[name("str"), name("A")], ctx=N("Load"))), "A": lambda: name("A"),
            "Optional[A] | A": lambda: bitor(subscript(name("Optional"), name("A")), name("A")), "3": lambda: const(3)}[ek]()
    want = {"Dict[str, A]": ["Dict", "str", "A"], "A": ["A"], "Optional[A] | A": ["Optional", "A"], "3": []}[ek]

    def all_names(n, out):
        if isinstance(n, Rec):
            if n.cls == "Name":
                out.append(n.attrs["id"])
            for k_ in ("value", "slice", "left", "right", "elts"):
                if k_ in n.attrs:
                    all_names(n.attrs[k_], out)
        elif isinstance(n, list):
            for x in n:
                all_names(x, out)
        return out

    def visit(c, s_, a, k):
        c.event("visit", a[0], list(s_.attrs.get("names_found", ["<unset>"])))
        for nm in all_names(a[0], []):
            s_.attrs["names_found"].append(nm)  # what visit_Name does for every Name below the node

    def unique(c, a, k):
        out = []
        for x in a[0]:
            if x not in out:
                out.append(x)
        return out

    self = Rec("NamesVisitor", attrs={"names_found": ["stale"]}, methods={"visit": visit})
    return Setup(env={"self": self, "node": node}, calls={"unique": unique}, data=dict(ek=ek, node=node, want=want, self_=self, node_dump=dump(node)))


def nvf_post(ctx, st, result):
    d = st.data
    ev = [e for e in ctx.events if e[0] == "visit"]
    ctx.oblige("post", f"the-distinct-names-of-the-expression,in-order-of-first-occurrence;findings-of-an-earlier-search-are-not-carried-over[{d['ek']}]",
               result == d["want"] and len(ev) == 1 and ev[0][1] is d["node"] and ev[0][2] == [], note=f"got {result!r}")
    ctx.oblige("frame", f"the-expression-is-not-modified[{d['ek']}]", dump(d["node"]) == d["node_dump"])


# ============================================================================================================ units
def units(prop):
    T_EVAL = "type_requires_eval / has_subtypes: interpreted with their real bodies (inlined)"
    return [
        Unit(prop, MOD + "evaluate_postponed_annotations", epa_setup, epa_post, epa_raises,
             trusted=[ORIGIN_TRUST, T_EVAL, "get_types by contract (its own unit): a dict name -> type or exception, or an exception", "dataclasses.is_dataclass as documented", "precondition: logger is a logging.Logger (the resolvers always pass one)"]),
        Unit(prop, MOD + "type_requires_eval", tre_setup, tre_post, never, trusted=[ORIGIN_TRUST]),
        Unit(prop, MOD + "has_subtypes", tre_setup, hs_post, never, trusted=[ORIGIN_TRUST]),
        Unit(prop, MOD + "get_types", gt_setup, gt_post, gt_raises, expect_cover=("return", "raise:NameError"),
             trusted=[ORIGIN_TRUST, T_EVAL, AST_TRUST, "typing.get_type_hints(obj, globalns): name -> evaluated annotation, or the exception of the first annotation that fails",
                      "inspect.getsource / textwrap.dedent / ast.parse: the definition's tree, OSError/TypeError without source", "get_global_vars, get_arg_type, resolve_forward_refs by contract (their own units)"]),
        Unit(prop, MOD + "get_arg_type", ga_setup, ga_post, ga_raises, expect_cover=("return", "raise:KeyError", "raise:NameError"),
             trusted=[AST_TRUST, "exec(compile(tree)): runs the module's assignments in order in the namespace given; a name that is not bound there is NameError(\"name 'X' is not defined\")",
                      "NamesVisitor.find (its own unit), BackportTypeHints.backport (its own units): an equivalent tree evaluable on this Python", "typing_extensions_import as documented"]),
        Unit(prop, MOD + "resolve_forward_refs", rf_setup, rf_post, never, label="no-forward-reference-paths", trusted=[ORIGIN_TRUST, "has_subtypes: interpreted with its real body (inlined)"]),
        Unit(prop, MOD + "resolve_forward_refs.<locals>.resolve_subtypes_forward_refs@if(forward_arg in aliases)", rfl_setup, rfl_post, never,
             trusted=["getattr_recursive(obj, 'a.b'): obj.a.b (not under contract: starred unpacking)", "precondition: forward_arg, *forward_args = arg.__forward_arg__.split('.', 1)"]),
        Unit(prop, MOD + "resolve_forward_refs.<locals>.resolve_subtypes_forward_refs@if(subtypes != list(typehint.__args__))", rb_setup, rb_post, never,
             trusted=[ORIGIN_TRUST, "origin[args] builds the parametrised hint of that origin with those arguments"]),
        Unit(prop, MOD + "get_global_vars", ggv_setup, ggv_post, ggv_raises,
             trusted=["importlib.import_module / vars(module): the module's namespace dict; inspect.getsource: the module's source or OSError/TypeError", "TypeCheckingVisitor.update_aliases by contract (its own unit): adds the TYPE_CHECKING-only names to the dict given"]),
        Unit(prop, MOD + "TypeCheckingVisitor.visit_Import", vimp_setup, vimp_post, never, trusted=[AST_TRUST]),
        Unit(prop, MOD + "TypeCheckingVisitor.visit_ImportFrom", vfrom_setup, vfrom_post, never, trusted=[AST_TRUST]),
        Unit(prop, MOD + "TypeCheckingVisitor.visit_If", vif_setup, vif_post, vif_raises,
             trusted=[AST_TRUST, "exec(compile(module)): runs the statements with the globals / locals given, any exception of theirs propagates", "scenario: the and/or-test arm is left out (nested generators are outside the engine's subset)"]),
        Unit(prop, MOD + "TypeCheckingVisitor.generic_visit", gv_setup, gv_post, never, trusted=["ast.NodeVisitor.generic_visit visits the children"]),
        Unit(prop, MOD + "TypeCheckingVisitor.update_aliases", ua_setup, ua_post, ua_raises, expect_cover=("return", "raise:SyntaxError"), trusted=["ast.parse: the module's tree or SyntaxError; NodeVisitor.visit dispatches to the visit_* methods (their own units)"]),
        Unit(prop, MOD + "get_return_type", rt_setup, rt_post, rt_raises,
             trusted=[ORIGIN_TRUST, T_EVAL, "inspect.signature(component).return_annotation; typing.get_type_hints; importlib.import_module / vars", "resolve_forward_refs by contract (its own unit)"]),
        Unit(prop, MOD + "BackportTypeHints.new_name_load", nnl_setup, nnl_post, never, trusted=[AST_TRUST]),
        Unit(prop, MOD + "BackportTypeHints.visit_Constant", vconst_setup, vconst_post, never, trusted=["new_name_load by contract (its own unit)"]),
        Unit(prop, MOD + "BackportTypeHints.visit_BinOp", vbin_setup, vbin_post, never, trusted=[AST_TRUST, "append_union_elts, new_name_load by contract (their own units)", "ast.Index(value): the index node (3.8) / the value itself (>= 3.9)"]),
        Unit(prop, MOD + "BackportTypeHints.append_union_elts", aue_setup, aue_post, never, trusted=["the recursive calls by the contract being proved (induction over the expression); NodeTransformer.visit returns the back-ported node"]),
        Unit(prop, MOD + "BackportTypeHints.visit_Subscript", vsub_setup, vsub_post, never, trusted=[AST_TRUST, "new_name_load by contract; NodeTransformer.visit returns the back-ported node"]),
        Unit(prop, MOD + "BackportTypeHints.backport", bpk_setup, bpk_post, never, trusted=[AST_TRUST, "NodeTransformer.visit dispatches to the visit_* methods (their own units); ast.fix_missing_locations returns the tree it completes; __import__('typing')"]),
        Unit(prop, MOD + "NamesVisitor.find", nvf_setup, nvf_post, never, trusted=["NodeVisitor.visit reaches every Name below the node in source order (visit_Name appends its id); _util.unique keeps first occurrences in order"]),
    ]


_ALL = [":evaluate_postponed_annotations", ":get_types", ":get_arg_type", ":resolve_forward_refs[no-forward-reference-paths]",
        "resolve_subtypes_forward_refs@if(forward_arg in aliases)", "resolve_subtypes_forward_refs@if(subtypes != list(typehint.__args__))", ":type_requires_eval", ":has_subtypes", ":get_global_vars",
        "TypeCheckingVisitor.visit_Import", "TypeCheckingVisitor.visit_ImportFrom", "TypeCheckingVisitor.visit_If", "TypeCheckingVisitor.generic_visit", "TypeCheckingVisitor.update_aliases", ":get_return_type",
        "BackportTypeHints.new_name_load", "BackportTypeHints.visit_Constant", "BackportTypeHints.visit_BinOp", "BackportTypeHints.append_union_elts", "BackportTypeHints.visit_Subscript", "BackportTypeHints.backport",
        "NamesVisitor.find"]
CARRIES = {"C12": list(_ALL),
           # C13 carries the units whose clauses are all discharged; the five with a clause the shipped code violates are carried by C12, where the findings are listed
           "C13": [":evaluate_postponed_annotations", ":resolve_forward_refs[no-forward-reference-paths]", "resolve_subtypes_forward_refs@if(forward_arg in aliases)", "TypeCheckingVisitor.visit_If"]}
