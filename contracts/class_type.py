"""adapt_class_type (jsonargparse/_typehints.py) - how a class_path/init_args spec is validated and built (C14, C06, C08).
  parse:        init_args are validated by the parser built for *that very class* (the import of class_path), dict_kwargs
                that this parser knows are moved into init_args first, the validated object is stored as init_args
  instantiate:  nested class arguments are instantiated first (parser.instantiate_classes(init_args)), then the class is
                constructed exactly once with {**init_args, **dict_kwargs}; that object is returned
"""
import z3

from pyvc.engine import ClassRef, ExcVal, PyRaise, Rec, Unsupported
from pyvc.units import Setup, Unit


def ns(store, tag="ns"):
    def pop(c, s_, a, k):
        return s_.attrs["store"].pop(a[0], a[1] if len(a) > 1 else None)

    def get(c, s_, a, k):
        return s_.attrs["store"].get(a[0], a[1] if len(a) > 1 else None)

    r = Rec("Namespace", attrs={"store": store, "tag": tag}, methods={
        "pop": pop, "get": get, "__getitem__": lambda c, s_, a, k: s_.attrs["store"][a[0]],
        "__setitem__": lambda c, s_, a, k: s_.attrs["store"].__setitem__(a[0], a[1]),
        "__getattr__": lambda c, s_, a, k: s_.attrs["store"][a[0]],
        "__bool__": lambda c, s_, a, k: bool(s_.attrs["store"]), "__contains__": lambda c, s_, a, k: a[0] in s_.attrs["store"],
        "__kwargs__": lambda c, s_, a, k: dict(s_.attrs["store"]),
    })
    return r


def act_setup(ctx):
    mode = ["parse", "serialize", "instantiate", "instantiate-partial", "instantiate-not-requested"][ctx.choose(5, "mode")]
    dk_kind = ["none", "known+extra", "extra-only", "a-declared-parameter-that-init_args-also-gives"][ctx.choose(4, "dict_kwargs")]
    prev_kind = ["none", "same-class-with-dict_kwargs", "other-class"][ctx.choose(3, "prev_val")]
    a_val, known_val, extra_val = z3.Int("init_args.a"), z3.Int("dict_kwargs.known"), z3.Int("dict_kwargs.extra")
    # init_args given, or none at all (class_path only): the class's parser must validate either way - that is where a missing required parameter is caught
    init_store = {"a": a_val} if ctx.choose(2, "init_args-given") == 0 else {}
    init_args = ns(init_store, "init_args")
    twice_val = z3.Int("dict_kwargs.a")
    dict_kwargs = {"none": None, "known+extra": {"known": known_val, "extra": extra_val}, "extra-only": {"extra": extra_val}, "a-declared-parameter-that-init_args-also-gives": {"a": twice_val, "extra": extra_val}}[dk_kind]
    store = {"class_path": "pkg.Sub", "init_args": init_args}
    if dict_kwargs is not None:
        store["dict_kwargs"] = dict_kwargs
    value = ns(store, "value")
    prev = None
    prev_extra = z3.Int("prev.dict_kwargs.old")
    if prev_kind != "none":
        prev = ns({"class_path": "pkg.Sub" if prev_kind.startswith("same") else "pkg.Other", "init_args": ns({"a": z3.Int("prev.a")}, "prev-init"), "dict_kwargs": {"old": prev_extra}}, "prev")
    sub_cls = Rec("class pkg.Sub")
    validated = ns({"a": z3.Int("validated.a")}, "validated init_args")
    instantiated = ns({"a": Rec("nested instance")}, "instantiated init_args")
    instance = Rec("instance of pkg.Sub")

    def get_class_parser(c, a, k):
        c.event("class-parser-for", a[0])
        return Rec("ArgumentParser", attrs={"_actions": []}, methods={
            "parse_object": lambda c2, s2, a2, k2: (c2.event("validate-init_args", dict(a2[0].attrs["store"]) if isinstance(a2[0], Rec) else a2[0], dict(k2)), validated)[1],
            "instantiate_classes": lambda c2, s2, a2, k2: (c2.event("instantiate-nested", a2[0]), instantiated)[1],
            "dump": lambda c2, s2, a2, k2: (c2.event("nested-dump", a2[0], dict(k2)), dumped_text)[1]})

    dumped_text = z3.String("text-dumped-by-the-class-parser")
    loaded = Rec("mapping loaded from the dumped text")
    caller_dump_kwargs = {"skip_none": z3.Bool("dump.skip_none"), "skip_validation": z3.Bool("dump.skip_validation"), "skip_link_targets": z3.Bool("dump.skip_link_targets")}

    def load_value(c, a, k):
        if k:
            return a[0]  # load_value(text, simple_types=True) on a dict_kwargs string
        c.event("load", a[0])
        return loaded

    def instantiator(c, a, k):
        c.event("construct", a[0], a[1:], dict(k))
        return instance

    calls = {
        "subclass_spec_as_namespace": lambda c, a, k: (c.event("normalise", a[0]), a[0])[1],
        "import_object": lambda c, a, k: (c.event("import", a[0]), sub_cls)[1] if a[0] == "pkg.Sub" else Rec("class " + str(a[0])),
        "ActionTypeHint.get_class_parser": get_class_parser,
        "discard_init_args_on_class_path_change": lambda c, a, k: c.event("discard-check", a[1], a[2]),
        "Namespace": lambda c, a, k: ns({}, "empty"),
        "get_class_instantiator": lambda c, a, k: Rec("instantiator", methods={"__call__": lambda c2, s2, a2, k2: instantiator(c2, a2, k2)}),
        "sub_defaults.get": lambda c, a, k: False, "dump_kwargs.get": lambda c, a, k: dict(caller_dump_kwargs), "load_value": load_value,
        "_find_action": lambda c, a, k: Rec("Action") if a[1] in ("known", "a") else None,
        "get_loader_exceptions": lambda c, a, k: (),
    }

    def symcall(c, f, a, k):
        if isinstance(f, Rec) and "__call__" in f.methods:
            return f.methods["__call__"](c, f, a, k)
        return NotImplemented

    from contracts.adapt_arms import suppress_cm
    ctx.classes.add("NestedArg", ["tuple"])
    consts = {"Namespace": ClassRef("Namespace"), "NestedArg": ClassRef("NestedArg")}
    sub_add_kwargs = {"instantiate": mode != "instantiate-not-requested"}
    env = {"value": value, "serialize": mode == "serialize", "instantiate_classes": mode.startswith("instantiate"), "sub_add_kwargs": sub_add_kwargs, "prev_val": prev, "skip_args": 0,
           "partial_classes": mode == "instantiate-partial"}
    return Setup(env=env, calls=calls, consts=consts, symcall=symcall, cms={"suppress": suppress_cm()},
                 data=dict(twice_val=twice_val, prev=prev, dumped_text=dumped_text, loaded=loaded, caller_dump_kwargs=caller_dump_kwargs, init_args=init_args, init_given=bool(init_store), mode=mode, dk_kind=dk_kind, prev_kind=prev_kind, value=value, store=store, init_store=init_store, sub_cls=sub_cls, validated=validated, instantiated=instantiated,
                           instance=instance, a_val=a_val, known_val=known_val, extra_val=extra_val, prev_extra=prev_extra))


def act_post(ctx, st, result):
    d = st.data
    ev = ctx.events
    tag = f"[{d['mode']},dict_kwargs:{d['dk_kind']},prev:{d['prev_kind']}{'' if d['init_given'] else ',no-init_args'}]"
    norm = [e[1] for e in ev if e[0] == "normalise"]
    ctx.oblige("post", "the-spec(and the previous one, when given)-are-first-brought-to-the-namespace-form" + tag, any(x is d["value"] for x in norm) and (d["prev"] is None or any(x is d["prev"] for x in norm)))
    dc = [e for e in ev if e[0] == "discard-check"]
    ctx.oblige("post", "init_args-of-a-changed-class-are-discarded-from-(previous, new)-before-anything-is-validated-or-built" + tag,
               len(dc) == 1 and dc[0][1] is d["prev"] and dc[0][2] is d["value"] and not [e for e in ev[: ev.index(dc[0])] if e[0] in ("validate-init_args", "construct", "instantiate-nested", "nested-dump")])
    ctx.oblige("post", "the-parser-is-the-one-built-for-the-class-named-by-class_path" + tag, [e[1] for e in ev if e[0] == "class-parser-for"] == [d["sub_cls"]] and ("import", "pkg.Sub") in ev)
    if d["mode"] == "parse":
        val = [e for e in ev if e[0] == "validate-init_args"]
        want = {"a": d["a_val"]} if d["init_given"] else {}
        if d["dk_kind"] == "known+extra":
            want["known"] = d["known_val"]
        if d["dk_kind"].startswith("a-declared-parameter"):
            # every value the constructor would receive for a declared parameter meets that parameter's type: the dict_kwargs entry is what the constructor
            # gets ({**init_args, **dict_kwargs}), so it is the one that is validated, whether or not init_args names the parameter too
            want["a"] = d["twice_val"]
        ok = len(val) == 1 and set(val[0][1]) == set(want) and all(val[0][1][k] is want[k] for k in want)
        ctx.oblige("post", "init_args(plus the dict_kwargs this class's parser knows)-are-validated-by-that-parser,once" + tag, ok)
        ctx.oblige("post", "the-validated-object-becomes-init_args" + tag, result is d["value"] and d["store"].get("init_args") is d["validated"])
        if d["dk_kind"] != "none":
            got = d["store"].get("dict_kwargs")
            want_dk = {"extra": d["extra_val"]}
            if d["prev_kind"].startswith("same"):
                want_dk = {"old": d["prev_extra"], "extra": d["extra_val"]}
            ctx.oblige("post", "unknown-dict_kwargs-stay-dict_kwargs(merged over the previous ones only for the same class)" + tag, isinstance(got, dict) and set(got) == set(want_dk) and all(got[k] is want_dk[k] for k in want_dk))
        else:
            ctx.oblige("post", "no-dict_kwargs-given=>none-stored" + tag, "dict_kwargs" not in d["store"])
    elif d["mode"] == "serialize":
        dumps = [e for e in ev if e[0] == "nested-dump"]
        if d["init_given"]:
            ok = len(dumps) == 1 and dumps[0][1] is d["init_args"] and set(dumps[0][2]) == set(d["caller_dump_kwargs"]) and all(dumps[0][2][k] is v for k, v in d["caller_dump_kwargs"].items())
            ctx.oblige("post", "init_args-are-dumped-by-that-class's-parser-with-the-caller's-dump-settings(not reset for nested specs)" + tag, ok)
            ctx.oblige("post", "the-serialised-init_args-are-what-the-loader-reads-from-that-dump" + tag, d["store"].get("init_args") is d["loaded"] and [e for e in ev if e[0] == "load"] == [("load", d["dumped_text"])])
        else:
            ctx.oblige("post", "no-init_args=>nothing-to-dump" + tag, not dumps and result is d["value"])
    elif d["mode"] in ("instantiate", "instantiate-partial"):
        nested = [e for e in ev if e[0] == "instantiate-nested"]
        cons = [e for e in ev if e[0] == "construct"]
        ctx.oblige("post", "nested-class-arguments-are-instantiated-first,on-this-spec's-init_args" + tag, len(nested) == 1 and isinstance(nested[0][1], Rec) and nested[0][1].attrs.get("tag") == "init_args")
        if d["mode"] == "instantiate":
            want = dict(d["instantiated"].attrs["store"])
            if d["dk_kind"] == "known+extra":
                want.update(known=d["known_val"], extra=d["extra_val"])
            elif d["dk_kind"] == "extra-only":
                want.update(extra=d["extra_val"])
            elif d["dk_kind"].startswith("a-declared-parameter"):
                want.update(a=d["twice_val"], extra=d["extra_val"])
            ok = len(cons) == 1 and cons[0][1] is d["sub_cls"] and cons[0][2] == () and set(cons[0][3]) == set(want) and all(cons[0][3][k] is want[k] for k in want)
            ctx.oblige("post", "the-named-class-is-constructed-exactly-once-with-{**instantiated init_args, **dict_kwargs}" + tag, ok)
            ctx.oblige("post", "after-the-nested-ones,and-that-object-is-returned" + tag, result is d["instance"] and ev.index(nested[0]) < ev.index(cons[0]) if (nested and cons) else False)
        else:
            ctx.oblige("post", "a-partial-class-is-not-constructed-yet" + tag, not cons)
    elif d["mode"] == "instantiate-not-requested":
        ctx.oblige("post", "instantiate=False:the-class-is-not-constructed,only-its-nested-arguments-are" + tag, not [e for e in ev if e[0] == "construct"] and result is d["value"] and d["store"].get("init_args") is d["instantiated"])


def act_raises(ctx, st, exc):
    ctx.oblige("raises", f"no-own-exception(got {exc.cls}@{exc.origin})", False)


def class_type_unit(prop):
    return Unit(prop, "jsonargparse._typehints:adapt_class_type", act_setup, act_post, act_raises, max_paths=20000,
                trusted=["subclass_spec_as_namespace normalises the spec (C14 unit); import_object imports class_path", "get_class_parser(cls) builds the parser of exactly cls; parser.parse_object validates (C06 units)",
                         "get_class_instantiator() calls the class with the given keyword arguments", "no linked targets, no NestedArg init_args in these scenarios"])


# ============================================================================ the subclass arm of adapt_typehints
IMPORTS = ["subclass", "unrelated-class", "callable-returning-subclass", "callable-returning-other", "ImportError", "AttributeError", "an-instance-of-the-type", "a-protocol"]


def sa_setup(ctx):
    from contracts.adapt_arms import UNEXPECTED, suppress_cm
    val_kind = ["instance-of-the-type", "valid-spec", "not-a-spec", "text-while-serialising"][ctx.choose(4, "val-kind")]
    serialize = True if val_kind == "text-while-serialising" else ctx.choose(2, "serialize") == 1
    imp = IMPORTS[ctx.choose(len(IMPORTS), "import-of-class_path")] if val_kind == "valid-spec" else None
    typehint = Rec("class Base", attrs={"__name__": "Base"})
    instance = Rec("instance of Base")
    imported = Rec("imported object", attrs={"kind": imp})
    adapted = Rec("result of adapt_class_type")
    spec_store = {"class_path": "pkg.Thing", "init_args": Rec("Namespace")}
    spec = Rec("Namespace", attrs={"store": spec_store}, methods={"__getitem__": lambda c, s_, a, k: s_.attrs["store"][a[0]], "__setitem__": lambda c, s_, a, k: s_.attrs["store"].__setitem__(a[0], a[1])})
    val = {"instance-of-the-type": instance, "valid-spec": spec, "not-a-spec": z3.Int("val"), "text-while-serialising": z3.String("val")}[val_kind]

    def unexpected(c, a, k):
        raise PyRaise(ExcVal("ValueError", args=(a[0],), origin=UNEXPECTED))

    def import_object(c, a, k):
        c.event("import", a[0])
        if imp in ("ImportError", "AttributeError"):
            raise PyRaise(ExcVal(imp, origin="import_object"))
        return imported

    def is_sub(c, a, k):
        obj = a[0]
        if obj is imported:
            return imp == "subclass"
        if isinstance(obj, Rec) and obj.cls == "return type":
            return obj.attrs["ok"]
        return False

    calls = {
        "inspect.isclass": lambda c, a, k: (a[0] is typehint) or (a[0] is imported and imp in ("subclass", "unrelated-class", "a-protocol")),
        "is_instance_or_supports_protocol": lambda c, a, k: a[0] is instance or (a[0] is imported and imp == "an-instance-of-the-type"),
        "serialize_class_instance": lambda c, a, k: "pkg.instance_path",
        "inspect.isabstract": lambda c, a, k: False, "is_protocol": lambda c, a, k: a[0] is imported and imp == "a-protocol",
        "get_import_path": lambda c, a, k: "pkg.Base" if a[0] is typehint else "pkg.normalised.Path",
        "Namespace": lambda c, a, k: Rec("Namespace", attrs={"implicit": dict(k)}),
        "subclass_spec_as_namespace": lambda c, a, k: a[0], "is_subclass_spec": lambda c, a, k: a[0] is spec,
        UNEXPECTED: unexpected, "resolve_class_path_by_name": lambda c, a, k: a[1], "import_object": import_object,
        "is_subclass_or_implements_protocol": is_sub, "callable": lambda c, a, k: a[0] is imported and imp.startswith("callable"),
        "get_return_type": lambda c, a, k: Rec("return type", attrs={"ok": imp == "callable-returning-subclass"}),
        "adapt_class_type": lambda c, a, k: (c.event("adapt_class_type", a[0], dict(k), dict(a[0].attrs["store"])), adapted)[1],
        "indent_text": lambda c, a, k: a[0],
    }
    consts = {"logger": Rec("Logger")}
    env = {"val": val, "typehint": typehint, "serialize": serialize, "prev_val": None, "instantiate_classes": False, "sub_add_kwargs": {}, "logger": None}
    return Setup(env=env, calls=calls, consts=consts, cms={"suppress": suppress_cm()},
                 data=dict(val_kind=val_kind, serialize=serialize, imp=imp, instance=instance, imported=imported, adapted=adapted, spec=spec, spec_store=spec_store, val=val))


def sa_post(ctx, st, result):
    from contracts.adapt_arms import UNEXPECTED
    d = st.data
    tag = f"[{d['val_kind']}{':' + d['imp'] if d['imp'] else ''}{',serialize' if d['serialize'] else ''}]"
    out = result if result is not None else d["env"].lookup("val")
    if d["val_kind"] == "instance-of-the-type":
        ctx.oblige("post", "fixpoint:an-instance-of-the-declared-type-is-returned-as-it-is(serialised to its import path when dumping)" + tag, (out == "pkg.instance_path") if d["serialize"] else (out is d["instance"]))
        return
    if d["val_kind"] == "text-while-serialising":
        ctx.oblige("post", "a-text-is-left-alone-when-serialising" + tag, out is d["val"])
        return
    ctx.oblige("post", "accepted=>the-value-is-a-spec-and-its-class_path-imports-to-a-subclass-of-the-declared-type(or a callable returning one, or an instance)" + tag,
               d["val_kind"] == "valid-spec" and d["imp"] in ("subclass", "callable-returning-subclass", "an-instance-of-the-type"))
    if d["imp"] in ("subclass", "callable-returning-subclass"):
        calls_ = [e for e in ctx.events if e[0] == "adapt_class_type"]
        ctx.oblige("post", "the-spec-is-handed-to-adapt_class_type-once,with-the-normalised-import-path,and-its-result-returned" + tag,
                   len(calls_) == 1 and calls_[0][1] is d["spec"] and calls_[0][3].get("class_path") == "pkg.normalised.Path" and out is d["adapted"])
    elif d["imp"] == "an-instance-of-the-type":
        ctx.oblige("post", "an-importable-instance-is-returned-itself" + tag, out is d["imported"])


def sa_raises(ctx, st, exc):
    from contracts.adapt_arms import UNEXPECTED
    d = st.data
    tag = f"[{d['val_kind']}{':' + d['imp'] if d['imp'] else ''}]"
    ctx.oblige("raises", "every-failure-leaves-as-the-unexpected-value-error(no ImportError / AttributeError escapes)" + tag, exc.origin == UNEXPECTED and exc.cls == "ValueError")
    ctx.oblige("raises", "rejected=>not-a-spec,or-class_path-does-not-import-to-a-subclass" + tag,
               d["val_kind"] == "not-a-spec" or d["imp"] in ("unrelated-class", "callable-returning-other", "ImportError", "AttributeError", "a-protocol"))


def subclass_arm_unit(prop):
    from contracts.adapt_arms import TARGET
    return Unit(prop, TARGET.format("not hasattr(typehint, '__origin__') and inspect.isclass(typehint)"), sa_setup, sa_post, sa_raises, label="subclass", expect_cover=("return", "raise:ValueError"),
                trusted=["import_object / inspect / is_subclass_or_implements_protocol / get_return_type: assumed introspection contracts (A4), exercised by the bounded harness",
                         "adapt_class_type: unit of its own"])


# ============================================================================ discard_init_args_on_class_path_change
def di_setup(ctx):
    changed = ctx.choose(2, "class_path-changed") == 1
    # one parameter is named like a Namespace method: the namespace stores it under the clash-marked name, the class parser knows it by its own name
    MARK = "\u200b"
    keys = ["a", "items"]
    stored = {"a": "a", "items": MARK + "items"}
    fate = {k: ["accepted-by-the-new-class", "unknown-to-the-new-class", "known-but-ill-typed"][ctx.choose(3, f"{k}-in-new-class")] for k in keys}
    init_store = {stored[k]: z3.Int(f"prev.init_args.{k}") for k in keys}
    init_ns = Rec("Namespace", attrs={"store": init_store}, methods={"pop": lambda c, s_, a, k: s_.attrs["store"].pop(a[0] if a[0] in s_.attrs["store"] else MARK + a[0])})
    init_ns.attrs["__dict__"] = Rec("dict-view", methods={"items": lambda c, s_, a, k: list(init_store.items())})
    prev_store = {"class_path": "pkg.Old", "init_args": init_ns}
    prev = Rec("Namespace", attrs={"store": prev_store}, methods={"__contains__": lambda c, s_, a, k: a[0] in prev_store, "__getitem__": lambda c, s_, a, k: prev_store[a[0]],
                                                               "__getattr__": lambda c, s_, a, k: prev_store[a[0]]})
    value = Rec("Namespace", methods={"__getitem__": lambda c, s_, a, k: "pkg.New" if changed else "pkg.Old"})

    open_cms = []
    found = {k: Rec("Action", attrs={"dest": k}) for k in keys}

    def check(c, s_, a, k):
        c.event("check", a[0], a[1], a[2], a[3], list(open_cms))
        if fate[a[2]] == "known-but-ill-typed":
            raise PyRaise(ExcVal("TypeError", origin="_check_value_key"))
        return a[1]

    given_as = ["parser", "action"][ctx.choose(2, "given-as")]
    parser = Rec("ArgumentParser", attrs={"parser_mode": "yaml", "logger": Rec("Logger", methods={"debug": lambda c, s_, a, k: None})}, methods={"_check_value_key": check})
    sak = {"fail_untyped": True}
    action = Rec("ActionTypeHint", attrs={"sub_add_kwargs": sak, "logger": Rec("Logger", methods={"debug": lambda c, s_, a, k: None})})
    calls = {"subclass_spec_as_namespace": lambda c, a, k: a[0],
             "_find_action": lambda c, a, k: (c.event("find", a[0], a[1]), None if (a[1] not in fate or fate[a[1]] == "unknown-to-the-new-class") else found[a[1]])[1],
             "Namespace": lambda c, a, k: Rec("Namespace", attrs={"fresh": True}),
             "ActionTypeHint.get_class_parser": lambda c, a, k: (c.event("class-parser", a[0], a[1]), parser)[1]}
    consts = {"ActionTypeHint": ClassRef("ActionTypeHint"), "clash_mark": "\u200b"}
    cms = {"parser_context": (lambda c, a, k: open_cms.append(dict(k)), lambda c, t, e: (open_cms.pop(), False)[1])}
    return Setup(env={"parser_or_action": parser if given_as == "parser" else action, "prev_val": prev, "value": value}, calls=calls, consts=consts, cms=cms,
                 inline={"del_clash_mark": "jsonargparse._namespace:del_clash_mark"},
                 data=dict(stored=stored, changed=changed, fate=fate, init_store=init_store, init_before=dict(init_store), keys=keys, given_as=given_as, parser=parser, sak=sak, found=found, open_cms=open_cms))


def di_post(ctx, st, result):
    d = st.data
    remaining = set(d["init_store"])
    want = {d["stored"][k] for k in d["keys"]} if not d["changed"] else {d["stored"][k] for k in d["keys"] if d["fate"][k] == "accepted-by-the-new-class"}
    ctx.oblige("post", "on-a-class-change-exactly-the-previous-init_args-the-new-class-rejects-are-dropped(a parameter named like a Namespace method is judged like any other);without-a-change-none", remaining == want, note=f"{d['fate']} changed={d['changed']} remaining={sorted(remaining)}")
    ctx.oblige("post", "the-init_args-that-are-kept-keep-their-values", all(d["init_store"][k] is d["init_before"][k] for k in remaining))
    if d["changed"]:
        cp = [e for e in ctx.events if e[0] == "class-parser"]
        if d["given_as"] == "action":
            ctx.oblige("post", "given-the-argument's-action,the-judge-is-the-parser-of-the-*new*-class(built with the action's own settings)", len(cp) == 1 and cp[0][1] == "pkg.New" and cp[0][2] is d["sak"])
        else:
            ctx.oblige("post", "given-a-parser,that-parser-is-the-judge", not cp)
        ck = [e for e in ctx.events if e[0] == "check"]
        known = [k for k in d["keys"] if d["fate"][k] != "unknown-to-the-new-class"]
        ctx.oblige("post", "each-previous-init_arg-the-new-class-knows-is-checked-by-the-new-class's-own-action,strictly(not leniently),on-its-own-value",
                   [e[3] for e in ck] == known and all(e[3] in d["found"] and e[1] is d["found"][e[3]] and e[2] is d["init_before"][d["stored"][e[3]]] and isinstance(e[4], Rec) and e[4].attrs.get("fresh") and e[5] == [{"lenient_check": False, "load_value_mode": "yaml"}] for e in ck))
        ctx.oblige("post", "every-lookup-is-made-in-the-judging-parser", all(e[1] is d["parser"] for e in ctx.events if e[0] == "find") and not d["open_cms"])


def di_raises(ctx, st, exc):
    ctx.oblige("raises", f"no-own-exception(got {exc.cls}@{exc.origin})", False)


def discard_unit(prop):
    return Unit(prop, "jsonargparse._typehints:discard_init_args_on_class_path_change", di_setup, di_post, di_raises,
                trusted=["_find_action(parser, key) finds the new class's parameter; parser._check_value_key raises for an ill-typed value", "parser given directly (the ActionTypeHint variant builds it with get_class_parser)"])
