"""Registered scalar types of jsonargparse/typing.py and the import-path serializer of jsonargparse/_util.py (C20; C01 carries the round trips).

Units (all read the real bodies from /repo - or $VERIF_REPO - on every run):
  RegisteredType.__init__        the five fields hold exactly what was given; no deserializer given => the type itself deserializes; nothing else is set
  RegisteredType.__eq__          two handlers are equal exactly when type, serializer and deserializer are the same (type_check / exceptions are not compared)
  SecretStr.__init__ / get_secret_value / __len__ / __eq__ / __hash__
                                 the secret (ANY string) is stored and given back unchanged, len is its length, two secrets are equal exactly when both
                                 are SecretStr and hold equal strings (never equal to the plain string), hash is a function of the secret alone
  bytes_serializer               standard base64 text (a str) of the bytes / bytearray given; the argument is not modified
  bytes_deserializer             bytes decoded from base64 text; deserializer(serializer(v)) == v and is a bytes; only ValueError (binascii.Error) / TypeError escape
  bytearray_deserializer         the same bytes as a *bytearray* (same type as what was serialized)
  add_type                       publishes the class under its name in the module namespace and registers it exactly once with its base type as serializer, the
                                 key and the type_check given; a clashing name is refused with ValueError, a key already registered with AssertionError - nothing changed then
  register_type_on_first_use     nothing is imported or registered now; the pending entry, when run, imports that very path and registers the object with the arguments given
  _is_path_type                  true exactly for jsonargparse Path instances (of any path type), whatever the type asked
  path_type                      one class per (set of mode letters, skip_check): same letters in another order give the registered class back, nothing created;
                                 otherwise one new class Path_<mode> over a Path subclass carrying mode / skip_check / str, registered under that key with _is_path_type
  object_path_serializer         returns a path only if importing that path gives the very object back; every failure is a ValueError chained to its cause
  get_module_var_path            module_path.NAME of the first module variable that *is* the value (identity, not equality); None when there is none
  range_serializer               for ALL integers start/stop/step (step != 0): the text is Python's range notation denoting exactly (start, stop, step) - an omitted
                                 start is 0, an omitted step is 1 - and the decimal texts written spell the integers (str.from_int / str.to_int)
  range_deserializer             round trip: for ALL decimal texts in -?[0-9]+ (where str(int) lies) the three canonical forms give exactly the range back (negative,
                                 zero, step 1 / -1; only step 0 is refused).  For ALL strings: accepted => up to white space the text is range(...), between the
                                 parentheses stand, blanks removed, one to three integers separated by commas, and the result is the range they denote; every
                                 rejection is a ValueError (AttributeError for a non-string, which RegisteredType.deserializer turns into ValueError)
  timedelta_deserializer         round trip: for ALL normalised durations (days in +-999999999 incl. negative and the singular 'day', any second of the day, any
                                 microsecond) the text str(timedelta) writes - a spec function, stated in `trusted` - gives an equal timedelta back.  For ALL
                                 strings: only ValueError escapes (REFUTED on this tree: OverflowError for out-of-range numbers), the whole text is consumed
                                 (REFUTED: '0:00:01abc' is read as one second), the components are the numbers at their places; a non-string is a ValueError
Shared models: str.strip (exact, 29 white-space code points), re.match with groups for the deterministic fragment (match_model), int()/float() of decimal
texts, range(), timedelta().  Cut lemmas ("the groups matched are the texts written") are proved obligations, then used; hypotheses are sliced by theory
(fewer hypotheses = stronger statement) because neither solver copes with word equations and arithmetic at once.
"""
import z3

from pyvc.engine import ClassRef, Closure, ExcVal, Fn, Interp, PyRaise, Rec, Unsupported, is_z3, lift
from pyvc.units import Setup, Unit

I, B, S, R = z3.IntSort(), z3.BoolSort(), z3.StringSort(), z3.RealSort()
T = "jsonargparse.typing:"
U = "jsonargparse._util:"


def _no_exc(ctx, st, exc):
    ctx.oblige("raises", f"never-raises(got {exc.cls}@{exc.origin})", False)


def _raise(cls, origin, **attrs):
    raise PyRaise(ExcVal(cls, origin=origin, attrs=dict(attrs)))


# ================================================================================================ RegisteredType.__init__ / __eq__
FIELDS = ("type_class", "serializer", "base_deserializer", "deserializer_exceptions", "type_check")


def ri_setup(ctx):
    deser_given = ctx.choose(2, "deserializer-given") == 1
    a = {k: Rec(k + " given") for k in ("type_class", "serializer", "deserializer", "deserializer_exceptions", "type_check")}
    if not deser_given:
        a["deserializer"] = None
    self = Rec("RegisteredType")
    return Setup(env=dict(a, self=self), data=dict(a=a, self=self, deser_given=deser_given))


def ri_post(ctx, st, result):
    d, a, got = st.data, st.data["a"], st.data["self"].attrs
    tag = f"[deserializer={'given' if d['deser_given'] else 'None'}]"
    ctx.oblige("post", "type,serializer,exceptions-and-type_check-are-stored-as-given" + tag, all(got.get(k) is a[k] for k in ("type_class", "serializer", "deserializer_exceptions", "type_check")))
    ctx.oblige("post", "the-deserializer-is-the-one-given;without-one-the-type-itself-deserializes" + tag, got.get("base_deserializer") is (a["deserializer"] if d["deser_given"] else a["type_class"]))
    ctx.oblige("frame", "no-other-field-is-set,nothing-is-returned" + tag, set(got) == set(FIELDS) and result is None)


def re_setup(ctx):
    differs = ctx.choose(1 << len(FIELDS), "fields-that-differ")
    mine = {k: Rec(k) for k in FIELDS}
    other = {k: (Rec(k + " (another)") if differs >> i & 1 else mine[k]) for i, k in enumerate(FIELDS)}
    self, oth = Rec("RegisteredType", attrs=mine), Rec("RegisteredType", attrs=other)
    return Setup(env={"self": self, "other": oth}, data=dict(differs=differs, snap=(dict(mine), dict(other)), self=self, other=oth))


def re_post(ctx, st, result):
    d = st.data
    diff = [k for i, k in enumerate(FIELDS) if d["differs"] >> i & 1]
    want = not any(k in diff for k in ("type_class", "serializer", "base_deserializer"))
    ctx.oblige("post", f"equal-exactly-when-type,serializer-and-deserializer-are-the-same[differ:{','.join(diff) or 'none'}]", result is want if isinstance(result, bool) else result == want)
    ctx.oblige("frame", "comparing-changes-neither-handler", d["self"].attrs == d["snap"][0] and d["other"].attrs == d["snap"][1])


# ================================================================================================ SecretStr
Hash = z3.Function("hash(str)", S, I)


def _secret(name, value):
    return Rec("SecretStr", attrs={"_value": value, "__class__": ClassRef("SecretStr")})


def si_setup(ctx):
    v = z3.String("value")
    self = Rec("SecretStr", attrs={"__class__": ClassRef("SecretStr")})
    return Setup(env={"self": self, "value": v}, data=dict(v=v, self=self), watch={"value": v})


def si_post(ctx, st, result):
    got = {k: x for k, x in st.data["self"].attrs.items() if k != "__class__"}
    ctx.oblige("post", "the-secret-is-stored-unchanged,in-one-private-field(any string,the empty one too)", set(got) == {"_value"} and got["_value"] is st.data["v"] and result is None)


def sm_setup(ctx):
    v = z3.String("secret")
    self = _secret("self", v)
    return Setup(env={"self": self}, calls={"hash": lambda c, a, k: Hash(lift(a[0]))}, data=dict(v=v, self=self), watch={"secret": v})


def sg_post(ctx, st, result):
    ctx.oblige("post", "the-actual-secret-is-given-back-unchanged", is_z3(result) and result.sort() == S and result == st.data["v"])
    ctx.oblige("frame", "the-secret-is-not-modified", st.data["self"].attrs["_value"] is st.data["v"])


def sl_post(ctx, st, result):
    ctx.oblige("post", "len-is-the-length-of-the-secret(0 for the empty secret)", is_z3(result) and result.sort() == I and result == z3.Length(st.data["v"]))


def sh_post(ctx, st, result):
    ctx.oblige("post", "the-hash-is-a-function-of-the-secret-alone:equal-secrets-hash-alike(consistent with ==)", is_z3(result) and result.sort() == I and result == Hash(st.data["v"]))


SE_KINDS = ["another SecretStr", "a plain str", "None", "itself", "an object of another class with a _value"]


def se_setup(ctx):
    kind = SE_KINDS[ctx.choose(len(SE_KINDS), "other")]
    v, w = z3.String("secret"), z3.String("other")
    self = _secret("self", v)
    other = {"another SecretStr": _secret("other", w), "a plain str": w, "None": None, "itself": self, "an object of another class with a _value": Rec("Impostor", attrs={"_value": w})}[kind]
    return Setup(env={"self": self, "other": other}, data=dict(v=v, w=w, kind=kind, self=self), watch={"secret": v, "other": w})


def se_post(ctx, st, result):
    d = st.data
    want = {"another SecretStr": d["v"] == d["w"], "a plain str": False, "None": False, "itself": True, "an object of another class with a _value": False}[d["kind"]]
    got = z3.BoolVal(result) if isinstance(result, bool) else result
    ok = is_z3(got) and got.sort() == B
    ctx.oblige("post", f"equal-exactly-when-the-other-is-a-SecretStr-holding-an-equal-string(never equal to the plain secret text)[{d['kind']}]", ok and got == lift(want))
    ctx.oblige("frame", "comparing-does-not-modify-the-secret", d["self"].attrs["_value"] is d["v"])


# ================================================================================================ bytes / bytearray through base64
Bytes = z3.DeclareSort("Bytes")
b64 = z3.Function("base64.b64encode(.).decode()", Bytes, S)        # the standard base64 text of a byte string
b64_other = {n: z3.Function(f"base64.{n}(.).decode()", Bytes, S) for n in ("urlsafe_b64encode", "b32encode", "b16encode", "a85encode", "encodebytes")}
unb64 = z3.Function("base64.b64decode(.)", S, Bytes)
unb64_other = {n: z3.Function(f"base64.{n}(.)", S, Bytes) for n in ("urlsafe_b64decode", "b32decode", "b16decode", "a85decode", "decodebytes")}
b64_ok = z3.Function("base64.b64decode(.).ok", S, B)
ASCII = z3.Star(z3.Range(chr(0), chr(127)))


def _byteslike(cls, data, **extra):
    r = Rec(cls, attrs=dict(data=data, **extra))
    if "text" in extra:
        r.methods["decode"] = lambda c, s_, a, k: s_.attrs["text"] if (list(a) + [k.get("encoding", "utf-8")])[0] in ("utf-8", "ascii", "utf8", "latin-1") else _raise("LookupError", "bytes.decode(unknown encoding)")
    return r


def _encoders(ctx):
    def enc(fn):
        def model(c, a, k):
            v = a[0]
            if not (isinstance(v, Rec) and v.cls in ("bytes", "bytearray")):
                _raise("TypeError", "b64encode(not bytes-like)")
            c.event("encode", v)
            return _byteslike("bytes", ctx.fresh("encoded", Bytes), text=fn(v.attrs["data"]))
        return model
    calls = {"b64encode": enc(b64)}
    calls.update({n: enc(f) for n, f in b64_other.items()})
    return calls


def bs_setup(ctx):
    cls = ["bytes", "bytearray"][ctx.choose(2, "value-is")]
    data = z3.Const("value", Bytes)
    value = _byteslike(cls, data)
    return Setup(env={"value": value}, calls=_encoders(ctx), data=dict(cls=cls, data=data, value=value))


def bs_post(ctx, st, result):
    d = st.data
    tag = f"[{d['cls']}]"
    ctx.oblige("post", "the-result-is-a-str:the-standard-base64-text-of-exactly-these-bytes" + tag, is_z3(result) and result.sort() == S and result == b64(d["data"]))
    ctx.oblige("frame", "the-value-given-is-not-modified" + tag, d["value"].attrs == {"data": d["data"]})


BD_KINDS = ["the serializer's text for some bytes", "any string", "not a string"]


def _decoders(ctx, kind):
    def dec(fn, ok):
        def model(c, a, k):
            (v,) = a
            if k.get("validate") or k.get("altchars"):
                raise Unsupported("b64decode with validate / altchars")
            if not (is_z3(v) and v.sort() == S):
                _raise("TypeError", "b64decode(not a str / bytes-like)")
            if not c.branch(ok(v), "b64decode-accepts"):
                _raise("binascii.Error", "b64decode")
            return _byteslike("bytes", fn(v))
        return model
    ctx.classes.add("binascii.Error", ["ValueError"])
    calls = {"b64decode": dec(unb64, b64_ok)}
    calls.update({n: dec(f, lambda v, n=n: z3.Function(f"base64.{n}(.).ok", S, B)(v)) for n, f in unb64_other.items()})

    def mk_bytearray(c, a, k):
        src = a[0] if a else None
        if not (isinstance(src, Rec) and src.cls in ("bytes", "bytearray")):
            raise Unsupported("bytearray() of something else than bytes")
        return _byteslike("bytearray", src.attrs["data"])

    def mk_bytes(c, a, k):
        src = a[0] if a else None
        if not (isinstance(src, Rec) and src.cls in ("bytes", "bytearray")):
            raise Unsupported("bytes() of something else than bytes")
        return _byteslike("bytes", src.attrs["data"])
    calls["bytearray"] = mk_bytearray
    calls["bytes"] = mk_bytes
    return calls


def bd_setup(want_cls):
    def setup(ctx):
        kind = BD_KINDS[ctx.choose(len(BD_KINDS), "value-is")]
        orig = z3.Const("original", Bytes)
        value = z3.Int("value") if kind == "not a string" else z3.String("value")
        if kind == BD_KINDS[0]:
            # the serializer's contract (its own unit) and what base64 guarantees for its own output (trusted): decodable, decodes to the bytes encoded
            ctx.assume(value == b64(orig))
            ctx.assume(z3.And(b64_ok(b64(orig)), unb64(b64(orig)) == orig))
        return Setup(env={"value": value}, calls=_decoders(ctx, kind), data=dict(kind=kind, orig=orig, value=value, want_cls=want_cls), watch={"value": value})
    return setup


def bd_post(ctx, st, result):
    d = st.data
    tag = f"[{d['kind']}]"
    ok = isinstance(result, Rec) and is_z3(result.attrs.get("data"))
    ctx.oblige("post", f"the-result-is-a-{d['want_cls']}(the same type as the value that was serialized)" + tag, ok and result.cls == d["want_cls"])
    if not ok:
        return
    if d["kind"] == "not a string":
        ctx.oblige("post", "a-value-that-is-not-text-is-not-accepted" + tag, False)
        return
    ctx.oblige("post", "accepted=>base64-accepts-the-text,and-the-result-holds-exactly-the-bytes-it-denotes" + tag, z3.And(b64_ok(d["value"]), result.attrs["data"] == unb64(d["value"])))
    if d["kind"] == BD_KINDS[0]:
        ctx.oblige("post", "round-trip:deserializer(serializer(v))==v,byte-for-byte" + tag, result.attrs["data"] == d["orig"])


def bd_raises(ctx, st, exc):
    d = st.data
    tag = f"[{d['kind']}]"
    declared = any(ctx.classes.is_subclass(exc.cls, c) for c in ("ValueError", "TypeError"))
    ctx.oblige("raises", f"only-ValueError(binascii.Error)-or-TypeError-escape(what RegisteredType.deserializer turns into ValueError);got {exc.cls}" + tag, declared)
    if d["kind"] == BD_KINDS[0]:
        ctx.oblige("raises", "the-serializer's-own-text-is-never-rejected" + tag, False)
    elif d["kind"] == "any string":
        ctx.oblige("raises", "rejected=>base64-does-not-accept-the-text" + tag, z3.Not(b64_ok(d["value"])))


# ================================================================================================ add_type
def at_setup(ctx):
    clash = ctx.choose(2, "name-already-defined-in-jsonargparse.typing") == 1
    key_state = ["new key", "key None", "key already registered"][ctx.choose(3, "uniqueness_key")]
    tc_given = ctx.choose(2, "type_check-given") == 1
    base = Rec("class int")
    cls = Rec("created class", attrs={"__name__": "PositiveThing", "_type": base})
    key = None if key_state == "key None" else ("expr", "int-key")
    registry = {key: Rec("older class")} if key_state == "key already registered" else {}
    module_ns = {"PositiveInt": Rec("class PositiveInt")}
    if clash:
        module_ns["PositiveThing"] = Rec("something else of that name")
    tc = Rec("type_check") if tc_given else None
    env = {"type_class": cls, "uniqueness_key": key}
    if tc_given:
        env["type_check"] = tc
    calls = {"globals": lambda c, a, k: module_ns, "register_type": lambda c, a, k: c.event("register_type", tuple(a), dict(k))}
    return Setup(env=env, calls=calls, consts={"registered_types": registry},
                 data=dict(clash=clash, key_state=key_state, tc=tc, cls=cls, base=base, key=key, registry=registry, reg0=dict(registry), ns=module_ns, ns0=dict(module_ns)))


def at_post(ctx, st, result):
    d = st.data
    tag = f"[clash={d['clash']},{d['key_state']},type_check={'given' if d['tc'] else 'omitted'}]"
    ctx.oblige("post", "returns-normally-only-for-a-free-name-and-a-key-not-registered-yet" + tag, not d["clash"] and d["key_state"] != "key already registered")
    ctx.oblige("post", "the-class-is-published-under-its-name-in-the-module-namespace(so that its import path resolves);no-other-name-touched" + tag,
               d["ns"] == dict(d["ns0"], PositiveThing=d["cls"]) and d["ns"].get("PositiveThing") is d["cls"])
    ev = [e for e in ctx.events if e[0] == "register_type"]
    want_kw = {"uniqueness_key": d["key"]}
    if d["tc"] is not None:
        want_kw["type_check"] = d["tc"]
    ok = len(ev) == 1 and len(ev[0][1]) == 2 and ev[0][1][0] is d["cls"] and ev[0][1][1] is d["base"] and set(ev[0][2]) == set(want_kw) and all(ev[0][2][k] is v or ev[0][2][k] == v for k, v in want_kw.items())
    ctx.oblige("post", "registered-exactly-once:(the class,its base type as serializer),the-key-given,the-type_check-given-or-register_type's-default,no-deserializer(the class validates)" + tag, ok)
    ctx.oblige("frame", "the-key-registry-itself-is-left-to-register_type" + tag, d["registry"] == d["reg0"])


def at_raises(ctx, st, exc):
    d = st.data
    tag = f"[clash={d['clash']},{d['key_state']}]"
    untouched = d["ns"] == d["ns0"] and d["registry"] == d["reg0"] and not ctx.events
    if d["key_state"] == "key already registered":
        ctx.oblige("raises", f"a-key-already-registered-is-a-broken-precondition:AssertionError,nothing-changed(got {exc.cls})" + tag, exc.cls == "AssertionError" and untouched)
    else:
        ctx.oblige("raises", f"refused=>ValueError,exactly-for-a-name-that-clashes;nothing-published-or-registered(got {exc.cls})" + tag, exc.cls == "ValueError" and d["clash"] and untouched)


# ================================================================================================ register_type_on_first_use
def rf_setup(ctx):
    shape = ["no extra arguments", "positional serializer", "keywords"][ctx.choose(3, "arguments")]
    older = ctx.choose(2, "another-path-already-pending") == 1
    ser, de = Rec("serializer"), Rec("deserializer")
    args = {"no extra arguments": (), "positional serializer": (ser,), "keywords": ()}[shape]
    kwargs = {"serializer": ser, "deserializer": de} if shape == "keywords" else {}
    old_entry = Rec("older pending registration")
    pending = {"uuid.UUID": old_entry} if older else {}
    imported = Rec("the imported class")
    calls = {"import_object": lambda c, a, k: (c.event("import_object", tuple(a)), imported)[1], "register_type": lambda c, a, k: c.event("register_type", tuple(a), dict(k))}
    return Setup(env={"import_path": "datetime.timedelta", "args": args, "kwargs": kwargs}, calls=calls, consts={"registration_pending": pending},
                 data=dict(shape=shape, older=older, args=args, kwargs=dict(kwargs), pending=pending, old_entry=old_entry, imported=imported, calls=calls))


def rf_post(ctx, st, result):
    d = st.data
    tag = f"[{d['shape']},older-entry={d['older']}]"
    ctx.oblige("post", "nothing-is-imported-or-registered-now(the module of the type is not loaded until the type is used)" + tag, not ctx.events)
    entry = d["pending"].get("datetime.timedelta")
    ctx.oblige("post", "one-pending-entry-under-exactly-the-import-path;other-pending-entries-kept" + tag,
               set(d["pending"]) == {"datetime.timedelta"} | ({"uuid.UUID"} if d["older"] else set()) and (not d["older"] or d["pending"]["uuid.UUID"] is d["old_entry"]) and isinstance(entry, (Closure, Fn)))
    if not isinstance(entry, Closure):
        return
    # run the pending entry the way get_registered_type does (no arguments): what it does is part of this function's contract
    interp = Interp(ctx, entry.node, calls=d["calls"])
    interp.call_closure(entry, (), {}, entry.node)
    ev = list(ctx.events)
    ok = len(ev) == 2 and ev[0] == ("import_object", ("datetime.timedelta",)) and ev[1][0] == "register_type"
    ok = ok and len(ev[1][1]) == 1 + len(d["args"]) and ev[1][1][0] is d["imported"] and all(x is y for x, y in zip(ev[1][1][1:], d["args"]))
    ok = ok and set(ev[1][2]) == set(d["kwargs"]) and all(ev[1][2][k] is v for k, v in d["kwargs"].items())
    ctx.oblige("post", "run-later,the-entry-imports-that-very-path-once-and-registers-the-imported-object-with-exactly-the-arguments-given" + tag, ok)


# ================================================================================================ _is_path_type / path_type
IP_KINDS = ["Path", "PathType", "str", "None", "pathlib.PosixPath", "Namespace"]


def ip_setup(ctx):
    kind = IP_KINDS[ctx.choose(len(IP_KINDS), "value")]
    value = {"Path": Rec("Path"), "PathType": Rec("PathType"), "str": z3.String("value"), "None": None, "pathlib.PosixPath": Rec("PosixPath"), "Namespace": Rec("Namespace")}[kind]
    asked = [Rec("class Path_fr"), Rec("class Path_dw")][ctx.choose(2, "type_class")]
    return Setup(env={"value": value, "type_class": asked}, data=dict(kind=kind))


def ip_post(ctx, st, result):
    k = st.data["kind"]
    ctx.oblige("post", f"true-exactly-for-a-jsonargparse-Path(of any path type):a-str-or-pathlib-path-still-has-to-be-converted[{k}]", isinstance(result, bool) and result is (k in ("Path", "PathType")))


PT_MODES = ["fr", "rf", "dw", "drw", "f", "q!"]
STR_CLASS = ClassRef("str")


def pt_setup(ctx):
    mode = PT_MODES[ctx.choose(len(PT_MODES), "mode")]
    skip = ["omitted", "False", "True"][ctx.choose(3, "skip_check")]
    pre = ["registry empty", "same letters registered", "same letters registered with the other skip_check", "other modes registered"][ctx.choose(4, "registry")]
    unknown_kw = ctx.choose(2, "unknown-keyword") == 1
    valid = mode != "q!"
    sk = skip == "True"
    srt = "".join(sorted(mode))
    key = lambda s_: ("path " + srt + (" skip_check" if s_ else ""), STR_CLASS)  # noqa: E731
    existing = Rec("registered path class")
    registry = {"registry empty": {}, "same letters registered": {key(sk): existing}, "same letters registered with the other skip_check": {key(not sk): existing},
                "other modes registered": {("path dw" if srt != "dw" else "path fr", STR_CLASS): existing}}[pre]
    made = []

    def type_model(c, a, k):
        r = Rec("created class", attrs={"name": a[0], "bases": a[1], "ns": a[2]})
        made.append(r)
        return r

    def check_mode(c, a, k):
        c.event("check_mode", a[0])
        if a[0] == "q!":
            _raise("ValueError", "Path._check_mode")

    def gpk(c, a, k):
        data = a[0]
        out = [data.pop(n, dflt) for n, dflt in k.items()]
        if data:
            _raise("ValueError", "get_private_kwargs(unexpected keyword)")
        return out[0] if len(out) == 1 else out

    kwargs = {}
    if skip != "omitted":
        kwargs["skip_check"] = sk
    if unknown_kw:
        kwargs["follow"] = True
    calls = {"Path._check_mode": check_mode, "get_private_kwargs": gpk, "type": type_model, "path_skip_check_deprecation": lambda c, a, k: c.event("deprecation"),
             "add_type": lambda c, a, k: c.event("add_type", tuple(a), dict(k))}
    is_path_type = Rec("function _is_path_type")
    return Setup(env={"mode": mode, "docstring": "doc", "kwargs": kwargs}, calls=calls, consts={"registered_types": registry, "str": STR_CLASS, "_is_path_type": is_path_type},
                 data=dict(mode=mode, sk=sk, skip=skip, pre=pre, valid=valid, unknown_kw=unknown_kw, key=key(sk), existing=existing, registry=registry, reg0=dict(registry), made=made, ipt=is_path_type))


def pt_post(ctx, st, result):
    d = st.data
    tag = f"[mode={d['mode']},skip_check={d['skip']},{d['pre']}]"
    ctx.oblige("post", "returns-normally-only-for-a-valid-mode-and-known-keywords" + tag, d["valid"] and not d["unknown_kw"])
    ctx.oblige("post", "the-mode-is-validated-first" + tag, bool(ctx.events) and ctx.events[0] == ("check_mode", d["mode"]))
    adds = [e for e in ctx.events if e[0] == "add_type"]
    if d["pre"] == "same letters registered":
        ctx.oblige("post", "the-same-set-of-mode-letters(in any order)and-skip_check-gives-back-the-registered-class;no-second-class-is-created-or-registered" + tag,
                   result is d["existing"] and not d["made"] and not adds)
        return
    ok = len(d["made"]) == 1 and result is d["made"][0]
    core = None
    if ok:
        r = d["made"][0]
        name = "Path_" + d["mode"] + ("_skip_check" if d["sk"] else "")
        ok = r.attrs["name"] == name and isinstance(r.attrs["bases"], tuple) and len(r.attrs["bases"]) == 1 and r.attrs["ns"] == {"__doc__": "doc"}
        core = r.attrs["bases"][0] if ok else None
    ctx.oblige("post", "otherwise-exactly-one-new-class-named-Path_<mode>[_skip_check]-with-the-docstring-is-created-and-returned(another skip_check or mode is another type)" + tag, ok)
    if isinstance(core, Rec):
        b = core.attrs.get("__bases__")
        ok = isinstance(b, tuple) and len(b) == 1 and isinstance(b[0], ClassRef) and b[0].name == "Path" and core.attrs.get("_mode") == d["mode"] and core.attrs.get("_skip_check") is d["sk"] and core.attrs.get("_type") is STR_CLASS
        ok = ok and core.attrs.get("_expression") == result.attrs["name"] and isinstance(core.attrs.get("__init__"), Closure)
        ctx.oblige("post", "its-base-is-a-Path-subclass-carrying-the-mode-as-given,skip_check,str-as-base-type-and-its-own-__init__" + tag, ok)
    ok = len(adds) == 1 and len(adds[0][1]) == 2 and adds[0][1][0] is result and adds[0][2] == {"type_check": d["ipt"]}
    if ok:
        k = adds[0][1][1]
        ok = isinstance(k, tuple) and len(k) == 2 and k[0] == d["key"][0] and k[1] is STR_CLASS
    ctx.oblige("post", "the-new-class-is-registered-once-under(path+sorted letters[+skip_check],str)with-_is_path_type-as-type-check" + tag, ok)
    ctx.oblige("post", "skip_check-warns-about-its-deprecation,nothing-else-does" + tag, len([e for e in ctx.events if e[0] == "deprecation"]) == (1 if d["sk"] else 0))
    ctx.oblige("frame", "the-key-registry-is-written-only-through-add_type" + tag, d["registry"] == d["reg0"])


def pt_raises(ctx, st, exc):
    d = st.data
    tag = f"[mode={d['mode']},skip_check={d['skip']},{d['pre']},unknown-keyword={d['unknown_kw']}]"
    ctx.oblige("raises", f"refused=>ValueError,exactly-for-an-invalid-mode-or-an-unknown-keyword;no-class-created-or-registered(got {exc.cls})" + tag,
               exc.cls == "ValueError" and (not d["valid"] or d["unknown_kw"]) and not d["made"] and not [e for e in ctx.events if e[0] == "add_type"] and d["registry"] == d["reg0"])


# ================================================================================================ object_path_serializer / get_module_var_path
OP_GIP = ["path", "ValueError", "AttributeError"]
OP_IMP = ["the very object", "another object", "ModuleNotFoundError", "AttributeError", "ValueError"]


def op_setup(ctx):
    gip = OP_GIP[ctx.choose(len(OP_GIP), "get_import_path")]
    imp = OP_IMP[ctx.choose(len(OP_IMP), "import_object")] if gip == "path" else None
    value = Rec("the object")
    path = z3.String("import path")

    def get_import_path(c, a, k):
        c.event("get_import_path", a[0])
        if gip != "path":
            _raise(gip, "get_import_path")
        return path

    def import_object(c, a, k):
        c.event("import_object", a[0])
        if imp in ("ModuleNotFoundError", "AttributeError", "ValueError"):
            _raise(imp, "import_object")
        return value if imp == "the very object" else Rec("another object of that path")

    return Setup(env={"value": value}, calls={"get_import_path": get_import_path, "import_object": import_object}, data=dict(gip=gip, imp=imp, value=value, path=path))


def op_post(ctx, st, result):
    d = st.data
    tag = f"[get_import_path:{d['gip']},import_object:{d['imp']}]"
    ctx.oblige("post", "a-path-is-returned-only-if-importing-it-gives-the-very-object-back(the serialized form re-imports to the same object)" + tag, d["gip"] == "path" and d["imp"] == "the very object")
    ctx.oblige("post", "the-path-is-the-object's-import-path,checked-by-importing-exactly-that-path" + tag,
               result is d["path"] and ctx.events == [("get_import_path", d["value"]), ("import_object", d["path"])])


def op_raises(ctx, st, exc):
    d = st.data
    tag = f"[get_import_path:{d['gip']},import_object:{d['imp']}]"
    ctx.oblige("raises", f"every-failure-is-a-ValueError(got {exc.cls})" + tag, exc.cls == "ValueError" and not exc.origin.startswith(("get_import_path", "import_object")))
    ctx.oblige("raises", "never-for-an-object-that-re-imports-to-itself" + tag, not (d["gip"] == "path" and d["imp"] == "the very object"))
    if d["imp"] != "another object":
        ctx.oblige("raises", "chained-to-the-original-failure" + tag, isinstance(exc.cause, ExcVal) and exc.cause.cls == (d["imp"] or d["gip"]))


MV_WHERE = ["absent", "first", "last", "after an equal but different object", "twice"]


def mv_setup(ctx):
    where = MV_WHERE[ctx.choose(len(MV_WHERE), "value-in-module")]
    module_path = z3.String("module_path")
    value = Rec("the value")
    twin = Rec("an equal object", methods={"__eq__": lambda c, s_, a, k: True})
    value.methods["__eq__"] = lambda c, s_, a, k: a[0] is value or a[0] is twin
    other = Rec("another object")
    names = {"absent": [("a", other), ("b", twin)], "first": [("v", value), ("a", other)], "last": [("a", other), ("b", None), ("v", value)],
             "after an equal but different object": [("b", twin), ("v", value)], "twice": [("a", other), ("v", value), ("w", value)]}[where]
    module = Rec("module", attrs={"__dict__": dict(names)})
    calls = {"import_module": lambda c, a, k: (c.event("import_module", a[0]), module)[1]}
    return Setup(env={"module_path": module_path, "value": value}, calls=calls, data=dict(where=where, module_path=module_path, module=module, names=dict(names)), watch={"module_path": module_path})


def mv_post(ctx, st, result):
    d = st.data
    tag = f"[{d['where']}]"
    if d["where"] == "absent":
        ctx.oblige("post", "None-when-no-variable-of-the-module-is-the-value(an equal object does not count)" + tag, result is None)
    else:
        ctx.oblige("post", "module_path.NAME-of-the-first-variable-that-is-the-very-value(identity,not equality)" + tag, is_z3(result) and result == z3.Concat(d["module_path"], z3.StringVal(".v")))
    ctx.oblige("post", "exactly-the-module-named-is-imported,once" + tag, ctx.events == [("import_module", d["module_path"])])
    ctx.oblige("frame", "the-module's-variables-are-not-modified" + tag, d["module"].attrs["__dict__"] == d["names"])


# ================================================================================================ models shared by range / timedelta
# Decimal texts.  ASCII digits only (Python's \d and int()/float() also take other Unicode decimal digits: outside the model, see `trusted`).
DIGITS = z3.Plus(z3.Range("0", "9"))
INT_TXT = z3.Concat(z3.Option(z3.Re("-")), DIGITS)                      # -?[0-9]+
int_txt_ok = z3.Function("int(str).ok", S, B)
int_txt_val = z3.Function("int(str)", S, I)
PY_WS = "".join(chr(i) for i in range(0x3001) if chr(i).isspace())   # str.isspace(): 29 code points
WS1 = z3.Union(*[z3.Re(c) for c in PY_WS])
WS = z3.Star(WS1)
ANY1 = z3.AllChar(z3.ReSort(S))
NONWS1 = z3.Intersect(ANY1, z3.Complement(WS1))


def _fork(ctx, cond, label):
    """ctx.branch, except that (a) a condition that is literally a hypothesis of the path is not forked on, (b) in scenarios over arbitrary
    strings (ctx.ghost['no-prune']) both sides are taken without asking z3 whether they are feasible - they are, and finding string models is what
    makes generation slow; an infeasible side would only add obligations with inconsistent hypotheses."""
    if isinstance(cond, bool):
        return cond
    cond = z3.simplify(cond)
    if z3.is_true(cond) or z3.is_false(cond):
        return z3.is_true(cond)
    for h in ctx.pc:
        if is_z3(h) and (h.eq(cond) or (z3.is_or(cond) and any(h.eq(x) for x in cond.children()))):
            return True
    if not ctx.ghost.get("no-prune"):
        return ctx.branch(cond, label)
    pick = ctx.choose(2, label)
    ctx.assume(cond if pick == 0 else z3.Not(cond))
    return pick == 0


def dec(n):
    """str(n) of an integer term (SMT-LIB str.from_int is defined for naturals only)."""
    return z3.If(n >= 0, z3.IntToStr(n), z3.Concat(z3.StringVal("-"), z3.IntToStr(-n)))


def int_of_txt(s):
    """The integer a text in -?[0-9]+ spells (leading zeros and -0 allowed), in SMT-LIB terms."""
    return z3.If(z3.PrefixOf(z3.StringVal("-"), s), -z3.StrToInt(z3.SubString(s, 1, z3.Length(s) - 1)), z3.StrToInt(s))


def int_model(ctx, args, kwargs):
    """int(x): exact on -?[0-9]+; elsewhere an unknown partial function raising ValueError outside its domain (trusted)."""
    (x,) = args
    if is_z3(x) and x.sort() == I:
        return x
    if isinstance(x, int):
        return int(x)
    if not (is_z3(x) and x.sort() == S):
        raise Unsupported("int() of this value")
    plain = z3.InRe(x, INT_TXT)
    if not _fork(ctx, z3.Or(plain, int_txt_ok(x)), "int(str)-ok"):
        _raise("ValueError", "int(str)")
    return z3.If(plain, int_of_txt(x), int_txt_val(x))


def strip_model(ctx, value):
    """str.strip(): exact (white space = str.isspace(), 29 code points): value == pre + result + post, pre/post white space only, the result neither
    starts nor ends with white space.  A non-string has no strip: AttributeError."""
    if not (is_z3(value) and value.sort() == S):
        _raise("AttributeError", "value.strip(not a str)")
    n = z3.Length(value)
    untouched = z3.Or(value == z3.StringVal(""), z3.And(z3.Not(z3.InRe(z3.SubString(value, 0, 1), WS1)), z3.Not(z3.InRe(z3.SubString(value, n - 1, 1), WS1))))
    if _fork(ctx, untouched, "strip-is-a-no-op"):
        ctx.ghost["strip"] = (z3.StringVal(""), value, z3.StringVal(""))
        return value
    pre, r, post = ctx.fresh("strip.pre", S), ctx.fresh("strip.result", S), ctx.fresh("strip.post", S)
    ctx.assume(value == z3.Concat(pre, r, post))
    m = z3.Length(r)
    ctx.assume(z3.And(z3.InRe(pre, WS), z3.InRe(post, WS), z3.Or(r == z3.StringVal(""), z3.And(z3.Not(z3.InRe(z3.SubString(r, 0, 1), WS1)), z3.Not(z3.InRe(z3.SubString(r, m - 1, 1), WS1))))))
    ctx.ghost["strip"] = (pre, r, post)
    return r


class _CharSet:
    def __init__(self, neg, chars):
        self.neg, self.chars = neg, frozenset(chars)

    def disjoint(self, other):
        if not self.neg and not other.neg:
            return not (self.chars & other.chars)
        if self.neg and other.neg:
            return False
        pos, neg = (other, self) if self.neg else (self, other)
        return pos.chars <= neg.chars

    def lang(self):
        parts, run = [], []
        for c in sorted(self.chars) + [None]:
            if run and (c is None or ord(c) != ord(run[-1]) + 1):
                parts.append(z3.Range(run[0], run[-1]) if len(run) > 1 else z3.Re(run[0]))
                run = []
            if c is not None:
                run.append(c)
        r = z3.Union(*parts) if len(parts) > 1 else (parts[0] if parts else z3.Empty(z3.ReSort(S)))
        return z3.Intersect(ANY1, z3.Complement(r)) if self.neg else r


def _charset(op, av):
    import re._constants as sc
    cats = {sc.CATEGORY_DIGIT: "0123456789", sc.CATEGORY_SPACE: " \t\n\r\f\v", sc.CATEGORY_WORD: "abcdefghijklmnopqrstuvwxyzABCDEFGHIJKLMNOPQRSTUVWXYZ0123456789_"}
    if op is sc.LITERAL:
        return _CharSet(False, chr(av))
    if op is sc.NOT_LITERAL:
        return _CharSet(True, chr(av))
    if op is sc.ANY:
        return _CharSet(True, "\n")
    if op is sc.IN:
        neg, chars = False, set()
        for o, a in av:
            if o is sc.NEGATE:
                neg = True
            elif o is sc.LITERAL:
                chars.add(chr(a))
            elif o is sc.RANGE:
                if a[1] - a[0] > 512:
                    raise Unsupported("regex model: wide character range")
                chars.update(chr(c) for c in range(a[0], a[1] + 1))
            elif o is sc.CATEGORY and a in cats:
                chars.update(cats[a])
            else:
                raise Unsupported(f"regex model: class item {o} {a}")
        return _CharSet(neg, chars)
    return None


def _atoms(seq, group, out):
    """Flatten a parsed pattern into atoms (charset, lo, hi, group index or None); only the deterministic fragment is accepted."""
    import re._constants as sc
    for op, av in seq:
        cs = _charset(op, av)
        if cs is not None:
            out.append((cs, 1, 1, group))
        elif op in (sc.MAX_REPEAT, sc.MIN_REPEAT):
            lo, hi, sub = av
            sub = list(sub)
            cs = _charset(*sub[0]) if len(sub) == 1 else None
            if cs is None:
                raise Unsupported("regex model: repeat of something else than one character class")
            out.append((cs, lo, None if hi is sc.MAXREPEAT else hi, group))
        elif op is sc.SUBPATTERN:
            if group is not None or av[0] is None:
                raise Unsupported("regex model: nested / non-capturing group")
            _atoms(av[3], av[0], out)
        else:
            raise Unsupported(f"regex model: construct {op}")


def _atom_lang(a):
    cs, lo, hi, _ = a
    r = cs.lang()
    if (lo, hi) == (1, 1):
        return r
    if hi is None:
        return z3.Star(r) if lo == 0 else (z3.Plus(r) if lo == 1 else z3.Concat(z3.Loop(r, lo, lo), z3.Star(r)))
    return z3.Option(r) if (lo, hi) == (0, 1) else z3.Loop(r, lo, hi)


def match_model(ctx, pattern, s, label, full=False):
    """re.match(pattern, s) / compiled.match(s) for the *deterministic* fragment: a sequence of characters, character classes and repeats of one
    class, in capture groups or not, where no repeated class can also begin what may follow it (checked here on the concrete pattern; anything else is
    Unsupported -> undecided).  In this fragment a string has at most one parse, so greedy matching plays no role except before a free tail, where the
    last repeat takes every character of its class.  Returns None (no match) or a Match record whose groups are fresh strings tied to s by
    s == piece1 ++ ... ++ pieceN [++ one newline before `$`] [++ tail].  The match / no match decision is membership in the pattern's language."""
    import re._constants as sc
    import re._parser as sp
    if not isinstance(pattern, str):
        raise Unsupported("regex model: symbolic pattern")
    if not (is_z3(s) and s.sort() == S):
        _raise("TypeError", "re.match(not a str)")
    tree = sp.parse(pattern)
    items = list(tree)
    anchored_end = False
    if items and items[0][0] is sc.AT and items[0][1] in (sc.AT_BEGINNING, sc.AT_BEGINNING_STRING):
        items = items[1:]
    if items and items[-1][0] is sc.AT and items[-1][1] is sc.AT_END:
        items, anchored_end = items[:-1], True
    if any(op is sc.AT for op, _ in items):
        raise Unsupported("regex model: anchor inside the pattern")
    atoms = []
    _atoms(items, None, atoms)
    ends = []   # classes of the repeats that can be the last thing matched
    for i, (cs, lo, hi, _) in enumerate(atoms):
        if lo == hi:
            continue
        j = i + 1
        while j < len(atoms):
            if not cs.disjoint(atoms[j][0]):
                raise Unsupported(f"regex model: repeat #{i} of {pattern!r} can also begin what follows it (ambiguous parse)")
            if atoms[j][1] > 0:
                break
            j += 1
        if j == len(atoms):
            if anchored_end and not cs.disjoint(_CharSet(False, "\n")):
                raise Unsupported("regex model: repeat before $ can take the newline")
            ends.append(cs)
    whole = [_atom_lang(a) for a in atoms]
    lang = z3.Concat(*whole) if len(whole) > 1 else (whole[0] if whole else z3.Re(""))
    if full:  # re.fullmatch: the whole string is in the language (no free tail; `$` alone would still admit one trailing newline)
        lang = z3.Concat(lang, z3.Option(z3.Re("\n"))) if anchored_end else lang
    else:
        lang = z3.Concat(lang, z3.Option(z3.Re("\n"))) if anchored_end else z3.Concat(lang, z3.Star(ANY1))
    if not _fork(ctx, z3.InRe(s, lang), label):
        return None
    # the parse: maximal runs of atoms of the same group become one piece
    pieces, groups = [], {}
    i = 0
    while i < len(atoms):
        g = atoms[i][3]
        j = i
        while j < len(atoms) and atoms[j][3] == g:
            j += 1
        run = atoms[i:j]
        is_lit = lambda a: a[1] == a[2] == 1 and not a[0].neg and len(a[0].chars) == 1  # noqa: E731
        if g is None and not all(is_lit(a) for a in run):
            # outside groups: literal stretches stay literal, every other atom is a piece of its own
            j = i + 1
            while is_lit(atoms[i]) and j < len(atoms) and atoms[j][3] is None and is_lit(atoms[j]):
                j += 1
            run = atoms[i:j]
        if g is None and all(is_lit(a) for a in run):
            piece = z3.StringVal("".join(next(iter(a[0].chars)) for a in run))
        else:
            piece = ctx.fresh(f"group{g}" if g is not None else "piece", S)
            ls = [_atom_lang(a) for a in run]
            ctx.assume(z3.InRe(piece, z3.Concat(*ls) if len(ls) > 1 else ls[0]))
        if g is not None:
            groups[g] = piece
            ctx.ghost.setdefault("atoms", {})[piece.get_id()] = run
        nxt = atoms[i + len(run)] if i + len(run) < len(atoms) else None
        if not z3.is_string_value(piece) and not any(a[0].neg for a in run) and nxt is not None and is_lit(nxt):
            # a consequence of the membership, computed on the concrete classes (the solvers do not find it by themselves): the piece does not hold
            # the literal character that follows it in the pattern (the fragment check above made sure that no class of the piece admits it)
            sep = next(iter(nxt[0].chars))
            if sep not in set().union(*[a[0].chars for a in run]):
                ctx.assume(z3.Not(z3.Contains(piece, z3.StringVal(sep))))
        pieces.append(piece)
        i = i + len(run)
    matched = z3.Concat(*pieces) if len(pieces) > 1 else (pieces[0] if pieces else z3.StringVal(""))
    if anchored_end:
        nl = ctx.fresh("newline-before-$", S)
        ctx.assume(z3.Or(nl == z3.StringVal(""), nl == z3.StringVal("\n")))
        ctx.assume(s == z3.Concat(matched, nl))
    elif full:
        tail = z3.StringVal("")
        ctx.assume(s == matched)
        groups["tail"] = tail
    else:
        tail = ctx.fresh("unmatched-tail", S)
        ctx.assume(s == z3.Concat(matched, tail))
        for cs in ends:
            ctx.assume(z3.InRe(tail, z3.Union(z3.Re(""), z3.Concat(z3.Intersect(ANY1, z3.Complement(cs.lang())), z3.Star(ANY1)))))
        groups["tail"] = tail
    names = dict(tree.state.groupdict)
    n_groups = tree.state.groups - 1
    if set(groups) - {"tail"} != set(range(1, n_groups + 1)):
        raise Unsupported("regex model: group numbering")

    def item(c, s_, a, k):
        idx = names.get(a[0], a[0]) if a else 0
        if idx == 0:
            return matched
        if idx not in groups or idx == "tail":
            _raise("IndexError", "no such group")
        return groups[idx]

    m = Rec("Match", methods={"__getitem__": item, "group": item, "groupdict": lambda c, s_, a, k: {n: groups[i] for n, i in names.items()},
                              "groups": lambda c, s_, a, k: tuple(groups[i] for i in range(1, n_groups + 1))})
    m.attrs["$groups"], m.attrs["$tail"], m.attrs["$pattern"], m.attrs["$pieces"] = groups, groups.get("tail"), pattern, pieces
    m.attrs["$end-classes"] = [cs.lang() for cs in ends]
    ctx.ghost.setdefault("matches", []).append(m)
    return m


def module_patterns(names):
    """The regex literals the module compiles under these names (read from the repo source, so that a changed pattern is seen)."""
    import ast
    from pyvc.units import load_module
    _, tree, _ = load_module("jsonargparse.typing")
    out = {}
    for node in tree.body:
        if isinstance(node, ast.Assign) and isinstance(node.value, ast.Call) and ast.unparse(node.value.func) == "re.compile" and node.targets[0].id in names:
            out[node.targets[0].id] = node.value.args[0].value
    return out


def compiled(name, pattern):
    return Rec("Pattern", attrs={"pattern": pattern}, methods={"match": lambda c, s_, a, k: match_model(c, pattern, a[0], f"{name}-matches")})


# ================================================================================================ range_serializer / range_deserializer
def _range(a, b, c):
    return Rec("range", attrs={"start": a, "stop": b, "step": c})


def _denotes(text, a, b, c):
    """`text` is Python's range notation (canonical spacing) for exactly (start, stop, step)."""
    p = z3.StringVal
    return z3.Or(z3.And(text == z3.Concat(p("range("), dec(b), p(")")), a == 0, c == 1),
                 z3.And(text == z3.Concat(p("range("), dec(a), p(", "), dec(b), p(")")), c == 1),
                 text == z3.Concat(p("range("), dec(a), p(", "), dec(b), p(", "), dec(c), p(")")))


def rs_setup(ctx):
    a, b, c = z3.Int("start"), z3.Int("stop"), z3.Int("step")
    ctx.assume(c != 0)   # invariant of range objects
    value = _range(a, b, c)
    return Setup(env={"value": value}, data=dict(abc=(a, b, c), value=value), watch={"start": a, "stop": b, "step": c})


def rs_post(ctx, st, result):
    a, b, c = st.data["abc"]
    ctx.oblige("post", "the-text-is-range-notation-denoting-exactly(start,stop,step):an-omitted-start-is-0,an-omitted-step-is-1", is_z3(result) and result.sort() == S and _denotes(result, a, b, c))
    ctx.oblige("frame", "the-range-is-not-modified", st.data["value"].attrs == {"start": a, "stop": b, "step": c})
    for nm, n in (("start", a), ("stop", b), ("step", c)):
        ctx.oblige("lemma", f"the-decimal-text-written-for-{nm}-spells-{nm}(what the deserializer's unit starts from)", int_of_txt(dec(n)) == n)


RD_KINDS = ["range(STOP)", "range(START, STOP)", "range(START, STOP, STEP)", "any string", "not a string"]
RANGE_NAMES = ("re_range_stop", "re_range_start_stop", "re_range_start_stop_step")


def squeeze_hook(pieces_of):
    """after_stmt hook: a local that holds X.replace(' ', '') (SMT-LIB str.replace_all) of a text X whose make-up the scenario knows is rewritten
    piecewise - removing a character from a concatenation removes it from every piece (trusted) - after *proving* (cut lemmas, refutable) that X is
    that concatenation and that the symbolic pieces hold no blank.  Without a known make-up the native operator stays."""
    def hook(ctx, interp, stmt, env):
        pieces = pieces_of(ctx)
        if not pieces:
            return
        for name, v in list(env.vars.items()):
            if is_z3(v) and v.sort() == S and v.decl().kind() == z3.Z3_OP_SEQ_REPLACE_ALL and z3.is_string_value(v.arg(1)) and v.arg(1).as_string() == " " and z3.is_string_value(v.arg(2)) and v.arg(2).as_string() == "":
                x = v.arg(0)
                whole = z3.Concat(*[lift(q) for q in pieces]) if len(pieces) > 1 else lift(pieces[0])
                ctx.oblige("lemma", f"the-text-between-the-parentheses-is-what-the-serializer-wrote-there@{stmt.lineno}", x == whole)
                ctx.assume(x == whole)
                out = []
                for q in pieces:
                    if isinstance(q, str):
                        out.append(z3.StringVal(q.replace(" ", "")))
                    else:
                        ctx.assume(z3.Implies(z3.InRe(q, INT_TXT), z3.Not(z3.Contains(q, z3.StringVal(" ")))))   # instance of the lemma proved in setup
                        out.append(q)
                env.set(name, z3.Concat(*out) if len(out) > 1 else out[0])
    return hook


def rd_setup(ctx):
    kind = RD_KINDS[ctx.choose(len(RD_KINDS), "value-is")]
    # the canonical texts are parametrised by the decimal texts of the three integers: ANY texts in -?[0-9]+, which is where str(int) lies
    # (range_serializer's unit proves that it writes str(start), str(stop), str(step) there and that str(n) spells n)
    sa, sb, sc_ = z3.String("str(start)"), z3.String("str(stop)"), z3.String("str(step)")
    x0 = ctx.fresh("any text", S)   # proved once for an arbitrary text while the path has no other hypotheses; instantiated where needed
    for ch, word in ((",", "comma"), (" ", "blank")):
        ctx.oblige("lemma", f"a-text-in--?[0-9]+-holds-no-{word}", z3.Implies(z3.InRe(x0, INT_TXT), z3.Not(z3.Contains(x0, z3.StringVal(ch)))), strings=True)
    for t in (sa, sb, sc_):
        ctx.assume(z3.InRe(t, INT_TXT))
    if kind == "any string":
        ctx.ghost["no-prune"] = True
    p = z3.StringVal
    pieces = {"range(STOP)": [sb], "range(START, STOP)": [sa, ", ", sb], "range(START, STOP, STEP)": [sa, ", ", sb, ", ", sc_]}.get(kind)
    if kind == "not a string":
        value = z3.Int("value")
    elif kind == "any string":
        value = z3.String("value")
    else:
        value = z3.Concat(p("range("), *[lift(q) for q in pieces], p(")"))
    pats = module_patterns(RANGE_NAMES)

    def mk_range(c_, args, k):
        if not (1 <= len(args) <= 3) or not all(is_z3(x) and x.sort() == I or isinstance(x, int) for x in args):
            _raise("TypeError", "range(not 1-3 integers)")
        xs = [lift(x) for x in args]
        if len(xs) == 3 and _fork(c_, xs[2] == 0, "range-step-is-zero"):
            _raise("ValueError", "range(step 0)")
        return _range(*({1: (z3.IntVal(0), xs[0], z3.IntVal(1)), 2: (xs[0], xs[-1], z3.IntVal(1)), 3: tuple(xs)}[len(xs)]))

    calls = {"value.strip": lambda c_, a_, k: strip_model(c_, value), "int": int_model, "range": mk_range}
    consts = {n: compiled(n, pats[n]) for n in RANGE_NAMES if n in pats}
    return Setup(env={"value": value}, calls=calls, consts=consts, hooks={"after_stmt": squeeze_hook(lambda c_: pieces)}, data=dict(kind=kind, texts=(sa, sb, sc_), value=value),
                 watch={"value": value, "str(start)": sa, "str(stop)": sb, "str(step)": sc_})


def _cut_groups(ctx, d, tag):
    """Round-trip scenarios: the groups of the last successful match are the decimal texts the scenario put there (cut lemma: proved, then used)."""
    ms = ctx.ghost.get("matches", [])
    texts = {"range(STOP)": d["texts"][1:2], "range(START, STOP)": d["texts"][:2], "range(START, STOP, STEP)": d["texts"]}.get(d["kind"])
    if not ms or texts is None:
        return
    g = ms[-1].attrs["$groups"]
    gs = [g[i] for i in sorted(k for k in g if isinstance(k, int))]
    if len(gs) != len(texts):
        return
    for x in list(texts) + gs:   # instances of the lemma of rd_setup (the solvers need to be told where to look: the separators do not occur inside the numbers)
        ctx.assume(z3.Implies(z3.InRe(x, INT_TXT), z3.Not(z3.Contains(x, z3.StringVal(",")))))
    for n, (x, y) in enumerate(zip(gs, texts)):   # one at a time, left to right: each step lets the solver cancel a longer common prefix
        ctx.oblige("lemma", f"group-{n + 1}-of-the-match-is-the-decimal-text-the-serializer-wrote-at-position-{n + 1}" + tag, x == y, strings=True)
        ctx.assume(x == y)


def rd_post(ctx, st, result):
    d = st.data
    sa, sb, sc_ = d["texts"]
    kind = d["kind"]
    tag = f"[{kind}]"
    ok = isinstance(result, Rec) and result.cls == "range" and all(is_z3(result.attrs.get(k)) for k in ("start", "stop", "step"))
    ctx.oblige("post", "the-result-is-a-range" + tag, ok)
    if not ok:
        return
    r = result.attrs
    if kind == "not a string":
        ctx.oblige("post", "a-value-that-is-not-text-is-not-accepted" + tag, False)
        return
    if kind != "any string":
        _cut_groups(ctx, d, tag)
        a, b, c = int_of_txt(sa), int_of_txt(sb), int_of_txt(sc_)
        want = {"range(STOP)": (z3.IntVal(0), b, z3.IntVal(1)), "range(START, STOP)": (a, b, z3.IntVal(1)), "range(START, STOP, STEP)": (a, b, c)}[kind]
        ctx.oblige("post", "round-trip:the-canonical-text-of(start,stop,step)-gives-exactly-that-range-back(every integer:negative,zero,step 1 and -1)" + tag,
                   z3.And(r["start"] == want[0], r["stop"] == want[1], r["step"] == want[2]))
        return
    # any string: accepted => it is range(INT[,INT[,INT]]) up to blanks, and the result is the range the text denotes
    pre, t, post = ctx.ghost.get("strip", (None, None, None))
    ms = [m for m in ctx.ghost.get("matches", [])]
    if t is None or not ms:
        ctx.oblige("post", "accepted=>the-text-was-matched-against-the-range-syntax" + tag, False)
        return
    g = ms[-1].attrs["$groups"]
    gs = [g[i] for i in sorted(k for k in g if isinstance(k, int))]
    value = d["value"]
    from pyvc.engine import _mk_replace_all
    squeezed = _mk_replace_all(z3.SubString(t, 6, z3.Length(t) - 7), z3.StringVal(" "), z3.StringVal(""))
    joined = gs[0]
    for x in gs[1:]:
        joined = z3.Concat(joined, z3.StringVal(","), x)
    ctx.oblige("post", "accepted=>up-to-surrounding-white-space-the-text-is-range(...)" + tag,
               z3.And(value == z3.Concat(pre, t, post), z3.InRe(pre, WS), z3.InRe(post, WS), z3.PrefixOf(z3.StringVal("range("), t), z3.SuffixOf(z3.StringVal(")"), t), z3.Length(t) >= 7))
    ctx.oblige("post", "accepted=>between-the-parentheses,blanks-removed,stand-one-to-three-integers-separated-by-commas" + tag,
               z3.And(1 <= len(gs), len(gs) <= 3, z3.Or(squeezed == joined, squeezed == z3.Concat(joined, z3.StringVal("\n"))), *[z3.InRe(x, INT_TXT) for x in gs]))
    vals = [int_of_txt(x) for x in gs]
    want = {1: (z3.IntVal(0), vals[0], z3.IntVal(1)), 2: (vals[0], vals[-1], z3.IntVal(1)), 3: tuple(vals)}.get(len(gs))
    if want is not None:
        ctx.oblige("post", "accepted=>the-result-is-the-range-these-integers-denote:(stop)|(start,stop)|(start,stop,step),never-a-different-value" + tag,
                   z3.And(r["start"] == want[0], r["stop"] == want[1], r["step"] == want[2], r["step"] != 0))


RD_TRUSTED = ["str.strip(): exact model over the 29 str.isspace() code points; startswith/endswith/slicing/replace(' ','') are the SMT-LIB string operations; removing a character from a concatenation removes it from every piece",
              "compiled.match(s): membership in the pattern's language, pattern literals read from the repo source; groups by the unique parse of the deterministic fragment (match_model checks the fragment on the concrete pattern); `$` also matches before one trailing newline",
              "\\d is [0-9] in the model; Python also takes other Unicode decimal digits there, and int() reads them as the same digits (not modelled)",
              "int(text) is exact on -?[0-9]+ (SMT-LIB str.to_int), an unknown partial function raising ValueError elsewhere (Python >= 3.11: also ValueError above 4300 digits)",
              "range(a[,b[,c]]) builds that range; ValueError for step 0",
              "str(int) is a text in -?[0-9]+ (assumed) that spells the integer (proved for SMT-LIB str.from_int in range_serializer's unit)"]


def rd_raises(ctx, st, exc):
    d = st.data
    kind = d["kind"]
    tag = f"[{kind}]"
    if kind == "not a string":
        ctx.oblige("raises", f"a-non-string-fails-with-an-exception-RegisteredType.deserializer-turns-into-ValueError(ValueError/TypeError/AttributeError);got {exc.cls}" + tag,
                   any(ctx.classes.is_subclass(exc.cls, x) for x in ("ValueError", "TypeError", "AttributeError")))
        return
    ctx.oblige("raises", f"text-outside-the-syntax-is-rejected-with-ValueError,never-another-class(got {exc.cls}@{exc.origin})" + tag, ctx.classes.is_subclass(exc.cls, "ValueError"))
    if kind in ("range(STOP)", "range(START, STOP)"):
        ctx.oblige("raises", "the-canonical-text-of-a-range-is-never-rejected" + tag, False)
    elif kind == "range(START, STOP, STEP)":
        _cut_groups(ctx, d, tag)
        ctx.oblige("raises", "the-canonical-text-is-rejected-only-for-step-0(not a range)" + tag, int_of_txt(d["texts"][2]) == 0)


# ================================================================================================ timedelta_deserializer
# Floats are modelled by the real number they hold.  float(text): exact for an integer text of magnitude <= 2**53; for DIGITS.DIGITS the nearest
# double, i.e. within relative error 2**-53 of the decimal value.  timedelta(days=, hours=, minutes=, seconds=) of such numbers: the sum, rounded to
# the nearest microsecond (CPython splits every float argument into its integer part - carried exactly in integers - and a fraction; the fractions
# are summed in a double and rounded half-even at the end: modelled as |result - exact sum| <= 1/2 + 1e-6 microseconds); OverflowError when the
# normalised day count leaves [-999999999, 999999999].  Both are assumptions about the standard library, listed in `trusted`.
float_txt_ok = z3.Function("float(str).ok", S, B)
float_txt_val = z3.Function("float(str)", S, R)
frac_val = z3.Function("fraction.value", S, R)
DIG = z3.Range("0", "9")
DIGITS0 = z3.Star(DIG)
SIGN = z3.Option(z3.Union(z3.Re("+"), z3.Re("-")))
FLOAT_PLAIN = z3.Concat(SIGN, z3.Union(z3.Concat(DIGITS, z3.Option(z3.Concat(z3.Re("."), DIGITS0))), z3.Concat(z3.Re("."), DIGITS)))   # float literals without exponent
FLOAT_CHARS = z3.Star(z3.Union(DIG, z3.Re("."), z3.Re("+"), z3.Re("-")))
TWO53 = 2 ** 53
US_DAY = 86400 * 10 ** 6


def _abs(x):
    return z3.If(x >= 0, x, -x)


def float_model(ctx, args, kwargs):
    (x,) = args
    if is_z3(x) and x.sort() == I:
        return Rec("float", attrs={"val": z3.ToReal(x)})
    if not (is_z3(x) and x.sort() == S):
        raise Unsupported("float() of this value")
    # what the text can look like is narrowed on the concrete character classes of the group it comes from (fewer forks, no solver needed)
    run = ctx.ghost.get("atoms", {}).get(x.get_id())
    chars = set().union(*[a[0].chars for a in run]) if run and not any(a[0].neg for a in run) else None
    digits = set("0123456789")
    nonempty = bool(run) and sum(a[1] for a in run) >= 1
    if chars is not None and nonempty and chars <= digits:
        shapes, ok = ["int"], True                                     # [0-9]+
    elif chars is not None and chars <= digits | {"-"}:
        shapes, ok = ["int"], z3.InRe(x, INT_TXT)                      # over [-0-9]: a float literal iff -?[0-9]+
    elif chars is not None and chars <= digits | {".", "+"} and run[0][1] >= 1 and run[0][0].chars <= digits:
        shapes, ok = ["int", "frac"], z3.InRe(x, z3.Concat(DIGITS, z3.Option(z3.Concat(z3.Re("."), DIGITS0))))   # starts with a digit, over [0-9.+]
    else:
        shapes, ok = ["int", "frac", "other"], z3.If(z3.InRe(x, FLOAT_CHARS), z3.InRe(x, FLOAT_PLAIN), float_txt_ok(x))
    if not _fork(ctx, ok, "float(str)-ok"):
        _raise("ValueError", "float(str)")
    r = ctx.fresh("float", R)
    if shapes == ["int"] or _fork(ctx, z3.InRe(x, INT_TXT), "float-of-an-integer-text"):
        v = z3.ToReal(int_of_txt(x))
        ctx.assume(z3.Implies(_abs(v) <= TWO53, r == v))
        ctx.assume(_abs(r - v) * TWO53 <= _abs(v))
        ctx.ghost.setdefault("floats", []).append((x, "int", None, None, r))
    elif shapes == ["int", "frac"] or _fork(ctx, z3.InRe(x, z3.Concat(DIGITS, z3.Re("."), DIGITS0)), "float-of-DIGITS.DIGITS"):
        a, b = ctx.fresh("float.int-part", S), ctx.fresh("float.fraction", S)
        ctx.assume(z3.And(x == z3.Concat(a, z3.StringVal("."), b), z3.InRe(a, DIGITS), z3.InRe(b, DIGITS0)))
        ctx.assume(z3.Not(z3.Contains(a, z3.StringVal("."))))   # (digits only)
        ctx.assume(z3.And(frac_val(b) >= 0, frac_val(b) < 1, z3.Implies(b == z3.StringVal(""), frac_val(b) == 0)))
        for k in range(1, 10):
            ctx.assume(z3.Implies(z3.Length(b) == k, frac_val(b) * 10 ** k == z3.ToReal(z3.StrToInt(b))))
        v = z3.ToReal(z3.StrToInt(a)) + frac_val(b)
        ctx.assume(_abs(r - v) * TWO53 <= _abs(v))
        ctx.ghost.setdefault("floats", []).append((x, "frac", a, b, r))
    else:
        ctx.assume(r == float_txt_val(x))
    return Rec("float", attrs={"val": r})


def _num(v):
    if isinstance(v, Rec) and v.cls == "float":
        return v.attrs["val"]
    if is_z3(v) and v.sort() == I:
        return z3.ToReal(v)
    if isinstance(v, (int, float)) and not isinstance(v, bool):
        return z3.RealVal(v)
    _raise("TypeError", "timedelta(unsupported type for a component)")


def timedelta_model(ctx, args, kwargs):
    names = ("days", "seconds", "microseconds", "milliseconds", "minutes", "hours", "weeks")
    factor = dict(days=US_DAY, seconds=10 ** 6, microseconds=1, milliseconds=1000, minutes=60 * 10 ** 6, hours=3600 * 10 ** 6, weeks=7 * US_DAY)
    given = dict(zip(names, args))
    for k, v in kwargs.items():
        if k not in names or k in given:
            _raise("TypeError", f"timedelta(unexpected keyword {k})")
        given[k] = v
    exact = z3.RealVal(0)
    for k, v in given.items():
        exact = exact + _num(v) * factor[k]
    total = ctx.fresh("timedelta.total-microseconds", I)
    ctx.assume(_abs(z3.ToReal(total) - exact) <= z3.RealVal("1000001/2000000"))
    days = ctx.fresh("timedelta.days", I)   # floor division by hand (linear)
    ctx.assume(z3.And(days * US_DAY <= total, total < (days + 1) * US_DAY))
    if _fork(ctx, z3.Or(days > 999999999, days < -999999999), "timedelta-out-of-range"):
        ctx.event("timedelta-out-of-range")
        _raise("OverflowError", "timedelta(days out of range)")
    ctx.event("timedelta", dict(given))
    return Rec("timedelta", attrs={"total_us": total, "given": dict(given)})


ARITH_MARKS = ("to_real", "str.to_int", "timedelta.", "float!", "fraction.value")


def _sliced(ctx, which):
    """Keep, in the obligation just emitted, only the hypotheses of one theory (fewer hypotheses: a stronger statement, so sound).  'strings': the
    word equations, memberships and containments; 'arith': everything numeric plus the equalities between texts (the cut lemmas already proved)."""
    ob = ctx.obligations[-1]
    def is_arith(h):
        s_ = h.sexpr()
        return any(m in s_ for m in ARITH_MARKS)
    def is_text_eq(h):
        return z3.is_eq(h) or (z3.is_and(h) and all(z3.is_eq(c) for c in h.children()))
    if which == "cut":   # for the equalities between pieces and parts: the positive facts about the texts only
        ob.hyps = [h for h in ob.hyps if not is_arith(h) and not (z3.is_not(h) and h.arg(0).decl().kind() == z3.Z3_OP_SEQ_IN_RE)]
    elif which == "strings":
        ob.hyps = [h for h in ob.hyps if not is_arith(h)]
    else:
        ob.hyps = [h for h in ob.hyps if is_arith(h) or (is_text_eq(h) and "str.++" not in h.sexpr().split(")")[0])]


TD_KINDS = ["H:MM:SS", "H:MM:SS.UUUUUU", "D days, H:MM:SS", "D days, H:MM:SS.UUUUUU", "any string", "not a string"]
DIG2, DIG6 = z3.Loop(DIG, 2, 2), z3.Loop(DIG, 6, 6)


def td_setup(ctx):
    kind = TD_KINDS[ctx.choose(len(TD_KINDS), "value-is")]
    p = z3.StringVal
    sd, sh, sm, ss, su, plural = z3.String("str(days)"), z3.String("hours"), z3.String("MM"), z3.String("SS"), z3.String("UUUUUU"), z3.String("plural-s")
    x0 = ctx.fresh("any text", S)
    for lang, nm, ch, word in ((INT_TXT, "-?[0-9]+", " ", "blank"), (DIGITS, "[0-9]+", ":", "colon"), (DIGITS, "[0-9]+", ".", "dot")):
        ctx.oblige("lemma", f"a-text-in-{nm}-holds-no-{word}", z3.Implies(z3.InRe(x0, lang), z3.Not(z3.Contains(x0, p(ch)))), strings=True)
    D, H, M, Sx, Ux = int_of_txt(sd), z3.StrToInt(sh), z3.StrToInt(sm), z3.StrToInt(ss), z3.StrToInt(su)
    want = None
    ctx.ghost["no-prune"] = True   # (the solvers decide which paths are possible, in parallel, when the obligations are discharged)
    if kind == "not a string":
        # (records, so that `"day" in value` has Python's answer for them: TypeError for an int, False for a list)
        value = [Rec("int", methods={"__contains__": lambda c, s_, a, k: _raise("TypeError", "'day' in 5")}), Rec("list", methods={"__contains__": lambda c, s_, a, k: False})][ctx.choose(2, "non-string")]
    elif kind == "any string":
        value = z3.String("value")
        ctx.ghost["no-prune"] = True
    else:
        # str(timedelta(days=D, seconds=3600H+60M+S, microseconds=U)) of a normalised duration, as datetime documents it (spec function; see `trusted`)
        with_days, with_us = kind.startswith("D days"), kind.endswith("UUUUUU")
        ctx.assume(z3.And(z3.InRe(sh, DIGITS), z3.InRe(sm, DIG2), z3.InRe(ss, DIG2)))
        ctx.assume(z3.And(H >= 0, M >= 0, Sx >= 0, H < 24, M < 60, Sx < 60))
        parts = [sh, p(":"), sm, p(":"), ss]
        total = (H * 3600 + M * 60 + Sx) * 10 ** 6
        if with_us:
            ctx.assume(z3.InRe(su, DIG6))
            ctx.assume(z3.And(Ux > 0, Ux < 10 ** 6, z3.Length(su) == 6))
            parts += [p("."), su]
            total = total + Ux
        if with_days:
            ctx.assume(z3.InRe(sd, INT_TXT))
            ctx.assume(z3.Or(plural == p(""), plural == p("s")))
            ctx.assume(z3.And(D != 0, D <= 999999999, D >= -999999999, (plural == p("")) == z3.Or(D == 1, D == -1)))
            parts = [sd, p(" day"), plural, p(", ")] + parts
            total = total + D * US_DAY
        value = z3.Concat(*parts)
        want = total
        ctx.ghost["parts"] = parts
        if not with_days:
            # `"day" in value` is false here: proved once, then used, so that the branch is not explored
            ctx.oblige("lemma", "H:MM:SS[.UUUUUU]-does-not-contain-'day'" + f"[{kind}]", z3.Not(z3.Contains(value, p("day"))), strings=True)
            _sliced(ctx, "strings")
            ctx.assume(z3.Not(z3.Contains(value, p("day"))))
    return Setup(env={"value": value}, calls={"re.match": lambda c, a, k: match_model(c, a[0], a[1], "pattern-matches"), "re.fullmatch": lambda c, a, k: match_model(c, a[0], a[1], "pattern-matches", full=True), "float": float_model, "int": int_model, "timedelta": timedelta_model},
                 data=dict(kind=kind, value=value, want=want, texts=dict(days=sd, hours=sh, minutes=sm, seconds=ss, us=su, plural=plural)),
                 watch={"value": value} if is_z3(value) else {})


def _td_cut(ctx, d, tag):
    """Round trips: the groups matched are the texts str(timedelta) wrote (cut lemmas, left to right), then the parts float() saw."""
    ms = ctx.ghost.get("matches", [])
    if not ms:
        return
    t, m = d["texts"], ms[-1]
    d = dict(d, parts=ctx.ghost.get("parts", []))
    g, names = m.attrs["$groups"], m.methods["groupdict"](ctx, m, (), {})
    p = z3.StringVal
    for x, ch in ((t["days"], " "), (t["hours"], ":"), (t["minutes"], ":"), (t["seconds"], "."), (t["seconds"], ":")):
        lang = INT_TXT if ch == " " else DIGITS
        ctx.assume(z3.Implies(z3.InRe(x, lang), z3.Not(z3.Contains(x, p(ch)))))   # instances of the lemmas proved in setup
    with_days, with_us = d["kind"].startswith("D days"), d["kind"].endswith("UUUUUU")
    parts, pieces = d["parts"], m.attrs["$pieces"]
    for k, piece in enumerate(pieces):
        if k >= len(parts):
            break
        if k == len(pieces) - 1:
            if m.attrs["$tail"] is None:
                break
            rest = z3.Concat(*parts[k:]) if len(parts) - k > 1 else parts[k]
            tail_ = m.attrs["$tail"]
            if len(m.attrs["$end-classes"]) == 1:
                # stepping stones for the solvers: what is left of the text is the last piece plus the tail; it consists of characters of the class
                # the last repeat takes; so does the tail then (a suffix: proved for arbitrary strings, without hypotheses) - but a non-empty tail
                # begins with a character outside that class
                cstar = z3.Star(m.attrs["$end-classes"][0])
                f = rest == z3.Concat(piece, tail_)
                ctx.oblige("lemma", "what-is-left-of-the-text-is-the-last-piece-and-the-unmatched-tail" + tag, f, strings=True)
                _sliced(ctx, "cut")
                ctx.assume(f)
                ctx.oblige("lemma", "what-is-left-of-the-text-consists-of-characters-the-last-repeat-takes" + tag, z3.InRe(rest, cstar))
                ctx.obligations[-1].hyps = [h for h in ctx.obligations[-1].hyps if "!" not in h.sexpr() and not any(m_ in h.sexpr() for m_ in ARITH_MARKS)]   # the scenario's own facts suffice
                ctx.assume(z3.InRe(rest, cstar))
                x0, y0, z0 = ctx.fresh("any prefix", S), ctx.fresh("any suffix", S), ctx.fresh("any text", S)
                ctx.oblige("lemma", "a-suffix-of-a-text-over-a-character-class-is-a-text-over-that-class" + tag, z3.Implies(z3.And(z0 == z3.Concat(x0, y0), z3.InRe(z0, cstar)), z3.InRe(y0, cstar)), strings=True)
                ctx.obligations[-1].hyps = []
                ctx.assume(z3.InRe(tail_, cstar))   # (the instance for: what is left, the last piece, the tail - with the two facts just proved)
            # (which solver goes first: cvc5 is quick when float() went through, z3 on the paths where float() refused a text)
            ctx.oblige("lemma", "nothing-is-left-unmatched" + tag, m.attrs["$tail"] == p(""), strings=len(ctx.ghost.get("floats", [])) >= (4 if with_days else 3))
            _sliced(ctx, "cut")
            ctx.assume(m.attrs["$tail"] == p(""))
            goal = piece == rest
            ctx.oblige("lemma", "the-last-piece-matched-is-SS[.UUUUUU]" + tag, goal, strings=True)
        elif z3.is_string_value(piece):
            if not (z3.is_string_value(parts[k]) and parts[k].as_string() == piece.as_string()):
                break
            continue
        else:
            goal = piece == parts[k]
            ctx.oblige("lemma", f"piece-{k + 1}-of-the-match-is-part-{k + 1}-of-the-text-str(timedelta)-wrote" + tag, goal, strings=True)
        _sliced(ctx, "cut")
        ctx.assume(goal)
    for x, shape, a, b, r in ctx.ghost.get("floats", []):
        if shape == "frac" and with_us:
            ctx.oblige("lemma", "float()-saw-SS-before-and-UUUUUU-after-the-dot" + tag, z3.And(a == t["seconds"], b == t["us"]), strings=True)
            _sliced(ctx, "strings")
            ctx.assume(z3.And(a == t["seconds"], b == t["us"]))


def _td_slice(ctx, d, overflow):
    """Which theory decides the final obligation of a round-trip path: a path on which float() took the seconds for an integer text although
    microseconds were written (or the other way round), or on which a text was not a number, is impossible by the strings alone; otherwise the numbers decide."""
    with_us = d["kind"].endswith("UUUUUU")
    shape = ctx.ghost.get("floats", [(None, None)])[-1][1] if len(ctx.ghost.get("floats", [])) >= (4 if d["kind"].startswith("D days") else 3) else None
    if shape is None or (shape == "frac") != with_us:
        return "strings"
    return "arith"


def td_post(ctx, st, result):
    d = st.data
    kind = d["kind"]
    tag = f"[{kind}]"
    ok = isinstance(result, Rec) and result.cls == "timedelta"
    ctx.oblige("post", "the-result-is-a-timedelta" + tag, ok)
    if not ok:
        return
    if kind == "not a string":
        ctx.oblige("post", "a-value-that-is-not-text-is-not-accepted" + tag, False)
        return
    total = result.attrs["total_us"]
    if kind != "any string":
        _td_cut(ctx, d, tag)
        ctx.oblige("post", "round-trip:str(timedelta)-of-every-duration(any days incl. negative,any second,any microsecond)-gives-an-equal-timedelta-back" + tag, total == d["want"])
        _sliced(ctx, _td_slice(ctx, d, False))
        return
    ms = ctx.ghost.get("matches", [])
    if not ms:
        ctx.oblige("post", "accepted=>the-text-was-matched-against-the-duration-syntax" + tag, False)
        return
    m = ms[-1]
    names = m.methods["groupdict"](ctx, m, (), {})
    ctx.oblige("post", "accepted=>the-whole-text-is-[D day[s], ]H:M:S[.F]:nothing-follows-the-seconds(text outside the syntax is not silently read as a duration)" + tag,
               m.attrs["$tail"] is not None and m.attrs["$tail"] == z3.StringVal(""), watch={"value": d["value"], "unmatched-tail": m.attrs["$tail"]})
    given = result.attrs["given"]
    floats = {id(x): r for x, _, _, _, r in ctx.ghost.get("floats", [])}
    ok = set(given) == set(names) and {"hours", "minutes", "seconds"} <= set(names) <= {"days", "hours", "minutes", "seconds"}
    ctx.oblige("post", "accepted=>the-components-are(days?,hours,minutes,seconds),each-one-the-number-at-its-place-in-the-text" + tag,
               ok and all(isinstance(given[n], Rec) and any(x.eq(names[n]) and r.eq(given[n].attrs["val"]) for x, _, _, _, r in ctx.ghost.get("floats", [])) for n in names))


TD_TRUSTED = ["re.match(pattern, s): membership in the pattern's language (the pattern is the string the real code builds); groups by the unique parse of the deterministic fragment, the last repeat before the free tail takes every character of its class (greedy); \\d is [0-9] in the model",
              "float(text): for texts over [0-9.+-] accepted exactly on [+-]?(D+(.D*)?|.D+); ValueError otherwise; value = the real number held: exact for integer texts up to 2**53, within relative 2**-53 (round to nearest) for D+.D*; texts with other characters: unknown partial function",
              "datetime.timedelta(days=,hours=,minutes=,seconds=) of floats: the exact sum rounded to the nearest microsecond (|error| <= 1/2 + 1e-6 us, CPython carries integer parts exactly and rounds the summed fractions once); OverflowError when |days| > 999999999 after normalisation; two timedeltas are equal iff their total microseconds are",
              "str(timedelta) (the serializer registered: str) of a normalised duration (days D, 0 <= seconds < 86400 split as H<24, M<60, S<60, 0 <= microseconds U < 10**6) is '[D day[s], ]H:MM:SS[.UUUUUU]': days part iff D != 0, plural s iff |D| != 1, H unpadded, MM/SS two digits, .UUUUUU (six digits) iff U != 0",
              "str(int) is a text in -?[0-9]+ spelling the integer; 'day' in value / isinstance as in Python"]


# counter-examples the solvers do not find by themselves (the driver's refutation pass adds one of them to an undecided obligation; the fresh names are
# those of the four accepting paths of the any-string scenario; on other paths the hint does not parse and is ignored)
TD_HINTS = ('(assert (= value "9999999999 days, 0:00:00")) (assert (= group1!1 "9999999999")) (assert (= group2!3 "0")) (assert (= group3!4 "00")) (assert (= group4!5 "00"))',
            '(assert (= value "9999999999 days, 0:00:00.5")) (assert (= group1!1 "9999999999")) (assert (= group2!3 "0")) (assert (= group3!4 "00")) (assert (= group4!5 "00.5"))',
            '(assert (= value "99999999999999999:00:00")) (assert (= group1!1 "99999999999999999")) (assert (= group2!2 "00")) (assert (= group3!3 "00"))',
            '(assert (= value "99999999999999999:00:00.5")) (assert (= group1!1 "99999999999999999")) (assert (= group2!2 "00")) (assert (= group3!3 "00.5"))')


def td_raises(ctx, st, exc):
    d = st.data
    kind = d["kind"]
    tag = f"[{kind}]"
    if kind == "not a string":
        ctx.oblige("raises", f"a-non-string-is-rejected-with-ValueError(got {exc.cls})" + tag, exc.cls == "ValueError")
        return
    if kind != "any string":
        _td_cut(ctx, d, tag)
    ctx.oblige("raises", f"text-that-is-not-a-duration-is-rejected-with-ValueError,never-another-exception-class(got {exc.cls}@{exc.origin})" + tag, ctx.classes.is_subclass(exc.cls, "ValueError"),
               watch={"value": d["value"]})
    if kind != "any string":
        # (since repo commit 9491c23 an out-of-range timedelta is converted to the ValueError of a rejected text: the path is recognised by the model's event)
        overflow = exc.cls == "OverflowError" or any(e[0] == "timedelta-out-of-range" for e in ctx.events)
        _sliced(ctx, _td_slice(ctx, d, True) if overflow else "strings")
        ctx.oblige("raises", f"str(timedelta)-of-a-duration-is-never-rejected(got {exc.cls}@{exc.origin})" + tag, False)
        _sliced(ctx, _td_slice(ctx, d, True) if overflow else "strings")


# ================================================================================================ the units
def units(prop):
    return [
        Unit(prop, T + "RegisteredType.__init__", ri_setup, ri_post, _no_exc),
        Unit(prop, T + "RegisteredType.__eq__", re_setup, re_post, _no_exc, trusted=["the fields hold arbitrary objects compared by identity (functions, classes): == on them is identity"]),
        Unit(prop, T + "SecretStr.__init__", si_setup, si_post, _no_exc),
        Unit(prop, T + "SecretStr.get_secret_value", sm_setup, sg_post, _no_exc),
        Unit(prop, T + "SecretStr.__len__", sm_setup, sl_post, _no_exc),
        Unit(prop, T + "SecretStr.__hash__", sm_setup, sh_post, _no_exc, trusted=["hash(str) is a deterministic function of the string's value within a process"]),
        Unit(prop, T + "SecretStr.__eq__", se_setup, se_post, _no_exc),
        Unit(prop, T + "bytes_serializer", bs_setup, bs_post, _no_exc,
             trusted=["base64.b64encode(v) is a function of the bytes of v (bytes and bytearray alike) returning ASCII bytes; .decode() of ASCII bytes is that text", "the other base64 encoders (urlsafe, b32, b16, a85, encodebytes) are other functions"]),
        Unit(prop, T + "bytes_deserializer", bd_setup("bytes"), bd_post, bd_raises, expect_cover=("return", "raise:binascii.Error", "raise:TypeError"),
             trusted=["base64.b64decode(text): a partial function of the text (validate=False: characters outside the alphabet are discarded by the library), binascii.Error (a ValueError) outside its domain, TypeError for a non-str/bytes-like",
                      "b64decode(b64encode(b).decode()) == b for every byte string b (stdlib round trip)"]),
        Unit(prop, T + "bytearray_deserializer", bd_setup("bytearray"), bd_post, bd_raises, expect_cover=("return", "raise:binascii.Error", "raise:TypeError"),
             trusted=["as for bytes_deserializer", "bytearray(b) holds the bytes of b"]),
        Unit(prop, T + "add_type", at_setup, at_post, at_raises, expect_cover=("return", "raise:ValueError", "raise:AssertionError"),
             trusted=["globals() is the namespace of jsonargparse.typing", "register_type: its own unit (contracts/c20.py)"]),
        Unit(prop, T + "register_type_on_first_use", rf_setup, rf_post, _no_exc, trusted=["import_object / register_type: their own units (C14 / C20)", "get_registered_type runs the pending entry without arguments (its own unit)"]),
        Unit(prop, T + "_is_path_type", ip_setup, ip_post, _no_exc, trusted=["class hierarchy read from the repo sources: PathType(Path); pathlib classes are not jsonargparse Paths"]),
        Unit(prop, T + "path_type", pt_setup, pt_post, pt_raises, expect_cover=("return", "raise:ValueError"),
             trusted=["Path._check_mode raises ValueError for an invalid mode (its own unit, C19)", "get_private_kwargs pops the named keywords and refuses any other with ValueError", "type(name, bases, ns) creates the class; add_type: its own unit",
                      "nested class statement: the class body's bindings become the class attributes (engine)", "sorted()/str.join evaluated by CPython on the concrete modes of the scenario"]),
        Unit(prop, T + "range_serializer", rs_setup, rs_post, _no_exc, trusted=["f-string formatting of an int is str(int): the decimal text, '-' for negatives (SMT-LIB str.from_int)", "range objects have step != 0"]),
        Unit(prop, T + "range_deserializer", rd_setup, rd_post, rd_raises, expect_cover=("return", "raise:ValueError", "raise:AttributeError"), trusted=RD_TRUSTED),
        Unit(prop, T + "timedelta_deserializer", td_setup, td_post, td_raises, expect_cover=("return", "raise:ValueError"), trusted=TD_TRUSTED, refute_hints=TD_HINTS),
        Unit(prop, U + "object_path_serializer", op_setup, op_post, op_raises, expect_cover=("return", "raise:ValueError"), trusted=["get_import_path / import_object: their own units (C14); they raise ValueError / AttributeError / ImportError"]),
        Unit(prop, U + "get_module_var_path", mv_setup, mv_post, _no_exc, trusted=["import_module returns the module; vars(module) is its namespace, iterated in definition order"]),
    ]


CARRIES = {"C20": ["range_serializer", "range_deserializer", "timedelta_deserializer", "RegisteredType.__init__", "RegisteredType.__eq__", "SecretStr.__init__", "SecretStr.get_secret_value", "SecretStr.__len__", "SecretStr.__hash__", "SecretStr.__eq__", "bytes_serializer",
                   "bytes_deserializer", "bytearray_deserializer", "add_type", "register_type_on_first_use", "_is_path_type", ":path_type", "object_path_serializer", "get_module_var_path"],
           "C01": ["range_serializer", "range_deserializer", "timedelta_deserializer", "bytes_serializer", "bytes_deserializer", "bytearray_deserializer", "object_path_serializer"]}
