"""Namespace as a data structure against an abstract view (C11).

view(ns)  = the nested dictionary {unmarked name -> view(child namespace) | leaf value} read off ns.__dict__.
Every public operation of jsonargparse/_namespace.py:Namespace is verified, on its real body, against the nested-dictionary
reference taken from the statement (set creates the branches it needs, lookup / membership / delete / pop walk step by step,
items lists the leaves in insertion order with dotted keys, as_dict is the view, names equal to Namespace's own method names
behave like any other name).  Modular: inside one method every *other* Namespace method is used by its contract (the model
methods of `ns_rec`), the helpers split_key / add_clash_mark / del_clash_mark are interpreted from their real bodies.

Scenario space (complete case analysis, leaf values symbolic): 9 stored trees (empty, flat, nested to depth 3, method-name
clashes at top level and nested, None leaf, empty branch, plain-dict leaf) x 16 keys (depth 1-3, ordinary and clash names,
present / absent / through a leaf / through None, malformed: space, empty segment).
Not covered here (bounded harness only): dotted keys that pass *through* a plain dict value (known finding), equality
(argparse's __eq__), object graphs with sharing.
"""
import argparse
import ast
import os

import z3

from pyvc import REPO
from pyvc.engine import ClassRef, ExcVal, PyRaise, Rec
from pyvc.units import Setup, Unit

MARK = "​"
MISSING = object()


class Branch(dict):
    """a namespace in a tree description / in a view (a plain dict is a leaf value)"""


def _clash_names():
    src = open(os.path.join(REPO, "jsonargparse", "_namespace.py")).read()
    names = set(dir(argparse.Namespace))
    for node in ast.parse(src).body:
        if isinstance(node, ast.ClassDef) and node.name == "Namespace":
            for st in node.body:
                if isinstance(st, (ast.FunctionDef, ast.AsyncFunctionDef)):
                    names.add(st.name)
                elif isinstance(st, ast.Assign):
                    names.update(t.id for t in st.targets if isinstance(t, ast.Name))
    return names


CLASH = _clash_names()


def mark(k):
    return MARK + k if k in CLASH else k


def unmark(k):
    return k[1:] if k[:1] == MARK else k


def is_ns(v):
    return isinstance(v, Rec) and v.cls == "Namespace"


def nskeyerror(why):
    return PyRaise(ExcVal("NSKeyError", (why,), origin="Namespace-contract"))


def valid_key(key):
    return isinstance(key, str) and " " not in key and all(c != "" for c in key.split("."))


# ------------------------------------------------------------------ reference model on views (from the statement)
def view(rec):
    return Branch((unmark(k), view(v) if is_ns(v) else v) for k, v in rec.attrs["__dict__"].items())


def m_lookup(node, comps):
    for c in comps:
        if isinstance(node, Branch) and c in node:
            node = node[c]
        else:
            return MISSING
    return node


def m_set(m, comps, value):
    node = m
    for c in comps[:-1]:
        child = node.get(c, MISSING)
        if not isinstance(child, Branch):
            child = Branch()
            node[c] = child
        node = child
    node[comps[-1]] = value
    return m


def m_del(m, comps):
    parent = m_lookup(m, comps[:-1])
    if isinstance(parent, Branch) and comps[-1] in parent:
        del parent[comps[-1]]
        return True
    return False


def m_leaves(m, prefix="", branches=False):
    out = []
    for k, v in m.items():
        if isinstance(v, Branch):
            if branches:
                out.append((prefix + k, v))
            out.extend(m_leaves(v, prefix + k + ".", branches))
        else:
            out.append((prefix + k, v))
    return out


def same_view(a, b):
    """views equal: same keys in the same order, branches recursively, leaves by identity (symbolic values are never rebuilt)"""
    if isinstance(a, Branch) != isinstance(b, Branch):
        return False
    if not isinstance(a, Branch):
        return a is b or (type(a) is type(b) and not isinstance(a, (Rec, z3.ExprRef)) and a == b)
    return list(a) == list(b) and all(same_view(a[k], b[k]) for k in a)


def rec_at(rec, comps):
    """the stored object at a path of the heap (namespace records for branches)"""
    node = rec
    for c in comps:
        if is_ns(node) and mark(c) in node.attrs["__dict__"]:
            node = node.attrs["__dict__"][mark(c)]
        else:
            return MISSING
    return node


# ------------------------------------------------------------------ the heap: namespace records whose methods are the contracts
def h_set(rec, comps, value):
    node = rec
    for c in comps[:-1]:
        child = node.attrs["__dict__"].get(mark(c), MISSING)
        if not is_ns(child):
            child = ns_rec({})
            node.attrs["__dict__"][mark(c)] = child
        node = child
    node.attrs["__dict__"][mark(comps[-1])] = value


def c_getitem(c, s_, a, k):
    key = a[0]
    if not valid_key(key):
        raise nskeyerror("invalid key")
    v = rec_at(s_, key.split("."))
    if v is MISSING:
        raise nskeyerror(f"Key {key!r} not found")
    return v


def c_setitem(c, s_, a, k):
    key, item = a
    if not valid_key(key):
        raise nskeyerror("invalid key")
    h_set(s_, key.split("."), item)


def c_contains(c, s_, a, k):
    return valid_key(a[0]) and rec_at(s_, a[0].split(".")) is not MISSING


def c_setattr(c, s_, a, k):
    name, value = a
    if "." in name:
        return c_setitem(c, s_, (name, value), {})
    s_.attrs["__dict__"][mark(name)] = value


def c_getattr(c, s_, a, k):
    name = a[0]
    d = s_.attrs["__dict__"]
    if name in d:
        return d[name]
    if name in CLASH:
        return Rec("bound method", attrs={"__name__": name})
    raise PyRaise(ExcVal("AttributeError", (name,), origin="Namespace.__getattr__"))


def c_items(c, s_, a, k):
    branches = a[0] if a else k.get("branches", False)
    out = []
    for key, v in s_.attrs["__dict__"].items():
        key = unmark(key)
        if is_ns(v):
            if branches:
                out.append((key, v))
            out.extend((key + "." + sub, sv) for sub, sv in c_items(c, v, (branches,), {}))
        else:
            out.append((key, v))
    return out


def c_as_dict(c, s_, a, k):
    return Rec("dict returned by as_dict", attrs={"of": s_})


def c_parse_key(c, s_, a, k):
    """contract of _parse_key, derived from its code and its five call sites"""
    key = a[0]
    if not valid_key(key):
        raise nskeyerror("invalid key")
    comps = [mark(x) for x in key.split(".")]
    parent = s_
    for sub in comps[:-1]:
        d = parent.attrs["__dict__"] if is_ns(parent) else parent if isinstance(parent, dict) else None
        if d is not None and sub in d:
            parent = d[sub]
            if parent is not None and not is_ns(parent) and not isinstance(parent, dict):
                return (comps[-1], None, ".".join(comps[:-1]))
        else:
            return (comps[-1], None, ".".join(comps[:-1]))
    return (comps[-1], parent, ".".join(comps[:-1]))


def c_parse_required_key(c, s_, a, k):
    leaf, parent, pkey = c_parse_key(c, s_, a, k)
    if parent is None or not (is_ns(parent) and (leaf in parent.attrs["__dict__"] or leaf in CLASH)):
        raise nskeyerror("not found")
    return (leaf, parent, pkey)


def c_create_nested(c, s_, a, k):
    """requires: every component of the key carries its clash mark (it comes from _parse_key)"""
    comps = a[0].split(".")
    node = s_
    for comp in comps:
        child = node.attrs["__dict__"].get(comp, MISSING)
        if not is_ns(child):
            child = ns_rec({})
            node.attrs["__dict__"][comp] = child
        node = child
    return node


def h_del(rec, comps):
    parent = rec_at(rec, comps[:-1])
    if is_ns(parent) and mark(comps[-1]) in parent.attrs["__dict__"]:
        return parent.attrs["__dict__"].pop(mark(comps[-1]))
    return MISSING


def c_pop(c, s_, a, k):
    key = a[0]
    default = a[1] if len(a) > 1 else k.get("default")
    if not valid_key(key):
        raise nskeyerror("invalid key")
    v = h_del(s_, key.split("."))
    return default if v is MISSING else v


def c_get(c, s_, a, k):
    key = a[0]
    default = a[1] if len(a) > 1 else k.get("default")
    v = rec_at(s_, key.split(".")) if valid_key(key) else MISSING
    return default if v is MISSING else v


def c_delitem(c, s_, a, k):
    if not valid_key(a[0]) or h_del(s_, a[0].split(".")) is MISSING:
        raise PyRaise(ExcVal("KeyError", (a[0],), origin="Namespace-contract"))


NS_METHODS = {
    "pop": c_pop, "get": c_get, "__delitem__": c_delitem,
    "__getitem__": c_getitem, "__setitem__": c_setitem, "__contains__": c_contains, "__setattr__": c_setattr, "__getattr__": c_getattr,
    "__hasattr__": lambda c, s_, a, k: a[0] in s_.attrs["__dict__"] or a[0] in CLASH,
    "__bool__": lambda c, s_, a, k: bool(s_.attrs["__dict__"]),
    "items": c_items, "keys": lambda c, s_, a, k: [x for x, _ in c_items(c, s_, a, k)], "values": lambda c, s_, a, k: [v for _, v in c_items(c, s_, a, k)],
    "as_dict": c_as_dict, "_parse_key": c_parse_key, "_parse_required_key": c_parse_required_key, "_create_nested_namespace": c_create_nested,
}


def ns_rec(d):
    return Rec("Namespace", attrs={"__dict__": d}, methods=dict(NS_METHODS))


def build(tree):
    return ns_rec({mark(k): build(v) if isinstance(v, Branch) else v for k, v in tree.items()})


# ------------------------------------------------------------------ scenario space
def trees():
    v = [z3.Int(f"leaf{i}") for i in range(6)]
    B = Branch
    return [
        ("empty", B()),
        ("flat", B(a=v[0], c=v[1])),
        ("nested", B(a=B(b=v[0]), c=v[1])),
        ("deep", B(a=B(b=B(c=v[0]), b2=v[1]), a2=v[2])),
        ("clash-top", B(items=v[0], a=v[1])),
        ("clash-nested", B(a=B(items=v[0], b=v[1], get=B(keys=v[2])), c=v[3])),
        ("none-leaf", B(a=None, c=v[0])),
        ("empty-branch", B(a=B(), c=v[0])),
        ("dict-leaf", B(a={"x": 1}, c=v[0])),
    ]


KEYS = ["a", "c", "a.b", "a.b.c", "a.b2", "items", "a.items", "a.get.keys", "x", "x.y", "a.x", "c.y", "a.b.c.d", "a b", "a..b", ".a"]


def scenario(ctx, keys=KEYS):
    ts = trees()
    name, tree = ts[ctx.choose(len(ts), "stored-tree")]
    key = keys[ctx.choose(len(keys), "key")]
    # dotted keys through a plain dict value are the known-finding area: bounded harness only
    if name == "dict-leaf" and isinstance(key, str) and key.startswith("a."):
        key = "c"
    rec = build(tree)
    return name, rec, key, view(rec)


def common(ctx):
    ctx.classes.add("Namespace", ["argparse.Namespace"])
    ctx.classes.add("argparse.Namespace", ["object"])
    consts = {"Namespace": ClassRef("Namespace"), "clash_names": CLASH, "clash_mark": MARK,
              "argparse": Rec("module argparse", attrs={"Namespace": ClassRef("argparse.Namespace")})}
    inline = {"split_key": "jsonargparse._namespace:split_key", "add_clash_mark": "jsonargparse._namespace:add_clash_mark", "del_clash_mark": "jsonargparse._namespace:del_clash_mark",
              "split_key_leaf": "jsonargparse._namespace:split_key_leaf", "split_key_root": "jsonargparse._namespace:split_key_root"}
    return consts, inline


def refuses(ctx, st, exc, tag, expected, what):
    """a refusal may be any KeyError subclass where the reference refuses (the statement's nested dictionary raises KeyError)"""
    ctx.oblige("raises", f"{what}{tag}(got {exc.cls}@{exc.origin})", expected and ctx.classes.is_subclass(exc.cls, "KeyError"))


# ------------------------------------------------------------------ _parse_key
def pk_setup(ctx):
    name, rec, key, v0 = scenario(ctx)
    consts, inline = common(ctx)
    return Setup(env={"self": rec, "key": key}, consts=consts, inline=inline, data=dict(tree=name, rec=rec, key=key, v0=v0))


def pk_post(ctx, st, result):
    d = st.data
    tag = f"[{d['tree']},{d['key']!r}]"
    want = c_parse_key(ctx, d["rec"], (d["key"],), {})
    ok = isinstance(result, tuple) and len(result) == 3 and result[0] == want[0] and result[1] is want[1] and result[2] == want[2]
    ctx.oblige("post", "leaf-is-the-marked-last-segment;parent-is-the-mapping-reached-step-by-step(None when a step is absent or a leaf);parent-key-is-the-marked-prefix" + tag, ok)
    comps = d["key"].split(".")
    parent = rec_at(d["rec"], comps[:-1])
    if is_ns(parent):
        ctx.oblige("post", "when-every-proper-prefix-is-a-branch-the-parent-is-that-branch" + tag, result[1] is parent)
    ctx.oblige("frame", "parsing-a-key-stores-nothing" + tag, same_view(view(d["rec"]), d["v0"]))


def pk_raises(ctx, st, exc):
    d = st.data
    refuses(ctx, st, exc, f"[{d['tree']},{d['key']!r}]", not valid_key(d["key"]), "only-a-key-with-a-space-or-an-empty-segment-is-refused")
    ctx.oblige("frame", f"parsing-a-key-stores-nothing[{d['tree']},{d['key']!r}]", same_view(view(d["rec"]), d["v0"]))


# ------------------------------------------------------------------ _parse_required_key / __getitem__ / __contains__ / get
def read_setup(ctx, keys=KEYS):
    name, rec, key, v0 = scenario(ctx, keys)
    consts, inline = common(ctx)
    default = [z3.Int("default"), None][ctx.choose(2, "default-given-or-omitted")]
    env = {"self": rec, "key": key}
    if default is not None:
        env["default"] = default
    return Setup(env=env, consts=consts, inline=inline, data=dict(tree=name, rec=rec, key=key, v0=v0, default=default))


def expected_read(d):
    if not valid_key(d["key"]):
        return MISSING
    return rec_at(d["rec"], d["key"].split("."))


def read_any_setup(ctx):
    return read_setup(ctx, KEYS + [7, None])  # a key that is not a string is simply not contained / gives the default


def gi_post(ctx, st, result):
    d = st.data
    tag = f"[{d['tree']},{d['key']!r}]"
    want = expected_read(d)
    ctx.oblige("post", "reading-a-dotted-key-returns-what-the-nested-dictionary-holds-at-that-path(step by step)" + tag, want is not MISSING and result is want)
    ctx.oblige("frame", "reading-stores-nothing" + tag, same_view(view(d["rec"]), d["v0"]))


def gi_raises(ctx, st, exc):
    d = st.data
    refuses(ctx, st, exc, f"[{d['tree']},{d['key']!r}]", expected_read(d) is MISSING, "KeyError-exactly-when-the-nested-dictionary-has-no-such-path")


def ct_post(ctx, st, result):
    d = st.data
    tag = f"[{d['tree']},{d['key']!r}]"
    ctx.oblige("post", "membership<=>the-nested-dictionary-has-that-path" + tag, result is (expected_read(d) is not MISSING))
    ctx.oblige("frame", "membership-stores-nothing" + tag, same_view(view(d["rec"]), d["v0"]))


def never(ctx, st, exc):
    d = st.data
    ctx.oblige("raises", f"never-raises[{d['tree']},{d['key']!r}](got {exc.cls}@{exc.origin})", False)


def get_post(ctx, st, result):
    d = st.data
    tag = f"[{d['tree']},{d['key']!r}]"
    want = expected_read(d)
    ctx.oblige("post", "get-returns-the-stored-value,else-the-default" + tag, result is (d["default"] if want is MISSING else want))
    ctx.oblige("frame", "get-stores-nothing" + tag, same_view(view(d["rec"]), d["v0"]))


def prk_post(ctx, st, result):
    d = st.data
    tag = f"[{d['tree']},{d['key']!r}]"
    comps = d["key"].split(".")
    parent = rec_at(d["rec"], comps[:-1])
    ok = isinstance(result, tuple) and len(result) == 3 and result[0] == mark(comps[-1]) and result[1] is parent and is_ns(parent)
    # hasattr() is true for a *marked* name only if it is stored: the guard is exact for every key that went through add_clash_mark
    ctx.oblige("post", "returns-(marked leaf, the branch that holds it)-and-the-leaf-is-stored-there" + tag, ok and mark(comps[-1]) in parent.attrs["__dict__"])


def prk_raises(ctx, st, exc):
    d = st.data
    refuses(ctx, st, exc, f"[{d['tree']},{d['key']!r}]", expected_read(d) is MISSING, "KeyError-exactly-when-the-path-is-absent")


# ------------------------------------------------------------------ mutators: __setitem__ / __setattr__ / __delitem__ / pop / _create_nested_namespace
def write_setup(ctx):
    name, rec, key, v0 = scenario(ctx)
    consts, inline = common(ctx)
    item_kind = ["scalar", "namespace", "None"][ctx.choose(3, "stored-value")]
    item = {"scalar": z3.Int("item"), "namespace": build(Branch(p=z3.Int("item.p"))), "None": None}[item_kind]
    default = z3.Int("default")

    def new_namespace(c, a, k):
        if a or k:
            raise PyRaise(ExcVal("Unmodelled", ("Namespace(...) with arguments",), origin="model"))
        return ns_rec({})

    def super_(c, a, k):
        # object.__setattr__ on the namespace under test: writes the instance dictionary directly
        return Rec("super()", methods={"__setattr__": lambda c2, s2, a2, k2: rec_holder[0].attrs["__dict__"].__setitem__(a2[0], a2[1])})

    rec_holder = [rec]
    calls = {"Namespace": new_namespace, "super": super_}
    return Setup(env={"self": rec, "key": key, "name": key, "item": item, "value": item, "default": default}, calls=calls, consts=consts, inline=inline,
                 data=dict(tree=name, rec=rec, key=key, v0=v0, item=item, item_kind=item_kind, default=default, others={id(x): x for x in all_branches(rec)}))


def all_branches(rec):
    out = [rec]
    for v in rec.attrs["__dict__"].values():
        if is_ns(v):
            out.extend(all_branches(v))
    return out


def view_of_item(item):
    return view(item) if is_ns(item) else item


def si_post(ctx, st, result):
    d = st.data
    tag = f"[{d['tree']},{d['key']!r}<-{d['item_kind']}]"
    ok_key = valid_key(d["key"])
    ctx.oblige("post", "a-malformed-key-is-refused" + tag, ok_key)
    if not ok_key:
        return
    comps = d["key"].split(".")
    want = m_set(copy_view(d["v0"]), comps, view_of_item(d["item"]))
    ctx.oblige("post", "afterwards-the-namespace-holds-exactly-what-the-nested-dictionary-holds:the-item-at-the-path(branches created as needed),every-other-key-unchanged" + tag,
               same_view(view(d["rec"]), want))
    ctx.oblige("post", "the-item-itself-is-stored(no copy)" + tag, rec_at(d["rec"], comps) is d["item"])


def copy_view(v):
    return Branch((k, copy_view(x) if isinstance(x, Branch) else x) for k, x in v.items())


def si_raises(ctx, st, exc):
    d = st.data
    tag = f"[{d['tree']},{d['key']!r}<-{d['item_kind']}]"
    refuses(ctx, st, exc, tag, not valid_key(d["key"]), "only-a-malformed-key-is-refused")
    ctx.oblige("frame", "a-refused-assignment-stores-nothing" + tag, same_view(view(d["rec"]), d["v0"]))


def sa_post(ctx, st, result):
    d = st.data
    tag = f"[{d['tree']},{d['key']!r}<-{d['item_kind']}]"
    if "." in d["key"]:
        return si_post(ctx, st, result)
    # a plain attribute name (argparse writes dests this way): stored like any other name, method names included
    want = copy_view(d["v0"])
    want[d["key"]] = view_of_item(d["item"])
    ctx.oblige("post", "setattr(ns, name, v)-stores-v-under-name-like-ns[name]=v,method-names-included" + tag, same_view(view(d["rec"]), want) and rec_at(d["rec"], [d["key"]]) is d["item"])


def sa_raises(ctx, st, exc):
    d = st.data
    tag = f"[{d['tree']},{d['key']!r}<-{d['item_kind']}]"
    refuses(ctx, st, exc, tag, "." in d["key"] and not valid_key(d["key"]), "only-a-malformed-dotted-key-is-refused")


def di_post(ctx, st, result):
    d = st.data
    tag = f"[{d['tree']},{d['key']!r}]"
    want = copy_view(d["v0"])
    present = valid_key(d["key"]) and m_del(want, d["key"].split("."))
    ctx.oblige("post", "del-removes-exactly-that-path;every-other-key-unchanged" + tag, present and same_view(view(d["rec"]), want))


def di_raises(ctx, st, exc):
    d = st.data
    tag = f"[{d['tree']},{d['key']!r}]"
    present = valid_key(d["key"]) and rec_at(d["rec"], d["key"].split(".")) is not MISSING
    # which exception class an absent path gives is not fixed by the statement (KeyError for a missing leaf, AttributeError when a prefix is missing): any refusal counts
    ctx.oblige("raises", f"del-refuses-exactly-an-absent-path{tag}(got {exc.cls}@{exc.origin})", not present)
    ctx.oblige("frame", "a-refused-del-stores-nothing" + tag, same_view(view(d["rec"]), d["v0"]))


def pop_post(ctx, st, result):
    d = st.data
    tag = f"[{d['tree']},{d['key']!r}]"
    want = copy_view(d["v0"])
    stored = d["stored"]
    ctx.oblige("post", "a-malformed-key-is-refused" + tag, valid_key(d["key"]))
    if not valid_key(d["key"]):
        return
    m_del(want, d["key"].split("."))
    ctx.oblige("post", "pop-returns-the-stored-value(else the default)-and-removes-exactly-that-path" + tag,
               result is (d["default"] if stored is MISSING else stored) and same_view(view(d["rec"]), want))


def pop_setup(ctx):
    st = write_setup(ctx)
    d = st.data
    d["stored"] = rec_at(d["rec"], d["key"].split(".")) if valid_key(d["key"]) else MISSING  # the object stored before the call
    return st


def pop_raises(ctx, st, exc):
    d = st.data
    refuses(ctx, st, exc, f"[{d['tree']},{d['key']!r}]", not valid_key(d["key"]), "only-a-malformed-key-is-refused")


# _create_nested_namespace: key components are already marked (call site: __setitem__ with the parent key from _parse_key)
MARKED_KEYS = ["a", "a.b", "a.b.c", "x", "x.y.z", MARK + "items", "a." + MARK + "items", "a." + MARK + "get.k2", "c", "c.y"]


def cn_setup(ctx):
    ts = trees()
    name, tree = ts[ctx.choose(len(ts), "stored-tree")]
    key = MARKED_KEYS[ctx.choose(len(MARKED_KEYS), "marked-parent-key")]
    if name == "dict-leaf" and key.startswith("a."):
        key = "c"
    rec = build(tree)
    consts, inline = common(ctx)
    return Setup(env={"self": rec, "key": key}, calls={"Namespace": lambda c, a, k: ns_rec({})}, consts=consts, inline=inline, data=dict(tree=name, rec=rec, key=key, v0=view(rec),
                                                                                                                                      before={tuple(p): o for p, o in branch_paths(rec)}))


def branch_paths(rec, prefix=()):
    out = [(prefix, rec)]
    for k, v in rec.attrs["__dict__"].items():
        if is_ns(v):
            out.extend(branch_paths(v, prefix + (k,)))
    return out


def cn_post(ctx, st, result):
    d = st.data
    tag = f"[{d['tree']},{d['key']!r}]"
    comps = [unmark(c) for c in d["key"].split(".")]
    want = copy_view(d["v0"])
    node = want
    for c in comps:
        if not isinstance(node.get(c, MISSING), Branch):
            node[c] = Branch()
        node = node[c]
    ctx.oblige("post", "afterwards-every-prefix-of-the-key-is-a-branch;existing-branches-keep-their-content;other-keys-unchanged" + tag, same_view(view(d["rec"]), want))
    ctx.oblige("post", "returns-the-branch-at-the-key(a namespace, never a bound method)" + tag, is_ns(result) and rec_at(d["rec"], comps) is result)
    kept = [p for p, o in d["before"].items() if len(p) <= len(comps) and list(p) == d["key"].split(".")[: len(p)]]
    ctx.oblige("post", "branches-that-already-existed-on-the-way-are-the-same-objects" + tag, all(rec_at(d["rec"], [unmark(x) for x in p]) is d["before"][p] for p in kept))


# ------------------------------------------------------------------ items / keys / values / as_dict / get_sorted_keys
def it_setup(ctx):
    ts = trees()
    name, tree = ts[ctx.choose(len(ts), "stored-tree")]
    bsel = ["False", "True", "omitted(default: leaves only)"][ctx.choose(3, "branches")]
    branches = bsel == "True"
    rec = build(tree)
    consts, inline = common(ctx)
    env = {"self": rec}
    if not bsel.startswith("omitted"):
        env["branches"] = branches
    return Setup(env=env, consts=consts, inline=inline, hooks={"generator": True}, data=dict(tree=name, rec=rec, branches=branches, v0=view(rec)))


def it_post(ctx, st, result):
    d = st.data
    tag = f"[{d['tree']},branches={d['branches']}]"
    got = [e[1] for e in ctx.events if e[0] == "yield"]
    want = [(k, rec_at(d["rec"], k.split("."))) for k, _ in m_leaves(d["v0"], branches=d["branches"])]
    ok = len(got) == len(want) and all(isinstance(g, tuple) and len(g) == 2 and g[0] == w[0] and g[1] is w[1] for g, w in zip(got, want))
    ctx.oblige("post", "items-yields-exactly-the-leaves(and branches when asked)-of-the-nested-dictionary,dotted-keys-without-marks,in-insertion-order" + tag, ok)
    ctx.oblige("frame", "iterating-stores-nothing" + tag, same_view(view(d["rec"]), d["v0"]))


def keys_post(ctx, st, result):
    d = st.data
    tag = f"[{d['tree']},branches={d['branches']}]"
    got = [e[1] for e in ctx.events if e[0] == "yield"]
    ctx.oblige("post", "keys-are-the-keys-of-items,in-order" + tag, got == [k for k, _ in m_leaves(d["v0"], branches=d["branches"])])


def values_post(ctx, st, result):
    d = st.data
    tag = f"[{d['tree']},branches={d['branches']}]"
    got = [e[1] for e in ctx.events if e[0] == "yield"]
    want = [rec_at(d["rec"], k.split(".")) for k, _ in m_leaves(d["v0"], branches=d["branches"])]
    ctx.oblige("post", "values-are-the-values-of-items,in-order" + tag, len(got) == len(want) and all(g is w for g, w in zip(got, want)))


def it_raises(ctx, st, exc):
    d = st.data
    ctx.oblige("raises", f"never-raises[{d['tree']}](got {exc.cls}@{exc.origin})", False)


def ad_setup(ctx):
    ts = trees()
    name, tree = ts[ctx.choose(len(ts), "stored-tree")]
    extra = ["none", "list-of-namespaces", "dict-of-namespaces", "mixed-list", "empty-list", "mixed-dict", "empty-dict"][ctx.choose(7, "container-leaf")]
    rec = build(tree)
    inner = [build(Branch(p=z3.Int("in0.p"))), build(Branch(q=z3.Int("in1.q")))]
    if extra == "list-of-namespaces":
        rec.attrs["__dict__"]["lst"] = list(inner)
    elif extra == "dict-of-namespaces":
        rec.attrs["__dict__"]["dct"] = {"k0": inner[0], "k1": inner[1]}
    elif extra == "mixed-list":
        rec.attrs["__dict__"]["lst"] = [inner[0], z3.Int("mixed.scalar")]
    elif extra == "empty-list":
        rec.attrs["__dict__"]["lst"] = []
    elif extra == "mixed-dict":
        rec.attrs["__dict__"]["dct"] = {"k0": inner[0], "k1": z3.Int("mixed.scalar")}
    elif extra == "empty-dict":
        rec.attrs["__dict__"]["dct"] = {}
    consts, inline = common(ctx)
    return Setup(env={"self": rec}, consts=consts, inline=inline, data=dict(tree=name, rec=rec, extra=extra, inner=inner))


def plain(v):
    """the nested dictionary a namespace stands for (what as_dict must return): contract results of nested as_dict calls are resolved"""
    if isinstance(v, Rec) and v.cls == "dict returned by as_dict":
        return plain_of_ns(v.attrs["of"])
    if isinstance(v, dict):
        return {k: plain(x) for k, x in v.items()}
    if isinstance(v, list):
        return [plain(x) for x in v]
    return v


def plain_of_ns(rec):
    out = {}
    for k, v in rec.attrs["__dict__"].items():
        if is_ns(v):
            v = plain_of_ns(v)
        elif isinstance(v, dict):
            v = {kk: plain_of_ns(x) if is_ns(x) else x for kk, x in v.items()}  # every namespace held by a dict / list value is a branch, whatever stands beside it
        elif isinstance(v, list):
            v = [plain_of_ns(x) if is_ns(x) else x for x in v]
        out[unmark(k)] = v
    return out


def deep_same(a, b):
    if isinstance(a, dict) and isinstance(b, dict):
        return list(a) == list(b) and all(deep_same(a[k], b[k]) for k in a)
    if isinstance(a, list) and isinstance(b, list):
        return len(a) == len(b) and all(deep_same(x, y) for x, y in zip(a, b))
    return a is b or (not isinstance(a, (Rec, z3.ExprRef, dict, list)) and type(a) is type(b) and a == b)


def ad_post(ctx, st, result):
    d = st.data
    tag = f"[{d['tree']},{d['extra']}]"
    ok = isinstance(result, dict) and deep_same(plain(result), plain_of_ns(d["rec"]))
    ctx.oblige("post", "as_dict-is-the-nested-dictionary:branches-become-dicts(also every namespace inside a list / dict value,whatever stands beside it),names-without-marks,leaves-as-stored" + tag, ok)


def gsk_setup(ctx):
    ts = trees()
    name, tree = ts[ctx.choose(len(ts), "stored-tree")]
    bsel = ["False", "True", "omitted(default: with branches)"][ctx.choose(3, "branches")]
    branches = bsel != "False"
    rec = build(tree)
    rec.attrs["__dict__"]["__path__"] = z3.Int("meta")  # a meta key: filtered out by the default key_filter
    consts, inline = common(ctx)
    inline["is_meta_key"] = "jsonargparse._namespace:is_meta_key"
    inline["split_key_leaf"] = "jsonargparse._namespace:split_key_leaf"
    consts["meta_keys"] = {"__default_config__", "__path__", "__orig__"}
    from pyvc.engine import Fn
    env = {"self": rec, "key_filter": Fn(lambda c, a, k: a[0].rsplit(".", 1)[-1] in consts["meta_keys"], "is_meta_key")}
    if not bsel.startswith("omitted"):
        env["branches"] = branches
    return Setup(env=env, consts=consts, inline=inline, data=dict(tree=name, rec=rec, branches=branches, v0=view(rec)))


def gsk_post(ctx, st, result):
    d = st.data
    tag = f"[{d['tree']},branches={d['branches']}]"
    leaves = [k for k, _ in m_leaves(d["v0"]) if k.rsplit(".", 1)[-1] not in ("__path__",)]
    want = set(leaves)
    if d["branches"]:
        for k in leaves:
            parts = k.split(".")
            want.update(".".join(parts[: n + 1]) for n in range(len(parts) - 1))
    ok = isinstance(result, list) and len(result) == len(set(result)) and set(result) == want
    ctx.oblige("post", "every-leaf-key(and every proper prefix when branches are asked for),no-meta-key,each-once" + tag, ok)
    depth = [len(k.split(".")) for k in result] if isinstance(result, list) else []
    ctx.oblige("post", "deeper-keys-first(so that children are handled before their parents)" + tag, depth == sorted(depth, reverse=True))


# ------------------------------------------------------------------ update / __init__
def up_setup(ctx):
    ts = trees()
    name, tree = ts[ctx.choose(len(ts), "stored-tree")]
    vkind = ["scalar", "namespace", "nested-namespace", "clash-namespace", "empty-namespace"][ctx.choose(5, "value")]
    key = [None, "", "a", "a.b", "x.y", "items", "c"][ctx.choose(7, "key")]
    usel = ["False", "True", "omitted(default: overwrite)"][ctx.choose(3, "only_unset")]
    only_unset = usel == "True"
    if name == "dict-leaf" and key and key.startswith("a"):
        key = "c"
    rec = build(tree)
    w = [z3.Int(f"new{i}") for i in range(3)]
    value = {"scalar": w[0], "namespace": build(Branch(b=w[0], n=w[1])), "nested-namespace": build(Branch(b=Branch(c=w[0]), a=w[1])),
             "clash-namespace": build(Branch(items=w[0], a=Branch(keys=w[1]))), "empty-namespace": build(Branch())}[vkind]
    consts, inline = common(ctx)
    env = {"self": rec, "value": value, "key": key}
    if not usel.startswith("omitted"):
        env["only_unset"] = only_unset
    return Setup(env=env, consts=consts, inline=inline, data=dict(tree=name, rec=rec, key=key, vkind=vkind, value=value, only_unset=only_unset, v0=view(rec)))


def up_expected(d):
    """reference: update(value, key, only_unset) on the nested dictionary; -> view or None (refused)"""
    m = copy_view(d["v0"])
    key, unset = d["key"], d["only_unset"]
    if not is_ns(d["value"]):
        if not key:
            return None
        if not (unset and m_lookup(m, key.split(".")) is not MISSING):
            m_set(m, key.split("."), d["value"])
        return m
    prefix = key + "." if key else ""
    for k, v in m_leaves(view(d["value"])):
        path = (prefix + k).split(".")
        if not (unset and m_lookup(m, path) is not MISSING):
            m_set(m, path, v)
    return m


def up_post(ctx, st, result):
    d = st.data
    tag = f"[{d['tree']},{d['vkind']}@{d['key']!r}{',only_unset' if d['only_unset'] else ''}]"
    want = up_expected(d)
    ctx.oblige("post", "update-sets-every-leaf-of-the-given-namespace-below-the-key(or the value at the key);with-only_unset-only-paths-not-yet-present;every-other-key-unchanged" + tag,
               want is not None and same_view(view(d["rec"]), want))
    ctx.oblige("post", "returns-the-updated-namespace-itself" + tag, result is d["rec"])


def up_raises(ctx, st, exc):
    d = st.data
    tag = f"[{d['tree']},{d['vkind']}@{d['key']!r}]"
    refuses(ctx, st, exc, tag, up_expected(d) is None, "only-a-non-namespace-value-without-a-key-is-refused")


def init_setup(ctx):
    kind = ["kwargs", "dict", "dotted-dict", "namespace", "clash-dict", "two-positionals", "positional-and-kwargs", "not-a-mapping", "empty"][ctx.choose(9, "arguments")]
    w = [z3.Int(f"init{i}") for i in range(3)]
    rec = ns_rec({})
    consts, inline = common(ctx)
    src_ns = Rec("argparse.Namespace", attrs={"__dict__": {"a": w[0], "b.c": w[1]}})
    args, kwargs = {
        "kwargs": ((), {"a": w[0], "c": w[1]}), "dict": (({"a": w[0], "c": w[1]},), {}), "dotted-dict": (({"a.b": w[0], "a.c": w[1], "d": w[2]},), {}),
        "namespace": ((src_ns,), {}), "clash-dict": (({"items": w[0], "a.keys": w[1]},), {}), "two-positionals": (({"a": w[0]}, {"b": w[1]}), {}),
        "positional-and-kwargs": (({"a": w[0]},), {"b": w[1]}), "not-a-mapping": ((w[0],), {}), "empty": ((), {}),
    }[kind]

    def super_(c, a, k):
        # argparse.Namespace.__init__(**kwargs): setattr(self, name, kwargs[name]) for each name
        return Rec("super()", methods={"__init__": lambda c2, s2, a2, k2: [c_setattr(c2, rec, (n, v), {}) for n, v in k2.items()] and None})

    return Setup(env={"self": rec, "args": tuple(args), "kwargs": dict(kwargs)}, calls={"super": super_}, consts=consts, inline=inline, data=dict(kind=kind, rec=rec, args=args, kwargs=kwargs))


def init_post(ctx, st, result):
    d = st.data
    tag = f"[{d['kind']}]"
    legal = d["kind"] in ("kwargs", "dict", "dotted-dict", "namespace", "clash-dict", "empty")
    ctx.oblige("post", "only-keyword-arguments-or-one-dict/Namespace-are-accepted" + tag, legal)
    if not legal:
        return
    src = d["kwargs"] if not d["args"] else (d["args"][0] if isinstance(d["args"][0], dict) else d["args"][0].attrs["__dict__"])
    want = Branch()
    for k, v in src.items():
        m_set(want, k.split("."), v)
    ctx.oblige("post", "the-new-namespace-holds-exactly-the-given-items,dotted-keys-nested,method-names-like-any-other" + tag, same_view(view(d["rec"]), want))


def init_raises(ctx, st, exc):
    d = st.data
    ctx.oblige("raises", f"ValueError-exactly-for-other-argument-shapes[{d['kind']}](got {exc.cls})", exc.cls == "ValueError" and d["kind"] in ("two-positionals", "positional-and-kwargs", "not-a-mapping"))


def units(prop="C11"):
    T = "jsonargparse._namespace:Namespace."
    tr = ["other Namespace methods by contract (the model methods of contracts/ns_units.py:ns_rec, each verified as its own unit)", "hasattr/getattr/setattr on a namespace: instance dictionary first, then the class's method names (set(dir(Namespace)) recomputed from the class body and argparse.Namespace)"]
    return [
        Unit(prop, T + "_parse_key", pk_setup, pk_post, pk_raises, expect_cover=("return", "raise:NSKeyError"), max_paths=20000, trusted=tr),
        Unit(prop, T + "_parse_required_key", read_setup, prk_post, prk_raises, expect_cover=("return", "raise:NSKeyError"), max_paths=20000, trusted=tr),
        Unit(prop, T + "__getitem__", read_setup, gi_post, gi_raises, expect_cover=("return", "raise:NSKeyError"), max_paths=20000, trusted=tr),
        Unit(prop, T + "__contains__", read_any_setup, ct_post, never, expect_cover=("return",), max_paths=20000, trusted=tr),
        Unit(prop, T + "get", read_any_setup, get_post, never, expect_cover=("return",), max_paths=20000, trusted=tr),
        Unit(prop, T + "__setitem__", write_setup, si_post, si_raises, expect_cover=("return", "raise:NSKeyError"), max_paths=20000, trusted=tr),
        Unit(prop, T + "__setattr__", write_setup, sa_post, sa_raises, expect_cover=("return", "raise:NSKeyError"), max_paths=20000, trusted=tr + ["super().__setattr__ is object.__setattr__: writes the instance dictionary"]),
        Unit(prop, T + "__delitem__", write_setup, di_post, di_raises, expect_cover=("return", "raise:KeyError"), max_paths=20000, trusted=tr),
        Unit(prop, T + "pop", pop_setup, pop_post, pop_raises, expect_cover=("return", "raise:NSKeyError"), max_paths=20000, trusted=tr),
        Unit(prop, T + "_create_nested_namespace", cn_setup, cn_post, never_cn, expect_cover=("return",), max_paths=20000, trusted=tr + ["precondition from the call site: key components carry their clash mark"]),
        Unit(prop, T + "items", it_setup, it_post, it_raises, expect_cover=("return",), max_paths=5000, trusted=tr + ["a generator's result is the sequence of yielded values"]),
        Unit(prop, T + "keys", it_setup, keys_post, it_raises, expect_cover=("return",), max_paths=5000, trusted=tr),
        Unit(prop, T + "values", it_setup, values_post, it_raises, expect_cover=("return",), max_paths=5000, trusted=tr),
        Unit(prop, T + "as_dict", ad_setup, ad_post, ad_raises, expect_cover=("return",), max_paths=5000, trusted=tr),
        Unit(prop, T + "get_sorted_keys", gsk_setup, gsk_post, gsk_raises, expect_cover=("return",), max_paths=5000, trusted=tr + ["list.sort(key=...) is a stable sort"]),
        Unit(prop, T + "update", up_setup, up_post, up_raises, expect_cover=("return", "raise:NSKeyError"), max_paths=20000, trusted=tr),
        Unit(prop, T + "__init__", init_setup, init_post, init_raises, expect_cover=("return", "raise:ValueError"), max_paths=5000, trusted=tr + ["argparse.Namespace.__init__(**kwargs) does setattr(self, name, value) for each keyword"]),
    ]


def never_cn(ctx, st, exc):
    d = st.data
    ctx.oblige("raises", f"never-raises[{d['tree']},{d['key']!r}](got {exc.cls}@{exc.origin})", False)


def ad_raises(ctx, st, exc):
    d = st.data
    ctx.oblige("raises", f"never-raises[{d['tree']},{d['extra']}](got {exc.cls}@{exc.origin})", False)


def gsk_raises(ctx, st, exc):
    d = st.data
    ctx.oblige("raises", f"never-raises[{d['tree']}](got {exc.cls}@{exc.origin})", False)
