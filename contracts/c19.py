"""C19 - path types accept exactly what the mode says; relative paths follow the config.

Units (read from /repo/jsonargparse/_util.py on every run):
  Path._check_mode        valid_mode(mode) <=> returns normally; else ValueError      (mode: any string, as a multiset of chars)
  Path.__init__           local str paths: accept-iff mode_ok(mode, fs, abs); raises only PathError; relative/absolute/cwd bookkeeping
  change_to_path_dir      cwd / current_path_dir set inside the body and restored on every exit
  parse_url, is_absolute_path   string helpers (cvc5)
The file system is a family of uninterpreted predicates of the path (assumption A3: stable during the call).
"""
import z3

from pyvc.engine import CharBag, ClassRef, ExcVal, LoopSpec, PyRaise, Rec, SymList, SymZip, Unsupported, And, Or, Not, Implies, lift, is_z3
from pyvc.units import Setup, Unit

S = z3.StringSort()
B = z3.BoolSort()
I = z3.IntSort()
ALPHA = "fdrwxcusFDRWX"

# ---- the file system and os.path as uninterpreted functions (assumed external contracts)
fs_exists = z3.Function("fs.exists", S, B)          # os.access(p, F_OK)
fs_isdir = z3.Function("fs.isdir", S, B)            # os.path.isdir(p)
fs_isfile = z3.Function("fs.isfile", S, B)          # os.path.isfile(p)
fs_stmode = z3.Function("fs.st_mode", S, I)         # os.stat(p).st_mode
S_ISFIFO = z3.Function("stat.S_ISFIFO", I, B)
fs_r = z3.Function("fs.access_R", S, B)
fs_w = z3.Function("fs.access_W", S, B)
fs_x = z3.Function("fs.access_X", S, B)
expanduser = z3.Function("os.path.expanduser", S, S)
isabs = z3.Function("os.path.isabs", S, B)
join = z3.Function("os.path.join", S, S, S)
realpath = z3.Function("os.path.realpath", S, S)
dirname = z3.Function("os.path.dirname", S, S)
abspath = z3.Function("os.path.abspath", S, S)
nearest = z3.Function("spec.nearest_dir_or_root", S, S)
getcwd = z3.String("os.getcwd()")
p_ = z3.String("p!ax")


def up(p):
    return realpath(join(p, z3.StringVal("..")))


def isfifo(p):
    return S_ISFIFO(fs_stmode(p))


def fs_facts(ctx, p):
    """Assumed file-system axioms, instantiated for the path term p (quantifier free): isdir => exists and not isfile;
    isfile => exists; a path that does not exist is neither readable, writeable nor executable."""
    seen = ctx.ghost.setdefault("fs_facts", set())
    if p.get_id() in seen:
        return
    seen.add(p.get_id())
    ctx.assume(z3.Implies(fs_isdir(p), z3.And(fs_exists(p), z3.Not(fs_isfile(p)))))
    ctx.assume(z3.Implies(fs_isfile(p), fs_exists(p)))
    ctx.assume(z3.Implies(z3.Not(fs_exists(p)), z3.And(z3.Not(fs_r(p)), z3.Not(fs_w(p)), z3.Not(fs_x(p)))))


def unfold_nearest(ctx, p):
    """Definition of the spec function, instantiated at p: nearest(p) = p if isdir(p) or up(p) == p else nearest(up(p))."""
    fs_facts(ctx, p)
    ctx.assume(nearest(p) == z3.If(z3.Or(fs_isdir(p), up(p) == p), p, nearest(up(p))))


def valid_mode(bag: CharBag):
    """Only flags of fdrwxcusFDRWX, each at most once except c (twice), not f with d, not u with d, not s with d."""
    has = bag.has
    if bag.alphabet is None:
        ch = z3.String("ch!vm")
        only_alpha = z3.ForAll([ch], z3.Implies(bag.cnt(ch) >= 1, z3.Or(*[ch == z3.StringVal(c) for c in ALPHA])), patterns=[bag.cnt(ch)])
    else:
        only_alpha = bag.other == 0
    return z3.And(
        only_alpha,
        *[bag.count(c) <= (2 if c == "c" else 1) for c in ALPHA],
        z3.Not(z3.And(has("f"), has("d"))), z3.Not(z3.And(has("u"), has("d"))), z3.Not(z3.And(has("s"), has("d"))),
    )


def mode_ok(bag: CharBag, a):
    """Spec written flag by flag from the Path docstring: what the file system must satisfy for mode `bag` at absolute path a."""
    has = bag.has
    file_like = z3.Or(fs_isfile(a), z3.And(fs_exists(a), isfifo(a)))
    pd = z3.If(z3.And(z3.Not(fs_isdir(up(a))), bag.count("c") == 2), nearest(up(a)), up(a))
    creatable = z3.And(
        fs_isdir(pd), fs_w(pd),
        z3.Implies(has("d"), z3.Not(z3.And(fs_exists(a), z3.Not(fs_isdir(a))))),
        z3.Implies(has("f"), z3.Not(z3.And(fs_exists(a), z3.Not(fs_isfile(a))))),
    )
    existing = z3.And(fs_exists(a), z3.Implies(has("d"), fs_isdir(a)), z3.Implies(has("f"), file_like))
    return z3.And(
        z3.If(has("c"), creatable, z3.Implies(z3.Or(has("d"), has("f")), existing)),
        z3.Implies(has("r"), fs_r(a)), z3.Implies(has("w"), fs_w(a)), z3.Implies(has("x"), fs_x(a)),
        z3.Implies(has("D"), z3.Not(fs_isdir(a))), z3.Implies(has("F"), z3.Not(file_like)),
        z3.Implies(has("R"), z3.Not(fs_r(a))), z3.Implies(has("W"), z3.Not(fs_w(a))), z3.Implies(has("X"), z3.Not(fs_x(a))),
    )


def new_bag(ctx, name="mode"):
    bag = CharBag(ctx, name)
    ch = z3.String("ch!len")
    ctx.axiom(z3.ForAll([ch], z3.Implies(z3.Length(ch) != 1, bag.cnt(ch) == 0), patterns=[bag.cnt(ch)]))
    return bag


# ------------------------------------------------------------------------------------- _check_mode
def m_set(ctx, args, kwargs):
    """set(x): concrete for literals; for a CharBag an object supporting `- literal_set` and len() (assumed contract of set)."""
    (x,) = args
    if isinstance(x, str):
        return set(x)
    if not isinstance(x, CharBag):
        raise Unsupported("set() of this value")

    def sub(ctx_, self, a, kw):
        (other,) = a
        if not (isinstance(other, (set, frozenset)) and all(isinstance(c, str) and len(c) == 1 for c in other)):
            raise Unsupported("set difference with a non-literal set")

        def length(ctx__, self_, a_, kw_):
            d = ctx__.fresh("setdiff.len", I)
            bad = ctx__.fresh("setdiff.witness", S)
            ch = z3.String("ch!sd")
            inside = lambda t: z3.Or(*[t == z3.StringVal(c) for c in sorted(other)])  # noqa: E731
            ctx__.assume(d >= 0)
            ctx__.assume(z3.Implies(d > 0, z3.And(x.cnt(bad) >= 1, z3.Not(inside(bad)))))
            ctx__.assume(z3.Implies(d == 0, z3.ForAll([ch], z3.Implies(x.cnt(ch) >= 1, inside(ch)), patterns=[x.cnt(ch)])))
            return d

        return Rec("set-difference", methods={"__len__": length})

    return Rec("set-of-chars", methods={"__sub__": sub})


def m_counter(ctx, args, kwargs):
    """Counter(s).items(): one (char, multiplicity) pair per distinct character of s (assumed contract of Counter)."""
    (x,) = args
    if not isinstance(x, CharBag):
        raise Unsupported("Counter() of this value")

    def items(ctx_, self, a, kw):
        keys = SymList(ctx_, "counter.keys", S)
        j = z3.Int("j!cnt")
        ch = z3.String("ch!cnt")
        pos = z3.Function("counter.pos", S, I)
        ctx_.assume(z3.ForAll([j], z3.Implies(z3.And(0 <= j, j < keys.len), x.cnt(keys.arr[j]) >= 1), patterns=[keys.arr[j]]))
        ctx_.assume(z3.ForAll([ch], z3.Implies(x.cnt(ch) >= 1, z3.And(0 <= pos(ch), pos(ch) < keys.len, keys.arr[pos(ch)] == ch)), patterns=[x.cnt(ch)]))
        counts = SymList(ctx_, "counter.values", I, length=keys.len, arr=z3.Lambda([j], x.cnt(keys.arr[j])))
        self.attrs["keys"] = keys
        return SymZip([keys, counts])

    rec = Rec("Counter", methods={"items": items})
    ctx.ghost["counter"] = rec
    return rec


def cm_setup(ctx):
    which = ctx.choose(2, "mode-kind")  # 0: a string, 1: not a string
    if which == 1:
        return Setup(env={"mode": None}, data={"bag": None})
    bag = new_bag(ctx)

    def inv(ctx_, env, k):
        keys = ctx_.ghost["counter"].attrs["keys"]
        j = z3.Int("j!inv")
        return z3.ForAll([j], z3.Implies(z3.And(0 <= j, j < k), bag.cnt(keys.arr[j]) <= z3.If(keys.arr[j] == z3.StringVal("c"), 2, 1)), patterns=[keys.arr[j]])

    loops = {0: LoopSpec(inv=inv, havoc=lambda c, e: None, havoc_vars=("flag", "count"))}
    watch = {f"count[{c}]": bag.count(c) for c in ALPHA}
    return Setup(env={"mode": bag}, calls={"set": m_set, "Counter": m_counter}, loops=loops, data={"bag": bag}, watch=watch)


def cm_post(ctx, st, result):
    bag = st.data["bag"]
    if bag is None:
        ctx.oblige("post", "non-string-mode-is-rejected", False)
    else:
        ctx.oblige("post", "accepted=>valid_mode", valid_mode(bag))


def cm_raises(ctx, st, exc):
    bag = st.data["bag"]
    if exc.cls != "ValueError":
        ctx.oblige("raises", f"only-ValueError(got {exc.cls}@{exc.origin})", False)
    elif bag is not None:
        ctx.oblige("raises", f"ValueError=>not-valid_mode({exc.origin})", z3.Not(valid_mode(bag)))


# ------------------------------------------------------------------------------------- Path.__init__
def no_url(s):
    return z3.Not(z3.Contains(s, z3.StringVal("://")))


def pi_setup(ctx):
    bag = CharBag(ctx, "mode", ALPHA)
    scenario = ctx.choose(8, "scenario")  # bit 0: path is "-", bit 1: cwd given, bit 2: current_path_dir set
    std_io = bool(scenario & 1)
    path = "-" if std_io else z3.String("path")
    cwd = z3.String("cwd") if scenario & 2 else None
    cpd = z3.String("current_path_dir") if scenario & 4 else None
    # precondition: local paths only (no URL / fsspec involvement), checks enabled
    pz = lift(path)
    if not std_io:
        ctx.assume(path != z3.StringVal("-"))
    ctx.assume(no_url(expanduser(pz)))
    ctx.assume(z3.Not(z3.PrefixOf(z3.StringVal("file:"), expanduser(pz))))
    ctx.assume(no_url(getcwd))
    ctx.assume(z3.Length(getcwd) > 0)
    if cwd is not None:
        ctx.assume(no_url(cwd))
    if cpd is not None:
        ctx.assume(no_url(cpd))

    def check_mode(ctx_, self, args, kwargs):
        (m,) = args
        if m is not bag:
            raise Unsupported("_check_mode called with something else than `mode`")
        if ctx_.choose(2, "_check_mode", [valid_mode(bag), z3.Not(valid_mode(bag))]) == 1:
            raise PyRaise(ExcVal("ValueError", origin="_check_mode"))
        return None

    def deprecated_kwargs(ctx_, self, args, kwargs):
        self.attrs["_skip_check"] = False  # precondition: no skip_check=True (deprecated escape hatch)
        return None

    def pattern_match(ctx_, self, args, kwargs):
        (s,) = args
        if ctx_.branch(z3.PrefixOf(z3.StringVal("file:"), lift(s)), "file-scheme"):
            raise Unsupported("file:// scheme paths are outside this contract")
        return None

    self = Rec("Path", attrs={"_file_scheme": Rec("Pattern", methods={"match": pattern_match})},
               methods={"_check_mode": check_mode, "_deprecated_kwargs": deprecated_kwargs})

    def parse_url(ctx_, args, kwargs):
        (s,) = args
        if ctx_.branch(z3.Contains(lift(s), z3.StringVal("://")), "url"):
            raise Unsupported("URL paths are outside this contract")
        return None

    def is_absolute_path(ctx_, args, kwargs):
        (s,) = args
        s = lift(s)
        return z3.Or(z3.IndexOf(s, z3.StringVal("://"), 0) > 0, isabs(s))

    def os_access(ctx_, args, kwargs):
        p, flag = args
        fs_facts(ctx_, lift(p))
        return {"F": fs_exists, "R": fs_r, "W": fs_w, "X": fs_x}[flag](lift(p))

    def fs_pred(pred):
        def model(ctx_, args, kwargs):
            fs_facts(ctx_, lift(args[0]))
            return pred(lift(args[0]))
        return model

    def os_stat(ctx_, args, kwargs):
        (p,) = args
        p = lift(p)
        fs_facts(ctx_, p)
        if not ctx_.branch(fs_exists(p), "os.stat-exists"):
            raise PyRaise(ExcVal("FileNotFoundError", origin="os.stat"))
        return Rec("stat_result", attrs={"st_mode": fs_stmode(p)})

    calls = {
        "os.fspath": lambda c, a, k: a[0],
        "os.path.expanduser": lambda c, a, k: expanduser(lift(a[0])),
        "os.path.join": lambda c, a, k: join(lift(a[0]), lift(a[1])) if len(a) == 2 else join(join(lift(a[0]), lift(a[1])), lift(a[2])),
        "os.path.realpath": lambda c, a, k: realpath(lift(a[0])),
        "os.path.isdir": fs_pred(fs_isdir),
        "os.path.isfile": fs_pred(fs_isfile),
        "os.getcwd": lambda c, a, k: getcwd,
        "os.access": os_access,
        "os.stat": os_stat,
        "stat.S_ISFIFO": lambda c, a, k: S_ISFIFO(a[0]),
        "parse_url": parse_url,
        "is_absolute_path": is_absolute_path,
        "current_path_dir.get": lambda c, a, k: cpd,
    }
    consts = {"os.F_OK": "F", "os.R_OK": "R", "os.W_OK": "W", "os.X_OK": "X", "os.PathLike": ClassRef("PathLike"), "Path": ClassRef("Path"),
              "os.name": "posix", "url_support": False, "fsspec_support": False}

    def havoc(ctx_, env):
        none = ctx_.choose(2, "ppdir-none") == 0
        pdir = ctx_.fresh("pdir", S)
        env.set("pdir", pdir)
        env.set("ppdir", None if none else ctx_.fresh("ppdir", S))
        unfold_nearest(ctx_, pdir)

    def inv(ctx_, env, k):
        pdir, ppdir, a = env.lookup("pdir"), env.lookup("ppdir"), env.lookup("abs_path")
        base = nearest(pdir) == nearest(up(a))
        if ppdir is None:
            return z3.And(base, pdir == up(a))
        return z3.And(base, pdir == up(ppdir), z3.Not(fs_isdir(ppdir)))

    loops = {0: LoopSpec(inv=inv, havoc=havoc, havoc_vars=("pdir", "ppdir"))}
    ea = expanduser(pz)
    cwd_eff = getcwd if cwd is None else z3.If(z3.Length(cwd) > 0, cwd, getcwd)
    # the base directory as a location: a cwd argument that is itself relative is taken relative to the process working directory.
    # os.path.join / os.getcwd (assumed, instantiated for the terms used): getcwd() is absolute; join(a, b) == b for an absolute b; join(a, b) is absolute for an absolute a
    base_dir = join(getcwd, cwd_eff)
    ctx.assume(isabs(getcwd))
    ctx.assume(z3.Implies(isabs(cwd_eff), base_dir == cwd_eff))
    ctx.assume(isabs(base_dir))
    expected_abs = z3.If(isabs(ea), ea, join(base_dir, ea))
    ctx.assume(z3.Implies(z3.Not(isabs(ea)), isabs(join(base_dir, ea))))
    fs_facts(ctx, expected_abs)
    unfold_nearest(ctx, up(expected_abs))
    watch = {f"count[{c}]": bag.count(c) for c in ALPHA}
    watch.update({"path": pz, "exists": fs_exists(expected_abs), "isdir": fs_isdir(expected_abs), "isfile": fs_isfile(expected_abs),
                  "isfifo": isfifo(expected_abs), "R": fs_r(expected_abs), "W": fs_w(expected_abs), "X": fs_x(expected_abs),
                  "parent_isdir": fs_isdir(up(expected_abs)), "parent_W": fs_w(up(expected_abs))})
    env = {"self": self, "path": path, "mode": bag, "cwd": cwd, "kwargs": {}}
    return Setup(env=env, calls=calls, consts=consts, loops=loops, watch=watch,
                 data={"bag": bag, "self": self, "path": path, "std_io": std_io, "expected_abs": expected_abs, "cwd_eff": cwd_eff})


def pi_post(ctx, st, result):
    d = st.data
    self, bag = d["self"], d["bag"]
    ctx.oblige("post", "relative==path-as-given", self.attrs.get("_relative") is d["path"] or (is_z3(self.attrs.get("_relative")) and self.attrs["_relative"] == lift(d["path"])))
    ctx.oblige("post", "absolute==expanduser(path)-or-join(the base directory as a location,..)", lift(self.attrs.get("_absolute", "")) == d["expected_abs"])
    ctx.oblige("post", "the-resolved-location-is-absolute(also for a cwd argument that is itself relative)", isabs(lift(self.attrs.get("_absolute", ""))))
    ctx.oblige("post", "cwd==given-or-getcwd", lift(self.attrs.get("_cwd") if self.attrs.get("_cwd") is not None else "") == d["cwd_eff"])
    ctx.oblige("post", "mode-stored-unchanged", self.attrs.get("_mode") is bag)
    ctx.oblige("post", "accepted=>valid_mode", valid_mode(bag))
    if not d["std_io"]:
        ctx.oblige("post", "accepted=>mode_ok", mode_ok(bag, d["expected_abs"]))
    else:
        ctx.oblige("post", "dash-is-std-io", self.attrs.get("_std_io") is True)


def pi_raises(ctx, st, exc):
    d = st.data
    if exc.cls == "PathError":
        if d["std_io"]:
            ctx.oblige("raises", f"dash-never-rejected({exc.origin})", False)
        else:
            ctx.oblige("raises", f"PathError=>not-mode_ok({exc.origin})", z3.Not(mode_ok(d["bag"], d["expected_abs"])))
    elif exc.cls == "ValueError" and exc.origin == "_check_mode":
        ctx.oblige("raises", "ValueError=>not-valid_mode", z3.Not(valid_mode(d["bag"])))
    else:
        ctx.oblige("raises", f"only-PathError-or-mode-ValueError(got {exc.cls}@{exc.origin})", False)


# ------------------------------------------------------------------------------------- Path.__init__ given a Path object
def pi2_setup(ctx):
    """A path type applied to a value that already is a Path (a default, a value handed to parse_object, a copy): the mode is checked against the file system
    *now* - the object may have been accepted earlier for another mode, or for this one before the file system changed."""
    from pyvc.engine import PathEnd
    st = pi_setup(ctx)
    if st.data["std_io"]:
        raise PathEnd()
    same_mode = ctx.choose(2, "the-given-Path-has-the-same-mode") == 1
    g_abs, g_rel, g_cwd = z3.String("given.absolute"), z3.String("given.relative"), z3.String("given.cwd")
    ctx.assume(isabs(g_abs))
    ctx.assume(no_url(g_abs))
    other_bag = CharBag(ctx, "given.mode", ALPHA)
    given = Rec("Path", attrs={"_std_io": False, "is_url": False, "is_fsspec": False, "_url_data": None, "cwd": g_cwd, "absolute": g_abs, "relative": g_rel,
                               "mode": st.data["bag"] if same_mode else other_bag, "_skip_check": False, "_mode": st.data["bag"] if same_mode else other_bag})
    st.env["path"] = given
    st.data.update(path=g_rel, expected_abs=g_abs, cwd_eff=g_cwd, same_mode=same_mode)
    return st


# ------------------------------------------------------------------------------------- change_to_path_dir
def ctx_var(ctx, name, initial):
    """ContextVar model: get / set (returns a token remembering the old value) / reset(token)."""
    ctx.ghost[name] = initial
    return {
        f"{name}.get": lambda c, a, k: c.ghost[name],
        f"{name}.set": lambda c, a, k: (lambda old: (c.ghost.__setitem__(name, a[0]), Rec("Token", attrs={"old": old, "var": name}))[1])(c.ghost[name]),
        f"{name}.reset": lambda c, a, k: c.ghost.__setitem__(name, a[0].attrs["old"]),
    }


def same(a, b):
    """Equality of two optional strings."""
    if a is None or b is None:
        return a is None and b is None
    return lift(a) == lift(b)


def cd_setup(ctx):
    scenario = ctx.choose(4, "scenario")  # bit 0: path given (local file/dir), bit 1: current_path_dir already set
    cpd0 = z3.String("current_path_dir0") if scenario & 2 else None
    cwd0 = z3.String("cwd0")
    ctx.assume(z3.Length(cwd0) > 0)  # os.getcwd() never returns ''
    calls = ctx_var(ctx, "current_path_dir", cpd0)
    ctx.ghost["cwd"] = cwd0
    bag = CharBag(ctx, "path.mode", ALPHA)
    absolute = z3.String("path.absolute")
    path = Rec("Path", attrs={"_url_data": None, "is_url": False, "is_fsspec": False, "absolute": absolute, "mode": bag,
                             "cwd": z3.String("path.cwd(the working directory when the Path object was created: any, the process may have moved since)")}) if scenario & 1 else None
    # precondition: path.absolute is an absolute local path, so it and its dirname are non-empty
    ctx.assume(z3.Length(absolute) > 0)
    ctx.assume(z3.Length(dirname(absolute)) > 0)
    def chdir_model(c, a, k):
        d = lift(a[0]) if isinstance(a[0], str) or is_z3(a[0]) else a[0]
        if not (is_z3(d) and d.sort() == S):
            raise PyRaise(ExcVal("TypeError", origin="os.chdir(not a path)"))  # os.chdir(True): what CPython answers
        c.ghost["cwd"] = d
        c.event("chdir", d)
        return None

    calls.update({
        "os.getcwd": lambda c, a, k: c.ghost["cwd"],
        "os.chdir": chdir_model,
        "os.path.abspath": lambda c, a, k: abspath(lift(a[0])),
        "os.path.dirname": lambda c, a, k: dirname(lift(a[0])),
        # sibling functions the body does not use today: an arbitrary function of the text (following symbolic links gives another location in general),
        # so that a change that resolves links before entering the directory is refuted instead of leaving the unit undecided
        "os.path.realpath": lambda c, a, k: realpath(lift(a[0])),
        "os.path.normpath": lambda c, a, k: z3.Function("os.path.normpath", S, S)(lift(a[0])),
    })

    def at_yield(ctx_, interp, value, env):
        ctx_.ghost["yielded"] = True
        if path is None:
            ctx_.oblige("yield", "no-path: cwd and current_path_dir as before", z3.And(ctx_.ghost["cwd"] == cwd0, zb(same(ctx_.ghost["current_path_dir"], cpd0))))
            return
        target = z3.If(bag.has("d"), absolute, dirname(absolute))
        ctx_.oblige("yield", "current_path_dir==directory-of-the-path", zb(same(ctx_.ghost["current_path_dir"], target)))
        ctx_.oblige("yield", "cwd==abspath(directory-of-the-path)-unless-empty", z3.If(z3.Length(target) > 0, ctx_.ghost["cwd"] == abspath(target), ctx_.ghost["cwd"] == cwd0))

    return Setup(env={"path": path}, calls=calls, hooks={"yield": at_yield}, data={"cwd0": cwd0, "cpd0": cpd0})


def zb(x):
    return z3.BoolVal(x) if isinstance(x, bool) else x


def cd_restored(ctx, st, label):
    ctx.oblige("post", f"cwd-restored({label})", ctx.ghost["cwd"] == st.data["cwd0"])
    ctx.oblige("post", f"current_path_dir-restored({label})", zb(same(ctx.ghost["current_path_dir"], st.data["cpd0"])))
    ctx.oblige("post", f"yielded-exactly-once({label})", len([e for e in ctx.events if e[0] == "yield"]) == 1)


def cd_post(ctx, st, result):
    cd_restored(ctx, st, "normal-exit")


def cd_raises(ctx, st, exc):
    if exc.cls == "<Any>":
        cd_restored(ctx, st, "exception-from-the-body")
    else:
        ctx.oblige("raises", f"no-own-exception(got {exc.cls}@{exc.origin})", False)


# ------------------------------------------------------------------------------------- call sites: nested loads run inside change_to_path_dir(file)
def cm_change_to_path_dir(ctx):
    """Context-manager contract used at call sites: records enter/exit events; never swallows exceptions."""
    def enter(ctx_, args, kwargs):
        ctx_.event("enter-dir", args[0])
        ctx_.ghost.setdefault("dir_stack", []).append(args[0])
        return None

    def exit_(ctx_, token, exc):
        ctx_.event("exit-dir")
        ctx_.ghost["dir_stack"].pop()
        return False

    return (enter, exit_)


def pp_setup(ctx):
    def get_content(c, s_, a, k):
        c.event("read", s_, tuple(c.ghost.get("dir_stack", [])))
        if c.choose(2, "the-file-is-not-text(UnicodeDecodeError)") == 1:
            raise PyRaise(ExcVal("UnicodeDecodeError", args=("invalid start byte",), origin="get_content"))
        return z3.String("cfg_str")

    ctx.classes.add("UnicodeDecodeError", ["ValueError"])
    fpath = Rec("Path", attrs={}, methods={"get_content": get_content})
    cfg_path = z3.String("cfg_path")

    def path_ctor(ctx_, args, kwargs):
        if args[0] is not cfg_path:
            raise Unsupported("Path() of something else than cfg_path")
        ctx_.event("Path", kwargs.get("mode"))
        which = ctx_.choose(3, "Path-raises")
        if which == 1:
            raise PyRaise(ExcVal("PathError", args=("File does not exist",), origin="Path()"))
        if which == 2:
            raise PyRaise(ExcVal("ValueError", args=("embedded null byte",), origin="Path()"))  # a text no file system call accepts
        return fpath

    def parse_string(ctx_, self, args, kwargs):
        ctx_.event("parse_string", args[0], tuple(ctx_.ghost.get("dir_stack", [])))
        ctx_.event("parse_string-args", tuple(args), dict(kwargs))
        if ctx_.choose(2, "parse_string-raises") == 1:
            raise PyRaise(ExcVal("ArgumentError", origin="parse_string"))
        return Rec("Namespace")

    def error(ctx_, self_, args, kwargs):
        ctx_.event("self.error", args[0], tuple(ctx_.ghost.get("dir_stack", [])))
        raise PyRaise(ExcVal("ArgumentError", origin="self.error"))  # contract of ArgumentParser.error: never returns (ArgumentError or exit status 2)

    self = Rec("ArgumentParser", methods={"parse_string": parse_string, "error": error})
    calls = {"Path": path_ctor, "get_config_read_mode": lambda c, a, k: "fr", "os.path.basename": lambda c, a, k: z3.String("basename")}
    vals = {"ext_vars": Rec("ext_vars"), "env": z3.Bool("env"), "defaults": z3.Bool("defaults"), "with_meta": z3.Bool("with_meta")}
    env = {"self": self, "cfg_path": cfg_path, "kwargs": {"_skip_validation": True}}
    env.update(vals)
    return Setup(env=env, calls=calls, cms={"change_to_path_dir": cm_change_to_path_dir(ctx)}, data={"fpath": fpath, "vals": vals}, drop_calls=("self._logger.debug",))


def pp_check(ctx, st, label):
    fpath = st.data["fpath"]
    loads = [e for e in ctx.events if e[0] == "parse_string"]
    for e in loads:
        ctx.oblige("proto", f"nested-parse-runs-inside-change_to_path_dir(config file)[{label}]", len(e[2]) == 1 and e[2][0] is fpath)
    enters = len([e for e in ctx.events if e[0] == "enter-dir"])
    exits = len([e for e in ctx.events if e[0] == "exit-dir"])
    ctx.oblige("proto", f"every-enter-has-its-exit[{label}]", enters == exits)
    return loads


def pp_post(ctx, st, result):
    loads = pp_check(ctx, st, "return")
    ctx.oblige("post", "config-was-parsed-exactly-once", len(loads) == 1)
    pa = [e for e in ctx.events if e[0] == "parse_string-args"]
    v = st.data["vals"]
    ok = len(pa) == 1 and len(pa[0][1]) == 6 and str(pa[0][1][0]) == "cfg_str" and str(pa[0][1][1]) == "basename" and pa[0][1][2] is v["ext_vars"] and pa[0][1][3] is v["env"] and pa[0][1][4] is v["defaults"] and pa[0][1][5] is v["with_meta"] and pa[0][2] == {"_skip_validation": True}
    ctx.oblige("post", "the-file's-content-is-parsed-as-a-config-string-named-by-the-file's-base-name,with-the-caller's-ext_vars/env/defaults/with_meta-and-private-keywords", ok)


def pp_raises(ctx, st, exc):
    pp_check(ctx, st, "raise")
    # C03: a path that cannot be opened or read as a config is a parse failure like any other: it leaves through the parser's error channel
    # (PathError / ValueError of Path() and the UnicodeDecodeError of a file that is not text escaped parse_path as they were; fixed)
    ctx.oblige("raises", f"a-failure-leaves-through-the-parser's-error-channel(self.error)-or-comes-from-the-nested-parse,never-as-the-raw-exception-of-Path()/get_content(got {exc.cls}@{exc.origin})",
               exc.origin in ("self.error", "parse_string"))
    errs = [e for e in ctx.events if e[0] == "self.error"]
    ctx.oblige("raises", "at-most-one-error-is-reported", len(errs) <= 1)


UNITS = [
    Unit("C19", "jsonargparse._util:Path._check_mode", cm_setup, cm_post, cm_raises, expect_cover=("return", "raise:ValueError"),
         replayer="replayers.c19:replay_check_mode",
         trusted=["set(str) - set(literal) is non-empty iff some character of the string is outside the literal (assumed contract of set)",
                  "Counter(str).items() yields one (char, multiplicity) pair per distinct character (assumed contract of Counter)"]),
    Unit("C19", "jsonargparse._util:Path.__init__", pi2_setup, pi_post, pi_raises, expect_cover=("return", "raise:PathError"), label="given-a-Path-object",
         trusted=["the fields of the given Path are what its own construction stored (its own unit): absolute is absolute and local", "file-system predicates as in the unit for strings"]),
    Unit("C19", "jsonargparse._util:Path.__init__", pi_setup, pi_post, pi_raises, expect_cover=("return", "raise:PathError"),
         replayer="replayers.c19:replay_path_init", split=8,
         trusted=["file system = uninterpreted predicates exists/isdir/isfile/st_mode/access_R/W/X of the path string, stable during the call (A3); isdir => exists and not isfile; isfile => exists; not exists => no access",
                  "os.stat(p) raises FileNotFoundError iff not exists(p)",
                  "os.path.expanduser/isabs/join/realpath, os.fspath (identity on str), os.getcwd are deterministic functions",
                  "precondition: str path, no '://' in path/cwd/current_path_dir/getcwd, no file: scheme, skip_check off (URL, fsspec and Path-from-Path branches are outside the contract)"]),
]

UNITS += [
    Unit("C19", "jsonargparse._util:change_to_path_dir", cd_setup, cd_post, cd_raises, expect_cover=("return", "raise:<Any>"),
         trusted=["ContextVar.get/set/reset behave as a variable with a token remembering the previous value",
                  "os.chdir(d) on the directory of an accepted path does not raise and makes os.getcwd() return d (A3)",
                  "the with-body leaves cwd and current_path_dir as it found them (nested uses: by this same contract)",
                  "precondition: path is None or a local Path whose .absolute and its dirname are non-empty (URL/fsspec paths outside the contract)"]),
    Unit("C19", "jsonargparse._core:ArgumentParser.parse_path", pp_setup, pp_post, pp_raises, expect_cover=("return", "raise:ArgumentError")),
]

from contracts.check_type import check_type_unit  # noqa: E402
UNITS.append(check_type_unit("C19"))

VERIFIED_CALLEES = ("self._check_mode", "change_to_path_dir")
LEVEL = "other"
TECHNIQUE = "contract-based deductive verification (VCs from the real AST, z3/cvc5) + bounded run-time contract checking"
LEVEL_TEXT = "Proved for local str paths and all mode strings (as multisets): Path._check_mode accepts exactly the valid modes; Path.__init__ returns normally exactly when the file system (uninterpreted predicates) satisfies every flag of the mode, raises only PathError otherwise (this refuted the shipped code for 'F' on a missing path; fixed), stores the spelling as given / the resolved absolute / cwd; change_to_path_dir sets cwd and current_path_dir inside the body and restores both on every exit; parse_path runs the nested parse inside change_to_path_dir(file). Bounded: 571 modes x 77 path kinds under an unprivileged uid against an os.stat oracle; nested configs <= 3 deep."
LEVEL_NOTE = "under construction"
EXPLANATION = "under construction"
ASSUMPTIONS = []
TRUSTED = []
BOUNDED = [{"name": "mode-flags-vs-os-oracle-and-nested-configs", "script": "bounded/b19_paths.py"}]


# ------------------------------------------------------------------------------------------------ reading through a Path
# "relative paths follow the config": a Path remembers the absolute location it was resolved to when it was created (relative to the
# directory of the config file it came from); reading goes to *that* location, whatever the working directory is by then.
def _path_rec(kind):
    return Rec("Path", attrs={"_relative": z3.String("path.relative"), "_absolute": z3.String("path.absolute"), "_cwd": z3.String("path.cwd"), "_mode": "fr",
                              "_std_io": kind == "stdio", "_is_url": kind == "url", "_is_fsspec": kind == "fsspec", "_url_data": None})


def gc_setup(ctx):
    kind = ["local", "stdio", "url", "fsspec"][ctx.choose(4, "kind")]
    mode = ["r", "rb", "omitted"][ctx.choose(3, "mode")] if kind != "url" else "omitted"
    self = _path_rec(kind)
    content = z3.String("content")
    opened = []

    def handle(where):
        h = Rec("file", attrs={"where": where}, methods={"read": lambda c, s_, a, k: (c.event("read", s_.attrs["where"]), content)[1]})
        return h

    def cm_open(tag):
        return (lambda c, a, k: (c.event("open", tag, a[0], a[1] if len(a) > 1 else k.get("mode", "r")), opened.append(tag), handle((tag, a[0])))[2], lambda c, t, e: (opened.pop(), False)[1])

    requests = Rec("requests", methods={"get": lambda c, s_, a, k: (c.event("http-get", a[0]), Rec("response", attrs={"text": content}, methods={"raise_for_status": lambda c2, s2, a2, k2: None}))[1]})
    calls = {"read_cached_stdin": lambda c, a, k: (c.event("stdin"), content)[1], "import_requests": lambda c, a, k: requests,
             "import_fsspec": lambda c, a, k: Rec("fsspec")}
    cms = {"open": cm_open("builtin-open"), "fsspec.open": cm_open("fsspec-open"), "handle": (lambda c, a, k: a[0], lambda c, t, e: False)}
    env = {"self": self}
    if mode != "omitted":
        env["mode"] = mode
    return Setup(env=env, calls=calls, cms=cms, data=dict(kind=kind, mode="r" if mode == "omitted" else mode, self_=self, content=content, opened=opened))


def gc_post(ctx, st, result):
    d = st.data
    tag = f"[{d['kind']},mode={d['mode']}]"
    ev = [e for e in ctx.events if e[0] in ("open", "http-get", "stdin")]
    a = d["self_"].attrs["_absolute"]
    want = {"local": [("open", "builtin-open", a, d["mode"])], "fsspec": [("open", "fsspec-open", a, d["mode"])], "url": [("http-get", a)], "stdio": [("stdin",)]}[d["kind"]]
    ctx.oblige("post", "the-content-is-read-from-the-absolute-location-the-path-was-resolved-to(never from its relative spelling),once,with-the-given-mode" + tag,
               len(ev) == len(want) and all(len(x) == len(y) and all(p is q or p == q for p, q in zip(x, y)) for x, y in zip(ev, want)) and result is d["content"])
    ctx.oblige("post", "nothing-is-left-open" + tag, not d["opened"])


def gc_raises(ctx, st, exc):
    ctx.oblige("raises", f"no-own-exception(got {exc.cls}@{exc.origin})", False)


def acc_setup(ctx):
    which = ["__call__(absolute=True)", "__call__(absolute=False)", "__call__()"][ctx.choose(3, "accessor")]
    self = _path_rec("local")
    env = {"self": self}
    if which.startswith("__call__(absolute="):
        env["absolute"] = which.endswith("True)")
    return Setup(env=env, data=dict(which=which, self_=self))


def acc_post(ctx, st, result):
    d = st.data
    want = d["self_"].attrs["_relative"] if d["which"] in ("__call__(absolute=False)", "__str__") else d["self_"].attrs["_absolute"]
    ctx.oblige("post", f"{d['which']}-is-the-{'spelling given' if want is d['self_'].attrs['_relative'] else 'absolute location'}", result is want)


def fixed_accessor(which):
    def setup(ctx):
        self = _path_rec("local")
        return Setup(env={"self": self}, data=dict(which=which, self_=self))
    return setup


def eq_setup(ctx):
    kind = ["other-Path", "str", "something-else"][ctx.choose(3, "other")]
    ctx.classes.add("Path", ["object"])
    self = _path_rec("local")
    other = {"other-Path": Rec("Path", attrs={"_absolute": z3.String("other.absolute"), "_relative": z3.String("other.relative")}), "str": z3.String("other"), "something-else": z3.Int("other")}[kind]
    return Setup(env={"self": self, "other": other}, consts={"Path": ClassRef("Path")}, calls={"str": lambda c, a, k: a[0].attrs["_relative"] if isinstance(a[0], Rec) else a[0]}, data=dict(kind=kind, self_=self, other=other))


def eq_post(ctx, st, result):
    d = st.data
    s, o = d["self_"], d["other"]
    want = (s.attrs["_absolute"] == o.attrs["_absolute"]) if d["kind"] == "other-Path" else (s.attrs["_relative"] == o) if d["kind"] == "str" else z3.BoolVal(False)
    ctx.oblige("post", f"two-paths-are-equal-iff-they-resolve-to-the-same-absolute-location(a string: iff it is the spelling given)[{d['kind']}]", lift(result) == want, strings=True)


UNITS += [
    Unit("C19", "jsonargparse._util:Path.get_content", gc_setup, gc_post, gc_raises, trusted=["open / fsspec.open / requests.get / the cached stdin are the I/O primitives (ghost events)"]),
    Unit("C19", "jsonargparse._util:Path.__call__", acc_setup, acc_post, gc_raises),
    Unit("C19", "jsonargparse._util:Path.__fspath__", fixed_accessor("__fspath__"), acc_post, gc_raises),
    Unit("C19", "jsonargparse._util:Path.__str__", fixed_accessor("__str__"), acc_post, gc_raises),
    Unit("C19", "jsonargparse._util:Path.__eq__", eq_setup, eq_post, gc_raises),
]


# ------------------------------------------------------------------------------------------------ path_type(mode): the registered path types
def pt_setup(ctx):
    mode = z3.String("the type's mode")
    skip = z3.Bool("the type's skip_check")
    extra = ctx.choose(2, "extra-keywords(cwd=...)") == 1
    v = z3.String("v")
    seen = []
    self = Rec("Path_<mode> instance", attrs={"_mode": mode, "_skip_check": skip})
    calls = {"super": lambda c, a, k: Rec("super()", methods={"__init__": lambda c2, s2, a2, k2: seen.append((a2, dict(k2)))})}
    cwd = z3.String("cwd")
    return Setup(env={"self": self, "v": v, "k": {"cwd": cwd} if extra else {}}, calls=calls, data=dict(mode=mode, skip=skip, v=v, seen=seen, extra=extra, cwd=cwd))


def pt_post(ctx, st, result):
    d = st.data
    want = {"mode": d["mode"], "skip_check": d["skip"]}
    if d["extra"]:
        want["cwd"] = d["cwd"]
    ok = len(d["seen"]) == 1 and len(d["seen"][0][0]) == 1 and d["seen"][0][0][0] is d["v"] and set(d["seen"][0][1]) == set(want) and all(d["seen"][0][1][k] is want[k] for k in want)
    ctx.oblige("post", "a-value-of-the-type-Path_<mode>-is-checked-by-Path.__init__-with-exactly-that-mode(and the caller's other keywords):the-type-accepts-what-the-mode-says", ok)


UNITS.append(Unit("C19", "jsonargparse.typing:path_type.<locals>.PathType.__init__", pt_setup, pt_post, gc_raises, trusted=["super().__init__ is Path.__init__ (its own unit)"]))


# ------------------------------------------------------------------------------------------------ parse_value_or_config
# "relative paths follow the config": whenever a value was read from a file, the caller learns which file (so that everything in it is
# resolved relative to that file's directory) - whatever the file's content loads to (a mapping, a list of paths, a scalar)
def pvc_setup(ctx):
    kind = ["path-to-a-file", "text-not-a-path", "dash", "not-a-string", "nested-arg-with-a-path", "nested-arg-with-text"][ctx.choose(6, "value")]
    enable_path = ctx.choose(2, "enable_path") == 1
    content_kind = ["mapping", "list", "scalar-int"][ctx.choose(3, "file-content-loads-to")] if "path" in kind and enable_path else "mapping"
    simple = z3.Bool("simple_types")
    ctx.classes.add("NestedArg", ["tuple"])
    text = z3.String("value") if kind != "dash" else "-"
    ctx.assume(text != z3.StringVal("-")) if kind != "dash" else None
    inner = text if "text" in kind or "path" in kind or kind == "dash" else z3.Int("value")
    value = Rec("NestedArg", attrs={"key": "k", "val": inner}) if kind.startswith("nested-arg") else inner
    is_path = "path" in kind
    open_cms = []
    content = z3.String("file content")
    loaded_file = {"mapping": {"a": 1}, "list": ["f1.txt"], "scalar-int": z3.Int("loaded")}[content_kind]
    # what the loader makes of a text that is not a path: a number (or another non-text value), the text itself, or *another* text ("'007'" loads to "007")
    text_loads_to = ["a-number", "the-same-text", "another-text(quotes removed)"][ctx.choose(3, "the-text-loads-to")] if kind in ("text-not-a-path", "nested-arg-with-text") else "a-number"
    loaded_text = {"a-number": z3.Int("text loaded as a number"), "the-same-text": text, "another-text(quotes removed)": z3.String("text loaded as another text")}[text_loads_to]
    the_path = Rec("Path", attrs={"tag": "the file"}, methods={"get_content": lambda c, s_, a, k: (c.event("read", list(open_cms)), content)[1]})

    def path_ctor(c, a, k):
        c.event("Path", a[0], k.get("mode"))
        if not is_path:
            raise PyRaise(ExcVal("TypeError", origin="Path()"))
        return the_path

    def load_value(c, a, k):
        c.event("load_value", a[0], k.get("simple_types"), list(open_cms))
        return loaded_file if a[0] is content else loaded_text

    calls = {"Path": path_ctor, "get_config_read_mode": lambda c, a, k: "fr", "load_value": load_value, "NestedArg": lambda c, a, k: Rec("NestedArg", attrs=dict(k)),
             "type": lambda c, a, k: ClassRef("str") if (isinstance(a[0], str) or (is_z3(a[0]) and a[0].sort() == z3.StringSort())) else ClassRef("int") if is_z3(a[0]) else ClassRef(type(a[0]).__name__)}
    cms = {"cfg_path.relative_path_context": (lambda c, a, k: open_cms.append("relative to the file"), lambda c, t, e: (open_cms.pop(), False)[1])}
    consts = {"NestedArg": ClassRef("NestedArg"), "str": ClassRef("str")}
    return Setup(env={"value": value, "enable_path": enable_path, "simple_types": simple}, calls=calls, cms=cms, consts=consts,
                 data=dict(text_loads_to=text_loads_to, kind=kind, enable_path=enable_path, content_kind=content_kind, text=text, the_path=the_path, loaded_file=loaded_file, loaded_text=loaded_text, content=content, open_cms=open_cms, simple=simple, inner=inner))


def pvc_post(ctx, st, result):
    d = st.data
    tag = f"[{d['kind']}{',enable_path' if d['enable_path'] else ''}{',content:' + d['content_kind'] if 'path' in d['kind'] and d['enable_path'] else ''}]"
    ok_shape = isinstance(result, tuple) and len(result) == 2
    ctx.oblige("post", "returns-(value, the file it was read from or None)" + tag, ok_shape)
    if not ok_shape:
        return
    val, path = result
    from_file = "path" in d["kind"] and d["enable_path"]
    ctx.oblige("post", "the-file-is-reported-exactly-when-the-value-was-read-from-one,whatever-its-content-loads-to" + tag, path is (d["the_path"] if from_file else None))
    ev = ctx.events
    if not d["enable_path"] or d["kind"] in ("dash", "not-a-string"):
        ctx.oblige("post", "no-path-is-tried-when-paths-are-not-enabled,for-'-'-and-for-values-that-are-not-text" + tag, not [e for e in ev if e[0] == "Path"])
    if from_file:
        rd = [e for e in ev if e[0] == "read"]
        lf = [e for e in ev if e[0] == "load_value" and e[1] is d["content"]]
        ctx.oblige("post", "the-file-is-read-and-its-content-loaded-relative-to-its-own-directory,with-the-caller's-simple_types" + tag,
                   len(rd) == 1 and rd[0][1] == ["relative to the file"] and len(lf) == 1 and lf[0][3] == ["relative to the file"] and lf[0][2] is d["simple"] and not d["open_cms"])
        inner = val.attrs["val"] if isinstance(val, Rec) and val.cls == "NestedArg" else val
        if d["content_kind"] == "mapping":
            ctx.oblige("post", "a-mapping-read-from-a-file-remembers-the-file-under-__path__" + tag, isinstance(inner, dict) and inner.get("__path__") is d["the_path"] and inner.get("a") == 1)
        elif d["content_kind"] == "list":
            ctx.oblige("post", "a-list-read-from-a-file-is-returned-as-loaded" + tag, inner is d["loaded_file"])
    if d["text_loads_to"] != "a-number" and not from_file:
        inner2 = val.attrs["val"] if isinstance(val, Rec) and val.cls == "NestedArg" else val
        # a text stays the text given when the loader reads it as a text - also as *another* text: "'007'" is the three characters with their quotes, not a config
        # (normalising it to 007 would make the next parse of the result read the number 7: C10)
        ctx.oblige("post", f"a-text-that-loads-to-a-text-stays-the-text-given[{d['text_loads_to']}]" + tag, inner2 is d["text"])
    if d["kind"].startswith("nested-arg"):
        ctx.oblige("post", "a-dotted-sub-option-keeps-its-key" + tag, isinstance(val, Rec) and val.cls == "NestedArg" and val.attrs.get("key") == "k")


def pvc_raises(ctx, st, exc):
    ctx.oblige("raises", f"no-own-exception[{st.data['kind']}](got {exc.cls}@{exc.origin})", False)


UNITS.append(Unit("C19", "jsonargparse._util:parse_value_or_config", pvc_setup, pvc_post, pvc_raises, max_paths=5000,
                  trusted=["Path(value, mode) raises TypeError unless value names a readable file (Path.__init__: its own unit)", "load_value: its own unit (C05)", "relative_path_context is change_to_path_dir(the path) (its own unit)"]))


from contracts.any_units import is_pathlike_unit, typehint_init_unit  # noqa: E402
UNITS += [is_pathlike_unit("C19"), typehint_init_unit("C19")]

from contracts.share import carried as _carried  # noqa: E402
UNITS += _carried("C19")
