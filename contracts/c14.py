"""C14 - a class_path is checked against the declared type and built from its config.

Units (jsonargparse/_typehints.py):
  is_subclass_spec               true exactly for a mapping with class_path whose keys are within
                                 {class_path, init_args, dict_kwargs, __path__}
  subclass_spec_as_namespace     short forms denote the explicit form: a string s is {class_path: s}; init_args /
                                 dict_kwargs without class_path take the previous class_path; a bare mapping of
                                 arguments becomes the init_args of the previous class
The import / subclass check and the per-class parser (adapt_typehints subclass arm, adapt_class_type) use import_object,
inspect and typing introspection - out of the verifier's reach; checked by the bounded harness on generated class families.
"""
import itertools

import z3

from pyvc.engine import ClassRef, ExcVal, PyRaise, Rec, Unsupported
from pyvc.units import Setup, Unit

SPEC_KEYS = ["class_path", "init_args", "dict_kwargs", "__path__"]


def ns(store, cls="Namespace"):
    """A Namespace / dict value as a concrete map of symbolic values."""
    def setitem(c, s_, a, k):
        store[a[0]] = a[1]
        c.mutated(s_)
    rec = Rec(cls, attrs={"store": store}, methods={
        "__contains__": lambda c, s_, a, k: a[0] in store,
        "__getitem__": lambda c, s_, a, k: store[a[0]],
        "__setitem__": setitem,
        "keys": lambda c, s_, a, k: list(store.keys()),
    })
    if cls == "Namespace":
        rec.attrs["__dict__"] = Rec("dict", methods={"keys": lambda c, s_, a, k: list(store.keys())})
    return rec


# ------------------------------------------------------------------------------------- is_subclass_spec
def iss_setup(ctx):
    kind = ["Namespace", "dict", "str", "None", "list"][ctx.choose(5, "value-kind")]
    if kind in ("Namespace", "dict"):
        mask = ctx.choose(2 ** len(SPEC_KEYS), "spec-keys")
        extra = ctx.choose(2, "foreign-key") == 1
        keys = [k for i, k in enumerate(SPEC_KEYS) if mask >> i & 1] + (["something_else"] if extra else [])
        val = ns({k: z3.Int(f"v[{k}]") for k in keys}, kind)
    else:
        keys = None
        val = {"str": z3.String("val"), "None": None, "list": [1]}[kind]
    consts = {"Namespace": ClassRef("Namespace")}
    calls = {"getattr": lambda c, a, k: a[0].attrs["__dict__"] if isinstance(a[0], Rec) and "__dict__" in a[0].attrs else a[2]}
    return Setup(env={"val": val}, consts=consts, calls=calls, data=dict(kind=kind, keys=keys))


def iss_post(ctx, st, result):
    d = st.data
    want = d["keys"] is not None and "class_path" in d["keys"] and set(d["keys"]) <= set(SPEC_KEYS)
    ctx.oblige("post", "true-exactly-for-a-mapping-with-class_path-and-only-spec-keys", result is want or result == want, note=f"{d['kind']} {d['keys']} -> {result!r}")


def no_exc(ctx, st, exc):
    ctx.oblige("raises", f"never-raises(got {exc.cls}@{exc.origin})", False)


# ------------------------------------------------------------------------------------- subclass_spec_as_namespace
def ssn_setup(ctx):
    kind = ["str", "explicit-spec", "init_args-only", "dict_kwargs-only", "bare-arguments", "other-type"][ctx.choose(6, "value-kind")]
    container = ["Namespace", "dict"][ctx.choose(2, "container")] if kind not in ("str", "other-type") else None
    prev_kind = ["none", "Namespace-with-class_path", "dict-with-class_path", "Namespace-without-class_path"][ctx.choose(4, "prev_val")]
    prev_cp = z3.String("prev.class_path")
    prev = None
    if prev_kind == "Namespace-with-class_path":
        prev = ns({"class_path": prev_cp, "init_args": z3.Int("prev.init_args")})
    elif prev_kind == "dict-with-class_path":
        prev = ns({"class_path": prev_cp}, "dict")
    elif prev_kind == "Namespace-without-class_path":
        prev = ns({"x": 1})
    cp, ia, dk, arg = z3.String("class_path"), z3.Int("init_args"), z3.Int("dict_kwargs"), z3.Int("some_argument")
    store = None
    if kind == "str":
        val = cp
    elif kind == "other-type":
        val = 7
    else:
        store = {"explicit-spec": {"class_path": cp, "init_args": ia}, "init_args-only": {"init_args": ia}, "dict_kwargs-only": {"dict_kwargs": dk}, "bare-arguments": {"a": arg}}[kind]
        val = ns(dict(store), container)

    def namespace_ctor(c, a, k):
        if a:
            src = a[0]
            if not isinstance(src, Rec) or "store" not in src.attrs:
                raise Unsupported("Namespace(x) of an unmodelled value")
            c.event("Namespace(copy)")
            return ns(dict(src.attrs["store"]))
        return ns(dict(k))

    def is_subclass_spec(c, a, k):
        v = a[0]
        keys = list(v.attrs["store"].keys()) if isinstance(v, Rec) and "store" in v.attrs else None
        return keys is not None and "class_path" in keys and set(keys) <= set(SPEC_KEYS)

    calls = {"Namespace": namespace_ctor, "is_subclass_spec": is_subclass_spec}
    consts = {"NestedArg": ClassRef("NestedArg")}
    ctx.classes.add("NestedArg", ["tuple"])
    return Setup(env={"val": val, "prev_val": prev}, calls=calls, consts=consts,
                 data=dict(kind=kind, prev_kind=prev_kind, prev_cp=prev_cp, cp=cp, ia=ia, dk=dk, arg=arg, val=val, store=store))


def view(v):
    return dict(v.attrs["store"]) if isinstance(v, Rec) and "store" in v.attrs else v


def ssn_post(ctx, st, result):
    d = st.data
    kind, prev_has_cp = d["kind"], d["prev_kind"] in ("Namespace-with-class_path", "dict-with-class_path")
    got = view(result)
    if kind == "other-type":
        ctx.oblige("post", "a-value-that-is-no-string-or-mapping-is-not-a-spec", result is None)
        return
    ctx.oblige("post", "result-is-a-Namespace", isinstance(result, Rec) and result.cls == "Namespace")
    if kind == "str":
        ctx.oblige("post", "a-string-s-denotes-{class_path: s}", isinstance(got, dict) and list(got) == ["class_path"] and got["class_path"] is d["cp"])
    elif kind == "explicit-spec":
        ctx.oblige("post", "an-explicit-spec-is-kept-as-is", isinstance(got, dict) and set(got) == {"class_path", "init_args"} and got["class_path"] is d["cp"] and got["init_args"] is d["ia"])
    elif kind in ("init_args-only", "dict_kwargs-only"):
        k, v = ("init_args", d["ia"]) if kind == "init_args-only" else ("dict_kwargs", d["dk"])
        if prev_has_cp:
            ctx.oblige("post", f"{k}-without-class_path-takes-the-previous-class_path", isinstance(got, dict) and set(got) == {"class_path", k} and got["class_path"] is d["prev_cp"] and got[k] is v)
        else:
            ctx.oblige("post", f"{k}-without-any-class_path-stays-incomplete(rejected later)", isinstance(got, dict) and "class_path" not in got)
    else:
        if prev_has_cp:
            inner = view(got.get("init_args")) if isinstance(got, dict) else None
            ctx.oblige("post", "a-bare-mapping-of-arguments-becomes-the-init_args-of-the-previous-class", isinstance(got, dict) and set(got) == {"class_path", "init_args"} and got["class_path"] is d["prev_cp"] and isinstance(inner, dict) and inner.get("a") is d["arg"])
        else:
            ctx.oblige("post", "a-bare-mapping-without-previous-class-is-returned-unchanged", isinstance(got, dict) and set(got) == {"a"})


UNITS = [
    Unit("C14", "jsonargparse._typehints:is_subclass_spec", iss_setup, iss_post, no_exc,
         trusted=["getattr(val, '__dict__', val).keys() lists the keys of a Namespace / dict"]),
    Unit("C14", "jsonargparse._typehints:subclass_spec_as_namespace", ssn_setup, ssn_post, no_exc,
         trusted=["Namespace(mapping) copies the mapping; Namespace(**kw) holds exactly kw", "NestedArg (dotted sub-option) inputs are outside this unit's scenarios"]),
]
from contracts.core_units import instantiate_unit  # noqa: E402
UNITS.append(instantiate_unit("C14"))

from contracts.adapt_arms import dataclass_unit  # noqa: E402
UNITS.append(dataclass_unit("C14"))

from contracts.class_type import class_type_unit  # noqa: E402
UNITS.append(class_type_unit("C14"))

from contracts.class_type import discard_unit, subclass_arm_unit  # noqa: E402
UNITS += [subclass_arm_unit("C14"), discard_unit("C14")]

VERIFIED_CALLEES = ("is_subclass_spec",)
LEVEL = "other"
TECHNIQUE = "contract-based deductive verification of the spec-normalisation helpers (VCs from the real AST, complete case analysis of spec shapes) + bounded run-time contract checking on generated class families with a constructor log"
LEVEL_TEXT = 'Verified: is_subclass_spec; subclass_spec_as_namespace (every short form denotes the explicit form: string, init_args / dict_kwargs without class_path, bare arguments, dotted sub-options --m.K, --m.dict_kwargs.K, --m.child.K); ActionTypeHint.__call__ (--m.K and --m.init_args.K are the same nested setting); the subclass arm of adapt_typehints (a class_path is accepted only if it imports to a subclass / implementer / callable returning one; every failure is the unexpected-value error); adapt_class_type (init_args validated by the parser of that very class, dict_kwargs handling, nested arguments instantiated first, the class constructed exactly once with {**init_args, **dict_kwargs}); discard_init_args_on_class_path_change; resolve_class_path_by_name / normalize_import_path / get_import_path / import_object (the accepted class_path imports back to the very class that was named - also when a parent package exposes another object under that name); group_instantiate_class; instantiate_classes. Also: the static discard walk (siblings sharing a name prefix are visited), add_subclasses of get_all_subclass_paths (classes below a private / abstract class are still offered by name), adapt_classes_any, is_subclass_spec, parse_argv_item, normalize_default, ActionTypeHint.instantiate_classes, add_subclass_arguments. Bounded only: the import machinery and typing introspection end to end (14 classes x 11 declared types x 10 notations, constructor log, late subclasses).'
LEVEL_NOTE = "under construction"
EXPLANATION = "under construction"
ASSUMPTIONS = []
TRUSTED = []
BOUNDED = [{"name": "class-families-and-specs", "script": "bounded/b14_class_path.py"}]

from contracts.import_paths import units as import_path_units  # noqa: E402
UNITS += import_path_units("C14")


# ------------------------------------------------------------------------------------------------ group_instantiate_class (class groups: add_class_arguments)
def gic_setup(ctx):
    from contracts.ns_units import Branch, build, common as ns_common
    scen = ["flat-group", "nested-group", "group-absent", "group-absent-nested-dest"][ctx.choose(4, "configuration")]
    v = [z3.Int(f"arg{i}") for i in range(3)]
    dest = {"flat-group": "g", "nested-group": "a.g", "group-absent": "g", "group-absent-nested-dest": "a.g"}[scen]
    tree = {"flat-group": Branch(g=Branch(x=v[0], y=v[1]), other=v[2]), "nested-group": Branch(a=Branch(g=Branch(x=v[0], y=v[1]), z=v[2])), "group-absent": Branch(other=v[2]),
            "group-absent-nested-dest": Branch(a=Branch(z=v[2]))}[scen]
    cfg = build(tree)
    cls = Rec("the group's class")
    instance = Rec("instance")
    group = Rec("ArgumentGroup", attrs={"dest": dest, "group_class": cls})

    def instantiator(c, f, a, k):
        kw = {kk: vv for kk, vv in k.items() if kk != "**"}
        if "**" in k:  # **namespace: the namespace's items as keyword arguments
            kw.update(k["**"].methods["__kwargs__"](c, k["**"], (), {}))
        c.event("construct", a[0], a[1:], kw)
        return instance

    def get_value_and_parent(c, s_, a, k):
        from contracts.ns_units import rec_at, MISSING
        comps = a[0].split(".")
        parent = rec_at(s_, comps[:-1])
        val = rec_at(s_, comps)
        if val is MISSING:
            raise PyRaise(ExcVal("NSKeyError", (a[0],), origin="get_value_and_parent"))
        return (val, parent, comps[-1])

    cfg.methods["get_value_and_parent"] = get_value_and_parent
    # **value of a namespace: its items as keyword arguments
    for r in [cfg] + [x for x in cfg.attrs["__dict__"].values() if isinstance(x, Rec)] + [y for x in cfg.attrs["__dict__"].values() if isinstance(x, Rec) for y in x.attrs["__dict__"].values() if isinstance(y, Rec)]:
        r.methods["__kwargs__"] = lambda c, s_, a, k: {kk.lstrip("​"): vv for kk, vv in s_.attrs["__dict__"].items()}
    consts, inline = ns_common(ctx)
    fnrec = Rec("instantiator", methods={"__call__": lambda c, s_, a, k: instantiator(c, s_, a, k)})

    def symcall(c, f, a, k):
        if f is fnrec:
            return instantiator(c, f, a, k)
        return NotImplemented

    return Setup(env={"group": group, "cfg": cfg}, calls={"get_class_instantiator": lambda c, a, k: fnrec}, consts=consts, inline=inline, symcall=symcall,
                 data=dict(scen=scen, dest=dest, cfg=cfg, cls=cls, instance=instance, v=v))


def gic_post(ctx, st, result):
    from contracts.ns_units import rec_at, view, m_leaves
    d = st.data
    tag = f"[{d['scen']}]"
    cons = [e for e in ctx.events if e[0] == "construct"]
    want_kwargs = {"x": d["v"][0], "y": d["v"][1]} if "absent" not in d["scen"] else {}
    ok = len(cons) == 1 and cons[0][1] is d["cls"] and cons[0][2] == () and set(cons[0][3]) == set(want_kwargs) and all(cons[0][3][k] is want_kwargs[k] for k in want_kwargs)
    ctx.oblige("post", "the-group's-class-is-constructed-exactly-once-with-exactly-the-group's-configured-values-as-keyword-arguments(none when the group is absent)" + tag, ok)
    ctx.oblige("post", "the-instance-replaces-the-group's-section-under-the-group's-key" + tag, rec_at(d["cfg"], d["dest"].split(".")) is d["instance"])
    others = [k for k, _ in m_leaves(view(d["cfg"])) if k != d["dest"]]
    ctx.oblige("frame", "every-other-key-is-untouched" + tag, others == {"flat-group": ["other"], "nested-group": ["a.z"], "group-absent": ["other"], "group-absent-nested-dest": ["a.z"]}[d["scen"]])


def gic_raises(ctx, st, exc):
    ctx.oblige("raises", f"no-own-exception[{st.data['scen']}](got {exc.cls}@{exc.origin})", False)


UNITS.append(Unit("C14", "jsonargparse._signatures:group_instantiate_class", gic_setup, gic_post, gic_raises,
                  trusted=["cfg is a Namespace (C11 contracts); get_value_and_parent(key) returns (value, parent namespace, leaf key) or raises KeyError", "get_class_instantiator() calls the class with the given keyword arguments"]))

from contracts.import_paths import import_object_unit  # noqa: E402
UNITS.append(import_object_unit("C14"))

from contracts.check_type import typehint_call_unit  # noqa: E402
UNITS.append(typehint_call_unit("C14"))


# subclass_spec_as_namespace, dotted sub-options (--m.K=v, --m.dict_kwargs.K=v, --m.child.K=v arrive as NestedArg(key, value))
def ssn2_setup(ctx):
    key = ["k", "class_path", "dict_kwargs.k", "child.k", "init_args.k"][ctx.choose(5, "nested-key")]
    prev_kind = ["none", "class-path-string", "Namespace-with-class_path"][ctx.choose(3, "prev_val")]
    v = z3.String("value")
    prev_cp = z3.String("prev.class_path")
    prev = {"none": None, "class-path-string": prev_cp, "Namespace-with-class_path": ns({"class_path": prev_cp, "init_args": z3.Int("prev.init_args")})}[prev_kind]
    ctx.classes.add("NestedArg", ["tuple"])

    def nested(k_, v_):
        return Rec("NestedArg", attrs={"key": k_, "val": v_}, methods={"__iter__": lambda c, s_, a, k: [s_.attrs["key"], s_.attrs["val"]]})

    def namespace_ctor(c, a, k):
        if a:
            src = a[0]
            if isinstance(src, dict):
                return ns(dict(src))
            if isinstance(src, Rec) and "store" in src.attrs:
                return ns(dict(src.attrs["store"]))
            raise Unsupported("Namespace(x) of an unmodelled value")
        return ns(dict(k))

    def is_subclass_spec(c, a, k):
        x = a[0]
        keys = list(x.attrs["store"].keys()) if isinstance(x, Rec) and "store" in x.attrs else None
        return keys is not None and "class_path" in keys and set(keys) <= set(SPEC_KEYS)

    calls = {"Namespace": namespace_ctor, "is_subclass_spec": is_subclass_spec, "NestedArg": lambda c, a, k: nested(k["key"], k["val"])}
    return Setup(env={"val": nested(key, v), "prev_val": prev}, calls=calls, consts={"NestedArg": ClassRef("NestedArg")}, data=dict(key=key, prev_kind=prev_kind, v=v, prev_cp=prev_cp))


def ssn2_post(ctx, st, result):
    d = st.data
    tag = f"[--m.{d['key']}=v,prev:{d['prev_kind']}]"
    got = view(result)
    ok_ns = isinstance(result, Rec) and result.cls == "Namespace" and isinstance(got, dict)
    ctx.oblige("post", "result-is-a-Namespace" + tag, ok_ns)
    if not ok_ns:
        return
    has_prev = d["prev_kind"] != "none"
    key = d["key"]
    if key == "class_path":
        ctx.oblige("post", "--m.class_path=v-denotes-{class_path: v}" + tag, list(got) == ["class_path"] and got["class_path"] is d["v"])
        return
    if has_prev:
        ctx.oblige("post", "a-dotted-sub-option-is-completed-with-the-class-chosen-before(given as a spec or as a bare class path)" + tag, got.get("class_path") is d["prev_cp"])
    else:
        ctx.oblige("post", "without-a-class-chosen-before-the-sub-option-stays-incomplete(refused later)" + tag, "class_path" not in got)
    if key == "dict_kwargs.k":
        ctx.oblige("post", "--m.dict_kwargs.K=v-denotes-dict_kwargs:{K: v}" + tag, isinstance(got.get("dict_kwargs"), dict) and list(got["dict_kwargs"]) == ["k"] and got["dict_kwargs"]["k"] is d["v"] and "init_args" not in got)
    elif key == "k":
        inner = got.get("init_args") if has_prev else got
        inner = view(inner)
        ctx.oblige("post", "--m.K=v-denotes-init_args:{K: v}-of-the-chosen-class" + tag, isinstance(inner, dict) and inner.get("k") is d["v"] and "dict_kwargs" not in got)
    else:
        # a deeper option (--m.child.K=v, --m.init_args.K=v): handed on, as (the rest of the key, v), to the parser of the chosen class
        ia = got.get("init_args")
        want_key = key
        ctx.oblige("post", "a-deeper-dotted-option-is-handed-to-the-chosen-class's-own-parser-as-(key, v)-under-init_args" + tag,
                   isinstance(ia, Rec) and ia.cls == "NestedArg" and ia.attrs["key"] == want_key and ia.attrs["val"] is d["v"])


UNITS.append(Unit("C14", "jsonargparse._typehints:subclass_spec_as_namespace", ssn2_setup, ssn2_post, no_exc, label="dotted-sub-options",
                  trusted=["NestedArg(key, val) unpacks as (key, val)", "Namespace(mapping) / Namespace(**kw) build a namespace with those items"]))


from contracts.any_units import adapt_classes_any_unit, add_subclasses_unit, is_subclass_spec_unit, parse_argv_item_unit  # noqa: E402
UNITS += [adapt_classes_any_unit("C14"), is_subclass_spec_unit("C14"), parse_argv_item_unit("C14"), add_subclasses_unit("C14")]

from contracts.discard_walk import discard_walk_unit  # noqa: E402
UNITS.append(discard_walk_unit("C14"))


from contracts.signature_units import add_subclass_arguments_unit  # noqa: E402
UNITS.append(add_subclass_arguments_unit("C14"))

from contracts.any_units import normalize_default_unit, typehint_instantiate_unit  # noqa: E402
UNITS += [typehint_instantiate_unit("C14"), normalize_default_unit("C14")]
from contracts.any_units import is_single_subclass_typehint_unit, is_subclass_typehint_unit  # noqa: E402
UNITS += [is_subclass_typehint_unit("C14"), is_single_subclass_typehint_unit("C14")]
from contracts.instantiators import add_instantiator_unit, class_instantiator_unit, get_class_instantiator_unit, get_instantiators_unit  # noqa: E402
UNITS += [add_instantiator_unit("C14"), get_instantiators_unit("C14"), class_instantiator_unit("C14"), get_class_instantiator_unit("C14")]

from contracts.share import carried as _carried  # noqa: E402
UNITS += _carried("C14")

# "init_args without class_path" denotes the class of the declared default: _check_type hands adapt_typehints the default's class_path as the previous value
# whenever the configuration parsed so far holds none - also when that configuration is still empty (parse_string / parse_path / default config files)
from contracts.check_type import check_type_unit as _check_type_unit  # noqa: E402
UNITS.append(_check_type_unit("C14"))

# "init_args without class_path" are completed from the previous value of the same parse: previous_config_context must not leave the configuration of a
# *rejected* --cfg behind for a later parse_string / parse_path (a stale previous value would supply init_args nobody gave)
from contracts.ctxvars import standard_units as _c14_ctx_units  # noqa: E402
UNITS += [u for u in _c14_ctx_units("C14") if u.target.endswith(":previous_config_context")]

# a mapping / list of classes: every entry is adapted with the previous value of its own entry (the class an `init_args`-only spec takes its class_path from)
from contracts.adapt_arms import arms_units as _c14_arms_units  # noqa: E402
from contracts.share import without_clauses as _c14_without  # noqa: E402
UNITS += [_c14_without(u, "C14", ("conform:every-key-has-the-declared-key-type",), "containers-of-classes") for u in _c14_arms_units("C14") if u.label in ("Dict", "List")]
