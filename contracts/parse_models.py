"""Shared models for the parse-method units of C03 (error channel) and C04 (merge order).

Configurations are abstract values Cfg(expr): `ov(base, top)` is "top overrides base" (plain keys replace, `key+`
appends, `key.item` sets an item - the contract of merge_config / Namespace.update, examined on real parsers by the
bounded harnesses).  Every callee of the parse methods is a contract model that records an event and - in fault mode -
may raise each exception class it is allowed to raise, so that the exceptional control flow of the real body is explored
path by path.
"""
import z3

from pyvc.engine import ClassRef, ExcVal, PyRaise, Rec, Unsupported, lift, is_z3


def cfg(expr):
    return Rec("Namespace", attrs={"expr": expr}, truthy=True)


def expr_of(v):
    if isinstance(v, Rec) and "expr" in v.attrs:
        return v.attrs["expr"]
    return ("opaque", id(v))


def ov(base, top):
    return ("ov", base, top)


class ParserModel:
    """Builds the `self` record of an ArgumentParser for one path."""

    FAULTS = ("TypeError", "KeyError", "NSKeyError")

    def __init__(self, ctx, faults=False, exit_on_error=None, default_env=None):
        self.ctx = ctx
        self.faults = faults
        self.default_env = z3.Bool("self._default_env") if default_env is None else default_env
        self.exit_on_error = exit_on_error
        self.rec = Rec("ArgumentParser", attrs={"_default_env": self.default_env, "parser_mode": "yaml", "_default_meta": True, "exit_on_error": exit_on_error,
                                                "_logger": Rec("Logger", methods={"debug": self._noop, "error": self._noop}), "_error_handler": None},
                       methods={
                           "_parse_defaults_and_environ": self.m("_parse_defaults_and_environ", lambda a, k: cfg(("defaults+env", a[0] if a else k.get("defaults", True), a[1] if len(a) > 1 else k.get("env")))),
                           "get_defaults": self.m("get_defaults", lambda a, k: cfg("DEFAULTS")),
                           "_load_env_vars": self.m("_load_env_vars", lambda a, k: cfg(("ENV", k.get("env", a[0] if a else None)))),
                           "merge_config": self.m("merge_config", lambda a, k: cfg(ov(expr_of(a[1]), expr_of(a[0])))),
                           "parse_known_args": self.m("parse_known_args", self._parse_known),
                           "_positional_optionals": self.m("_positional_optionals", lambda a, k: (a[0], a[1])),
                           "_parse_common": self.m("_parse_common", lambda a, k: cfg(("common", expr_of(k["cfg"])))),
                           "_apply_actions": self.m("_apply_actions", lambda a, k: cfg(("applied", expr_of(a[0])))),
                           "_load_config_parser_mode": self.m("_load_config_parser_mode", lambda a, k: cfg(("loaded", "cfg_str"))),
                           "error": self._error,
                           "print_usage": self._ev("print_usage"), "exit": self._exit,
                       })

    def _noop(self, ctx, s_, a, k):
        return None

    def _ev(self, name):
        def model(ctx, s_, a, k):
            ctx.event(name, a)
            return None
        return model

    def m(self, name, fn):
        def model(ctx, s_, a, k):
            ctx.event("call", name, a, dict(k))
            if self.faults:
                which = ctx.choose(1 + len(self.FAULTS), f"{name}-raises")
                if which:
                    raise PyRaise(ExcVal(self.FAULTS[which - 1], args=(f"msg-from-{name}",), origin=name))
            return fn(a, k)
        return model

    def _parse_known(self, a, k):
        ns = k.get("namespace")
        leftovers = self.ctx.choose(2, "leftover-arguments")
        return (cfg(("argv-applied-left-to-right-on", expr_of(ns))), ["--typo"] if leftovers else [])

    def _error(self, ctx, s_, a, k):
        ctx.event("error", a)
        # contract of ArgumentParser.error (unit of its own): never returns
        if ctx.choose(2, "error-mode(exit_on_error)") == 0:
            raise PyRaise(ExcVal("ArgumentError", origin="self.error"))
        raise PyRaise(ExcVal("SystemExit", args=(2,), origin="self.error"))

    def _exit(self, ctx, s_, a, k):
        ctx.event("exit", a)
        raise PyRaise(ExcVal("SystemExit", args=tuple(a), origin="self.exit"))


def noop_cm(name):
    return (lambda c, a, k: c.event("enter", name, a, dict(k)), lambda c, t, e: (c.event("exit-cm", name), False)[1])
