"""C07 - equivalent ways of declaring a nested group behave identically.

The property is relational across four construction paths; no single function implements it.  Under contract is the
naming clause every style must agree on, for the inner-parser style (ActionParser._move_parser_actions): each moved
action gets dest' = prefix.replace('-','_') + '.' + dest and option strings '--' + prefix + '.' + rest, the required keys
are the *new dests* of the required actions, conflicts with existing options are refused, and the whole-group option is
added.  The behavioural agreement of the four styles is checked by the bounded harness only.
"""
import z3

from pyvc.engine import ClassRef, ExcVal, PyRaise, Rec, Unsupported, lift, is_z3, _mk_replace_all
from pyvc.units import Setup, Unit

S = z3.StringSort()


def mp_setup(ctx):
    prefix = z3.String("prefix")
    ctx.assume(z3.Length(prefix) > 0)
    conflict = ctx.choose(2, "option-already-declared-in-the-outer-parser") == 1
    extra_kw = ctx.choose(2, "unsupported-keyword") == 1
    action = Rec("ActionTypeHint", attrs={"dest": "r", "option_strings": ["--r"]})
    group = Rec("ArgumentGroup", attrs={"title": None, "description": None, "parser": None, "_actions": [action], "_group_actions": [action]})
    subparser = Rec("ArgumentParser", attrs={"description": "inner", "required_args": {"r"}, "_option_string_actions": {"--r": action}, "_actions": [action], "_action_groups": [Rec("g0"), group]})
    added = []
    outer_opts = {}
    outer_required = []
    outer_actions = []
    order = []

    class OptMap:
        pass

    def opt_keys(c, s_, a, k):
        return [z3.Concat(z3.StringVal("--"), prefix, z3.StringVal(".r"))] if conflict else []

    parser = Rec("ArgumentParser", attrs={
        "_option_string_actions": Rec("dict", methods={"keys": opt_keys, "update": lambda c, s_, a, k: outer_opts.update(a[0]) if isinstance(a[0], dict) else c.event("opts.update", a[0])}),
        "required_args": Rec("set", methods={"update": lambda c, s_, a, k: outer_required.extend(list(a[0]))}),
        "_actions": Rec("list", methods={"extend": lambda c, s_, a, k: (order.append("members"), outer_actions.extend(a[0]))[1]}),
        "_action_groups": Rec("list", methods={"extend": lambda c, s_, a, k: c.event("groups.extend", a[0])}),
    }, methods={"add_argument": lambda c, s_, a, k: (order.append("whole-group"), added.append((a, dict(k))))[1]})

    def re_sub(c, a, k):
        pat, repl, text = a
        if pat != "^--":
            raise Unsupported("re.sub with another pattern")
        t = lift(text)
        return z3.If(z3.PrefixOf(z3.StringVal("--"), t), z3.Concat(lift(repl), z3.SubString(t, 2, z3.Length(t) - 2)), t)

    def set_model(c, a, k):
        return Rec("set-of-strings", attrs={"items": list(a[0])}, methods={"intersection": lambda c2, s2, a2, k2: Rec("set-of-strings", attrs={"items": [x for x in s2.attrs["items"]], "other": a2[0].attrs["items"]}, methods={
            "__len__": lambda c3, s3, a3, k3: z3.If(z3.Or(*[lift(x) == lift(y) for x in s3.attrs["items"] for y in s3.attrs["other"]]) if s3.attrs["items"] and s3.attrs["other"] else z3.BoolVal(False), 1, 0)})})

    kwargs = {"action": Rec("ActionParser", attrs={"_parser": subparser})}
    if extra_kw:
        kwargs["nargs"] = 1
    calls = {"re.sub": re_sub, "filter_default_actions": lambda c, a, k: a[0], "set": set_model}
    consts = {"ActionYesNo": ClassRef("ActionYesNo"), "_ActionConfigLoad": ClassRef("_ActionConfigLoad")}
    arg0 = z3.Concat(z3.StringVal("--"), prefix)
    return Setup(env={"parser": parser, "args": (arg0,), "kwargs": kwargs}, calls=calls, consts=consts,
                 data=dict(prefix=prefix, action=action, conflict=conflict, extra_kw=extra_kw, added=added, outer_opts=outer_opts, outer_required=outer_required, outer_actions=outer_actions, arg0=arg0, order=order),
                 watch={"prefix": prefix})


def dashed(prefix):
    return _mk_replace_all(prefix, z3.StringVal("-"), z3.StringVal("_"))


def mp_post(ctx, st, result):
    d = st.data
    a = d["action"]
    new_dest = z3.Concat(dashed(d["prefix"]), z3.StringVal("."), z3.StringVal("r"))
    ctx.oblige("post", "accepted=>no-conflict-and-no-unsupported-keyword", not d["conflict"] and not d["extra_kw"])
    ctx.oblige("post", "dest'==prefix.replace('-','_')+'.'+dest", lift(a.attrs["dest"]) == new_dest, strings=True)
    ctx.oblige("post", "option-string'=='--'+prefix+'.'+rest", len(a.attrs["option_strings"]) == 1 and lift(a.attrs["option_strings"][0]) == z3.Concat(z3.StringVal("--"), d["prefix"], z3.StringVal(".r")), strings=True)
    ctx.oblige("post", "the-moved-action-is-registered-under-its-new-option-string-and-in-the-outer-parser", d["outer_actions"] == [a] and len(d["outer_opts"]) == 1 and list(d["outer_opts"].values())[0] is a)
    req = d["outer_required"]
    ctx.oblige("post", "the-required-key-of-a-moved-action-is-its-new-dest(so that a given value satisfies it)", len(req) == 1 and lift(req[0]) == lift(a.attrs["dest"]), strings=True,
               note="required_args is built from the raw prefix, the dest from prefix.replace('-','_'): they differ when the prefix contains a dash")
    ctx.oblige("post", "the-whole-group-option-is-declared-before-the-members(sources applied in declaration order - environment, defaults - let a member setting override the whole-group value, as in the other styles)",
               d["order"] == ["whole-group", "members"])
    ctx.oblige("post", "the-whole-group-option-is-added(--prefix loads a config for the group)", len(d["added"]) == 1 and d["added"][0][0][0] is d["arg0"] and getattr(d["added"][0][1].get("action"), "name", None) == "_ActionConfigLoad")


def mp_raises(ctx, st, exc):
    d = st.data
    ctx.oblige("raises", "rejected=>ValueError-for-a-conflict-or-an-unsupported-keyword", exc.cls == "ValueError" and (d["conflict"] or d["extra_kw"]))
    a = d["action"]
    ctx.oblige("frame", "a-refused-attach-leaves-the-inner-parser's-actions-as-they-were(so that it can be attached under another key, like a group refused in any other style)-and-registers-nothing-in-the-outer-parser",
               a.attrs["dest"] == "r" and a.attrs["option_strings"] == ["--r"] and not d["outer_actions"] and not d["outer_opts"] and not d["outer_required"] and not d["added"]
               and not [e for e in ctx.events if e[0] in ("opts.update", "groups.extend")])


UNITS = [
    Unit("C07", "jsonargparse._actions:ActionParser._move_parser_actions", mp_setup, mp_post, mp_raises, expect_cover=("return", "raise:ValueError"),
         replayer="replayers.c07:replay_dashed_prefix",
         trusted=["re.sub('^--', r, s) replaces a leading '--' of s by r", "filter_default_actions keeps the user-declared actions", "one moved action per scenario (dest 'r', option '--r', required)"]),
]
VERIFIED_CALLEES = ()
LEVEL = "other"
TECHNIQUE = "contract-based deductive verification of the naming clause of the inner-parser style (VCs from the real AST, strings by cvc5/z3) + bounded relational contract across the four declaration styles"
LEVEL_TEXT = "Verified: ActionsContainer.add_argument dispatches the four styles (an inner parser to _move_parser_actions, a dataclass-like type to the class arguments of the option's own name, a type hint to the type-hint action) and records required options under their dest; _move_parser_actions (dest prefix.replace('-','_') + '.' + dest and option '--' + prefix + '.' + rest for every prefix string, required key == new dest - this refuted the shipped code for dashed prefixes; fixed -, whole-group option declared before the members); _add_signature_arguments / _add_signature_parameter (key = nested_key.name, option --key, required / Optional / default decisions); _create_group_if_requested (whole-group --key loader, instantiable class group); _ActionConfigLoad (a whole-group value is loaded relative to its file and merged over earlier members). The property itself is relational over four construction paths: bounded only (47 types x 4 group keys x value pools x channels, agreement of decision / values / dump). Also: add_class_arguments (a default dict / Namespace / instance becomes the defaults of the declared members, None values included) and add_subclass_arguments; a refused inner-parser attach leaves the inner parser's actions untouched."
LEVEL_NOTE = "under construction"
EXPLANATION = "under construction"
ASSUMPTIONS = []
TRUSTED = []
BOUNDED = [{"name": "four-declaration-styles-agree", "script": "bounded/b07_group_styles.py"}]


# ------------------------------------------------------------------------------------------------ ActionsContainer.add_argument
# where the declaration styles meet: an inner parser is attached by _move_parser_actions, a dataclass-like type becomes the class
# arguments of *the option's own name* (leading dashes removed, nothing else rewritten - the same key the dotted style uses), every other
# type goes to argparse with the type-hint action; a required option is recorded under its dest and enforced by the parser, not argparse.
def ada_setup(ctx):
    from pyvc.engine import ExcVal, PyRaise
    style = ["inner-parser", "dataclass-type", "supported-typehint", "plain", "config-action", "no-type"][ctx.choose(6, "style")]
    name = ["--g", "--my-grp", "--a.b_c", "pos"][ctx.choose(4, "name")]
    required = ctx.choose(2, "required") == 1
    extra = ["none", "default", "choices-set", "help"][ctx.choose(4, "extra")]
    on_group = ctx.choose(2, "declared-on-a-group") == 1
    the_type, inner_action = Rec("the declared type"), Rec("ActionParser instance")
    kwargs = {}
    if style == "inner-parser":
        kwargs["action"] = inner_action
    elif style == "config-action":
        kwargs["action"] = Rec("ActionConfigFile class")
    elif style != "no-type":
        kwargs["type"] = the_type
    if required and not name == "pos":
        kwargs["required"] = True
    if extra == "default":
        kwargs["default"] = z3.Int("default")
    elif extra == "choices-set":
        kwargs["choices"] = {"x"}
    elif extra == "help":
        kwargs["help"] = "text"
    required_args = set()
    parser = Rec("ArgumentParser", attrs={"required_args": required_args, "_logger": Rec("Logger")})
    moved, found = Rec("result of _move_parser_actions"), Rec("action found under the nested key")
    made = []

    def argparse_add(c, s_, a, k):
        dest = a[0].lstrip("-").replace("-", "_")
        act = Rec("Action", attrs={"dest": dest, "option_strings": [a[0]] if a[0].startswith("-") else [], "required": bool(k.get("required", False)), "help": k.get("help")})
        made.append((a, dict(k), act))
        c.event("argparse.add_argument", a, dict(k))
        return act

    self = Rec("ArgumentGroup" if on_group else "ArgumentParser", attrs=({"parser": parser, "_logger": parser.attrs["_logger"]} if on_group else parser.attrs),
               methods={"add_class_arguments": lambda c, s_, a, k: c.event("add_class_arguments", a[0], a[1], dict(k))})
    if not on_group:
        parser = self
        parser.attrs["required_args"] = required_args
    prepared = ("--prepared",) if False else None

    def prepare(c, a, k):
        c.event("prepare", k["args"], dict(k["kwargs"]), k["enable_path"])
        k["kwargs"]["action"] = Rec("ActionTypeHint for the type")
        k["kwargs"].pop("type", None)
        return k["args"]

    calls = {
        "ActionParser._is_valid_action_parser": lambda c, a, k: a[1] is inner_action,
        "ActionParser._move_parser_actions": lambda c, a, k: (c.event("move", a[0], a[1], a[2]), moved)[1],
        "ActionConfigFile._ensure_single_config_argument": lambda c, a, k: c.event("single-config-check", a[0], a[1]),
        "is_dataclass_like": lambda c, a, k: style == "dataclass-type" and a[0] is the_type,
        "_find_action": lambda c, a, k: (c.event("find", a[0], a[1]), found)[1],
        "ActionTypeHint.is_supported_typehint": lambda c, a, k: style == "supported-typehint",
        "ActionTypeHint.prepare_add_argument": prepare,
        "super": lambda c, a, k: Rec("super()", methods={"add_argument": argparse_add}),
        "ActionConfigFile._add_print_config_argument": lambda c, a, k: c.event("print_config-companion", a[1]),
        "ActionJsonnet._check_ext_vars_action": lambda c, a, k: None,
        "is_meta_key": lambda c, a, k: a[0] in ("__path__", "__default_config__"),
    }
    return Setup(env={"self": self, "args": (name,), "kwargs": kwargs, "enable_path": False}, calls=calls, consts={"empty_help": "<empty help>"},
                 data=dict(style=style, name=name, required=required and name != "pos", extra=extra, on_group=on_group, parser=parser, the_type=the_type, moved=moved, found=found, made=made,
                           required_args=required_args, kwargs0=dict(kwargs), self_=self))


def ada_post(ctx, st, result):
    d = st.data
    tag = f"[{d['style']},{d['name']}{',required' if d['required'] else ''},{d['extra']}{',on a group' if d['on_group'] else ''}]"
    ev = ctx.events
    if d["style"] == "inner-parser":
        mv = [e for e in ev if e[0] == "move"]
        ctx.oblige("post", "an-inner-parser-is-attached-by-_move_parser_actions-on-the-parser,with-the-name-and-keywords-given" + tag,
                   result is d["moved"] and len(mv) == 1 and mv[0][1] is d["parser"] and mv[0][2] == (d["name"],) and not d["made"])
        return
    if d["style"] == "dataclass-type":
        ca = [e for e in ev if e[0] == "add_class_arguments"]
        key = d["name"].lstrip("-")
        want_kw = {k: v for k, v in d["kwargs0"].items() if k != "type"}
        ok = len(ca) == 1 and ca[0][1] is d["the_type"] and ca[0][2] == key and set(ca[0][3]) == set(want_kw) and all(ca[0][3][k] is want_kw[k] or ca[0][3][k] == want_kw[k] for k in want_kw)
        ctx.oblige("post", "a-dataclass-like-type-becomes-the-class-arguments-of-the-option's-own-name(leading dashes removed,nothing else rewritten),with-the-other-keywords" + tag, ok)
        fd = [e for e in ev if e[0] == "find"]
        ctx.oblige("post", "what-is-returned-is-the-action-found-under-that-same-key" + tag, result is d["found"] and len(fd) == 1 and fd[0][1] is d["parser"] and fd[0][2] == key and not d["made"])
        return
    ctx.oblige("post", "argparse-declares-the-argument-exactly-once" + tag, len(d["made"]) == 1)
    if len(d["made"]) != 1:
        return
    a, kw, act = d["made"][0]
    ctx.oblige("post", "under-the-name-given" + tag, a == (d["name"],) and result is act)
    if d["style"] == "supported-typehint":
        pr = [e for e in ev if e[0] == "prepare"]
        ctx.oblige("post", "a-supported-type-hint-is-handed-to-the-type-hint-action(prepare_add_argument)" + tag, len(pr) == 1 and "type" not in kw and isinstance(kw.get("action"), Rec))
    elif d["style"] in ("plain",):
        ctx.oblige("post", "an-unsupported-type-goes-to-argparse-as-given" + tag, kw.get("type") is d["the_type"])
    if d["extra"] == "choices-set":
        ctx.oblige("post", "choices-given-as-a-set-reach-argparse-as-a-tuple" + tag, kw.get("choices") == ("x",))
    if d["required"]:
        ctx.oblige("post", "a-required-option-is-recorded-under-its-dest-and-enforced-by-this-parser(argparse's own flag is cleared)" + tag,
                   d["required_args"] == {act.attrs["dest"]} and act.attrs.get("_required") is True and act.attrs["required"] is False)
    else:
        ctx.oblige("post", "not-required=>not-recorded" + tag, not d["required_args"] and "_required" not in act.attrs)
    ctx.oblige("post", "a-missing-help-text-is-replaced-by-the-empty-help-marker" + tag, act.attrs["help"] == ("text" if d["extra"] == "help" else "<empty help>"))
    if d["style"] == "config-action":
        ctx.oblige("post", "a-config-action-is-checked-to-be-the-only-one" + tag, len([e for e in ev if e[0] == "single-config-check"]) == 1)
    ctx.oblige("post", "accepted=>not-a-positional-with-a-default" + tag, not (d["name"] == "pos" and d["extra"] == "default"))


def ada_raises(ctx, st, exc):
    d = st.data
    ctx.oblige("raises", f"only-a-positional-with-a-default(or a meta key)-is-refused[{d['style']},{d['name']},{d['extra']}](got {exc.cls})",
               exc.cls == "ValueError" and d["name"] == "pos" and d["extra"] == "default" and d["style"] not in ("inner-parser", "dataclass-type"))


UNITS.append(Unit("C07", "jsonargparse._core:ActionsContainer.add_argument", ada_setup, ada_post, ada_raises, max_paths=20000, expect_cover=("return", "raise:ValueError"),
                  trusted=["argparse's add_argument (super()) creates the action: dest = name without leading dashes, '-' -> '_'", "add_class_arguments / _move_parser_actions / prepare_add_argument by contract",
                           "is_dataclass_like / is_supported_typehint classify the type"]))

# the class / dataclass styles declare their members through the signature machinery: key = nested_key + "." + parameter name, option "--" + key
import dataclasses as _dc  # noqa: E402
from contracts.c12 import UNITS as _C12_UNITS  # noqa: E402
UNITS += [_dc.replace(u, prop="C07") for u in _C12_UNITS if u.target.endswith(("_add_signature_arguments", "_add_signature_parameter"))]
from contracts.c04 import UNITS as _C04_UNITS  # noqa: E402
UNITS += [_dc.replace(u, prop="C07") for u in _C04_UNITS if "_ActionConfigLoad." in u.target]


# ------------------------------------------------------------------------------------------------ _create_group_if_requested
def cg_setup(ctx):
    nested = [None, "grp", "my-grp"][ctx.choose(3, "nested_key")]
    as_group = ctx.choose(2, "as_group") == 1
    config_load = ctx.choose(2, "config_load") == 1
    required = ctx.choose(2, "required") == 1
    is_class = ctx.choose(2, "component-is-a-class") == 1
    instantiate = ctx.choose(2, "instantiate") == 1
    doc = [None, "Title of the group."][ctx.choose(2, "doc_group")]
    obj = Rec("component", attrs={"__name__": "Comp"})
    required_args = set()
    group = Rec("ArgumentGroup", attrs={})
    added = []
    group.methods["add_argument"] = lambda c, s_, a, k: added.append((a, dict(k)))
    made = []
    self = Rec("SignatureArguments", attrs={"required_args": required_args}, methods={"add_argument_group": lambda c, s_, a, k: (made.append((a, dict(k))), group)[1]})
    basetype = Rec("config_load_type")
    calls = {"strip_title": lambda c, a, k: ("stripped", a[0]), "str": lambda c, a, k: "str(component)", "inspect.isclass": lambda c, a, k: is_class and a[0] is obj,
             "_ActionConfigLoad": lambda c, a, k: Rec("_ActionConfigLoad", attrs={"basetype": k.get("basetype")})}
    fn = Rec("group_instantiate_class")
    return Setup(env={"self": self, "obj": obj, "nested_key": nested, "as_group": as_group, "doc_group": doc, "config_load": config_load, "config_load_type": basetype, "required": required, "instantiate": instantiate},
                 calls=calls, consts={"group_instantiate_class": fn},
                 data=dict(nested=nested, as_group=as_group, config_load=config_load, required=required, is_class=is_class, instantiate=instantiate, doc=doc, group=group, added=added, made=made,
                           required_args=required_args, self_=self, basetype=basetype, fn=fn, obj=obj))


def cg_post(ctx, st, result):
    d = st.data
    tag = f"[nested={d['nested']!r}{',group' if d['as_group'] else ''}{',config_load' if d['config_load'] else ''}{',required' if d['required'] else ''}{',class' if d['is_class'] else ''}{',instantiate' if d['instantiate'] else ''}]"
    ctx.oblige("post", "a-required-group-needs-a-key" + tag, not (d["required"] and d["nested"] is None))
    ctx.oblige("post", "a-required-group-is-recorded-under-its-key" + tag, d["required_args"] == ({d["nested"]} if d["required"] else set()))
    if not d["as_group"]:
        ctx.oblige("post", "no-group-asked=>the-arguments-go-to-the-container-itself" + tag, result is d["self_"] and not d["made"] and not d["added"])
        return
    name = "Comp" if d["nested"] is None else d["nested"]
    ctx.oblige("post", "one-group,named-by-the-key(or the component's name)" + tag, result is d["group"] and len(d["made"]) == 1 and d["made"][0][1].get("name") == name
               and d["made"][0][0] == (("stripped", d["doc"] if d["doc"] is not None else "str(component)"),))
    if d["config_load"] and d["nested"] is not None:
        ok = len(d["added"]) == 1 and d["added"][0][0] == ("--" + d["nested"],) and isinstance(d["added"][0][1].get("action"), Rec) and d["added"][0][1]["action"].attrs["basetype"] is d["basetype"]
        ctx.oblige("post", "the-whole-group-option---<key>-is-declared-in-the-group(the same key the members are nested under)" + tag, ok)
    else:
        ctx.oblige("post", "no-whole-group-option-without-a-key-or-when-not-asked" + tag, not d["added"])
    g = d["group"].attrs
    if d["is_class"] and d["nested"] is not None and d["instantiate"]:
        ctx.oblige("post", "a-class-under-a-key-is-marked-for-instantiation:dest=key(dashes as underscores),the-class,the-instantiator" + tag,
                   g.get("dest") == d["nested"].replace("-", "_") and g.get("group_class") is d["obj"] and g.get("instantiate_class") is d["fn"])
    else:
        ctx.oblige("post", "otherwise-the-group-is-not-instantiable" + tag, "instantiate_class" not in g and "group_class" not in g)


def cg_raises(ctx, st, exc):
    d = st.data
    ctx.oblige("raises", f"ValueError-exactly-for-a-required-group-without-a-key(got {exc.cls})", exc.cls == "ValueError" and d["required"] and d["nested"] is None and not d["made"])


UNITS.append(Unit("C07", "jsonargparse._signatures:SignatureArguments._create_group_if_requested", cg_setup, cg_post, cg_raises, max_paths=5000, expect_cover=("return", "raise:ValueError"),
                  trusted=["add_argument_group / group.add_argument by contract (add_argument: its own unit)"]))


from contracts.signature_units import add_class_arguments_unit, add_subclass_arguments_unit  # noqa: E402
UNITS += [add_class_arguments_unit("C07"), add_subclass_arguments_unit("C07")]

from contracts.share import carried as _carried  # noqa: E402
UNITS += _carried("C07")

# an option declared in an inner parser is re-keyed when that parser is attached under a key (dest and option strings are prefixed): the action must not have
# remembered anything computed from them at construction time, or the inner-parser style parses `--g.opts.k=1` differently from the other three styles
from contracts.any_units import typehint_init_unit as _typehint_init_unit  # noqa: E402
UNITS.append(_typehint_init_unit("C07"))
