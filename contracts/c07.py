"""C07 - equivalent ways of declaring a nested group behave identically.

The property is relational across four construction paths; no single function implements it.  Under contract is the
naming clause every style must agree on, for the inner-parser style (ActionParser._move_parser_actions): each moved
action gets dest' = prefix.replace('-','_') + '.' + dest and option strings '--' + prefix + '.' + rest, the required keys
are the *new dests* of the required actions, conflicts with existing options are refused, and the whole-group option is
added.  The behavioural agreement of the four styles is checked by the bounded harness only.
"""
import z3

from pyvc.engine import ClassRef, ExcVal, PyRaise, Rec, Unsupported, lift, is_z3, _mk_replace_all
from pyvc.units import Setup, Unit

S = z3.StringSort()


def mp_setup(ctx):
    prefix = z3.String("prefix")
    ctx.assume(z3.Length(prefix) > 0)
    conflict = ctx.choose(2, "option-already-declared-in-the-outer-parser") == 1
    extra_kw = ctx.choose(2, "unsupported-keyword") == 1
    action = Rec("ActionTypeHint", attrs={"dest": "r", "option_strings": ["--r"]})
    group = Rec("ArgumentGroup", attrs={"title": None, "description": None, "parser": None, "_actions": [action], "_group_actions": [action]})
    subparser = Rec("ArgumentParser", attrs={"description": "inner", "required_args": {"r"}, "_option_string_actions": {"--r": action}, "_actions": [action], "_action_groups": [Rec("g0"), group]})
    added = []
    outer_opts = {}
    outer_required = []
    outer_actions = []
    order = []

    class OptMap:
        pass

    def opt_keys(c, s_, a, k):
        return [z3.Concat(z3.StringVal("--"), prefix, z3.StringVal(".r"))] if conflict else []

    parser = Rec("ArgumentParser", attrs={
        "_option_string_actions": Rec("dict", methods={"keys": opt_keys, "update": lambda c, s_, a, k: outer_opts.update(a[0]) if isinstance(a[0], dict) else c.event("opts.update", a[0])}),
        "required_args": Rec("set", methods={"update": lambda c, s_, a, k: outer_required.extend(list(a[0]))}),
        "_actions": Rec("list", methods={"extend": lambda c, s_, a, k: (order.append("members"), outer_actions.extend(a[0]))[1]}),
        "_action_groups": Rec("list", methods={"extend": lambda c, s_, a, k: c.event("groups.extend", a[0])}),
    }, methods={"add_argument": lambda c, s_, a, k: (order.append("whole-group"), added.append((a, dict(k))))[1]})

    def re_sub(c, a, k):
        pat, repl, text = a
        if pat != "^--":
            raise Unsupported("re.sub with another pattern")
        t = lift(text)
        return z3.If(z3.PrefixOf(z3.StringVal("--"), t), z3.Concat(lift(repl), z3.SubString(t, 2, z3.Length(t) - 2)), t)

    def set_model(c, a, k):
        return Rec("set-of-strings", attrs={"items": list(a[0])}, methods={"intersection": lambda c2, s2, a2, k2: Rec("set-of-strings", attrs={"items": [x for x in s2.attrs["items"]], "other": a2[0].attrs["items"]}, methods={
            "__len__": lambda c3, s3, a3, k3: z3.If(z3.Or(*[lift(x) == lift(y) for x in s3.attrs["items"] for y in s3.attrs["other"]]) if s3.attrs["items"] and s3.attrs["other"] else z3.BoolVal(False), 1, 0)})})

    kwargs = {"action": Rec("ActionParser", attrs={"_parser": subparser})}
    if extra_kw:
        kwargs["nargs"] = 1
    calls = {"re.sub": re_sub, "filter_default_actions": lambda c, a, k: a[0], "set": set_model}
    consts = {"ActionYesNo": ClassRef("ActionYesNo"), "_ActionConfigLoad": ClassRef("_ActionConfigLoad")}
    arg0 = z3.Concat(z3.StringVal("--"), prefix)
    return Setup(env={"parser": parser, "args": (arg0,), "kwargs": kwargs}, calls=calls, consts=consts,
                 data=dict(prefix=prefix, action=action, conflict=conflict, extra_kw=extra_kw, added=added, outer_opts=outer_opts, outer_required=outer_required, outer_actions=outer_actions, arg0=arg0, order=order),
                 watch={"prefix": prefix})


def dashed(prefix):
    return _mk_replace_all(prefix, z3.StringVal("-"), z3.StringVal("_"))


def mp_post(ctx, st, result):
    d = st.data
    a = d["action"]
    new_dest = z3.Concat(dashed(d["prefix"]), z3.StringVal("."), z3.StringVal("r"))
    ctx.oblige("post", "accepted=>no-conflict-and-no-unsupported-keyword", not d["conflict"] and not d["extra_kw"])
    ctx.oblige("post", "dest'==prefix.replace('-','_')+'.'+dest", lift(a.attrs["dest"]) == new_dest, strings=True)
    ctx.oblige("post", "option-string'=='--'+prefix+'.'+rest", len(a.attrs["option_strings"]) == 1 and lift(a.attrs["option_strings"][0]) == z3.Concat(z3.StringVal("--"), d["prefix"], z3.StringVal(".r")), strings=True)
    ctx.oblige("post", "the-moved-action-is-registered-under-its-new-option-string-and-in-the-outer-parser", d["outer_actions"] == [a] and len(d["outer_opts"]) == 1 and list(d["outer_opts"].values())[0] is a)
    req = d["outer_required"]
    ctx.oblige("post", "the-required-key-of-a-moved-action-is-its-new-dest(so that a given value satisfies it)", len(req) == 1 and lift(req[0]) == lift(a.attrs["dest"]), strings=True,
               note="required_args is built from the raw prefix, the dest from prefix.replace('-','_'): they differ when the prefix contains a dash")
    ctx.oblige("post", "the-whole-group-option-is-declared-before-the-members(sources applied in declaration order - environment, defaults - let a member setting override the whole-group value, as in the other styles)",
               d["order"] == ["whole-group", "members"])
    ctx.oblige("post", "the-whole-group-option-is-added(--prefix loads a config for the group)", len(d["added"]) == 1 and d["added"][0][0][0] is d["arg0"] and getattr(d["added"][0][1].get("action"), "name", None) == "_ActionConfigLoad")


def mp_raises(ctx, st, exc):
    d = st.data
    ctx.oblige("raises", "rejected=>ValueError-for-a-conflict-or-an-unsupported-keyword", exc.cls == "ValueError" and (d["conflict"] or d["extra_kw"]))


UNITS = [
    Unit("C07", "jsonargparse._actions:ActionParser._move_parser_actions", mp_setup, mp_post, mp_raises, expect_cover=("return", "raise:ValueError"),
         replayer="replayers.c07:replay_dashed_prefix",
         trusted=["re.sub('^--', r, s) replaces a leading '--' of s by r", "filter_default_actions keeps the user-declared actions", "one moved action per scenario (dest 'r', option '--r', required)"]),
]
VERIFIED_CALLEES = ()
LEVEL = "other"
TECHNIQUE = "contract-based deductive verification of the naming clause of the inner-parser style (VCs from the real AST, strings by cvc5/z3) + bounded relational contract across the four declaration styles"
LEVEL_TEXT = "Proved for the inner-parser style: moved actions get dest prefix.replace('-','_') + '.' + dest and option '--' + prefix + '.' + rest for every prefix string, the required key equals the new dest (this refuted the shipped code for prefixes with a dash; fixed), conflicts are refused, the whole-group option is added. The property itself is relational over four construction paths: bounded only (47 types x 4 group keys x value pools x channels, agreement of decision / values / dump)."
LEVEL_NOTE = "under construction"
EXPLANATION = "under construction"
ASSUMPTIONS = []
TRUSTED = []
BOUNDED = [{"name": "four-declaration-styles-agree", "script": "bounded/b07_group_styles.py"}]
