"""ActionTypeHint.apply_appends (jsonargparse/_typehints.py): `key+` entries of a configuration are resolved by the action's own
type check, which needs an enclosing parser context (callee precondition checked at the call site)."""
import z3

from pyvc.engine import ClassRef, ExcVal, PyRaise, Rec, Unsupported, lift, is_z3
from pyvc.units import Setup, Unit

# ------------------------------------------------------------------------------------------------ apply_appends: the type check runs inside a parser context
def aa_setup(ctx):
    keys = [["nums+"], ["a", "nums+", "b"], ["nums+", "other+"], ["a"], ["free+"]][ctx.choose(5, "cfg-keys")]
    mode = z3.String("parser.parser_mode")
    parser = Rec("ArgumentParser", attrs={"parser_mode": mode})
    store = {k: z3.String("value-of-" + k.rstrip("+")) for k in keys}
    open_ctx = []

    def check_type(c, s_, a, k):
        # contract of ActionTypeHint._check_type_ (its loader asserts get_load_value_mode() is set): requires an enclosing parser context
        c.oblige("pre", f"_check_type_-is-called-inside-a-parser-context-with-this-parser's-load-mode[{s_.attrs['dest']}]",
                 z3.BoolVal(bool(open_ctx)) if not open_ctx else lift(open_ctx[-1].get("load_value_mode")) == mode)
        c.event("checked", s_.attrs["dest"], a[0], dict(k))
        fate = c.choose(2, f"append-check-of-{s_.attrs['dest']}")
        if fate == 1:
            raise PyRaise(ExcVal("TypeError", ("ill-typed",), origin="_check_type_"))
        return z3.String("checked-" + s_.attrs["dest"])

    actions = {k[:-1]: Rec("ActionTypeHint", attrs={"dest": k[:-1]}, methods={"_check_type_": check_type}) for k in keys if k.endswith("+") and k != "free+"}
    cfgrec = Rec("Namespace", attrs={"store": store}, methods={
        "keys": lambda c, s_, a, k: list(s_.attrs["store"].keys()), "__getitem__": lambda c, s_, a, k: s_.attrs["store"][a[0]],
        "__setitem__": lambda c, s_, a, k: s_.attrs["store"].__setitem__(a[0], a[1]), "pop": lambda c, s_, a, k: s_.attrs["store"].pop(a[0])})
    calls = {"_find_action": lambda c, a, k: actions.get(a[1]), "ActionTypeHint.supports_append": lambda c, a, k: a[0] is not None}
    cms = {"parser_context": (lambda c, a, k: open_ctx.append(dict(k)), lambda c, t, e: (open_ctx.pop(), False)[1])}
    return Setup(env={"parser": parser, "cfg": cfgrec}, calls=calls, cms=cms, data=dict(keys=keys, store=store, before=dict(store), open_ctx=open_ctx, actions=actions))


def aa_post(ctx, st, result):
    d = st.data
    want = {}
    for k, v in d["before"].items():
        if k.endswith("+") and k[:-1] in d["actions"]:
            want[k[:-1]] = "checked"
        else:
            want[k] = v
    got = d["store"]
    ok = set(got) == set(want) and all((is_z3(got[k]) and str(got[k]) == '"checked-%s"' % k or got[k].eq(z3.String("checked-" + k))) if want[k] == "checked" else got[k] is want[k] for k in want)
    ctx.oblige("post", f"every-appendable-key+-is-replaced-by-the-checked-value-under-key;other-keys-untouched{d['keys']}", ok)
    ctx.oblige("post", "no-parser-context-is-left-open", not d["open_ctx"])


def aa_raises(ctx, st, exc):
    d = st.data
    ctx.oblige("raises", f"only-the-type-check-may-fail(got {exc.cls}@{exc.origin})", exc.cls == "TypeError" and exc.origin == "_check_type_")
    ctx.oblige("raises", "no-parser-context-is-left-open-on-failure", not d["open_ctx"])



def apply_appends_unit(prop):
    return Unit(prop, "jsonargparse._typehints:ActionTypeHint.apply_appends", aa_setup, aa_post, aa_raises, expect_cover=("return", "raise:TypeError"),
                trusted=["_check_type_ requires an enclosing parser_context (get_load_value_mode asserts it): stated as its precondition and checked at this call site"])
