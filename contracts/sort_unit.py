"""sort_subtypes_for_union (jsonargparse/_typehints.py): the order in which the members of a Union are tried (C02: the set of members never changes; C04: with
`key+` the list member is tried first whatever kind of value arrives)."""
import z3

from pyvc.engine import Rec
from pyvc.units import Setup, Unit


# ------------------------------------------------------------------------------------------------ sort_subtypes_for_union
# a Union accepts a value iff some member accepts it: the order in which the members are tried may change, the *set* of members may not
def ss_setup(ctx):
    import itertools
    NONE, INT, STR, LIST, DICT = Rec("NoneType"), Rec("int"), Rec("str"), Rec("List[int]", attrs={"origin": "list"}), Rec("Dict[str,int]", attrs={"origin": "dict"})
    pool = [INT, NONE, LIST, STR, DICT]
    n = 1 + ctx.choose(4, "members")
    combos = list(itertools.permutations(pool, n))
    subtypes = list(combos[ctx.choose(len(combos), "declared-order")])
    val = [z3.String("val"), z3.Int("val")][ctx.choose(2, "value-is-text")]
    append = ctx.choose(2, "append") == 1
    SEQ, MAP = Rec("origin list"), Rec("origin dict")
    calls = {"get_typehint_origin": lambda c, a, k: {"list": SEQ, "dict": MAP}.get(a[0].attrs.get("origin")) if isinstance(a[0], Rec) else None}
    consts = {"NoneType": NONE, "sequence_or_mapping_origin_types": {SEQ, MAP}, "sequence_origin_types": {SEQ}}
    return Setup(env={"subtypes": tuple(subtypes), "val": val, "append": append}, calls=calls, consts=consts, data=dict(subtypes=subtypes, is_text=val.sort() == z3.StringSort(), append=append, NONE=NONE, LIST=LIST, DICT=DICT))


def ss_post(ctx, st, result):
    d = st.data
    tag = f"[{[s.cls for s in d['subtypes']]},{'text' if d['is_text'] else 'object'}{',append' if d['append'] else ''}]"
    res = list(result)
    ctx.oblige("post", "the-members-tried-are-exactly-the-declared-members(each once):sorting-never-loses-or-duplicates-one" + tag, len(res) == len(d["subtypes"]) and all(any(r is s for r in res) for s in d["subtypes"]))
    if len(d["subtypes"]) > 1 and not d["append"] and any(s is d["NONE"] for s in d["subtypes"]):
        ctx.oblige("post", "None-is-tried-first(so that 'null' is never swallowed by a str member)" + tag, res[0] is d["NONE"])
    if len(d["subtypes"]) > 1 and d["append"] and any(s is d["LIST"] for s in d["subtypes"]):
        ctx.oblige("post", "when-appending,list-members-are-tried-first" + tag, res[0] is d["LIST"])
    # stability: members that the sort does not distinguish keep their declared order
    def cls_key(x):
        k1 = (x is not d["NONE"], x not in (d["LIST"], d["DICT"])) if d["is_text"] else (x is not d["NONE"],)
        return k1
    if len(d["subtypes"]) > 1 and not d["append"]:
        want = sorted(d["subtypes"], key=cls_key)
        ctx.oblige("post", "otherwise-the-declared-order-is-kept(None first; for text: containers before scalars)" + tag, all(a is b for a, b in zip(res, want)))
    if len(d["subtypes"]) == 1:
        ctx.oblige("post", "a-single-member-is-returned-as-it-is" + tag, res == d["subtypes"])


def ss_raises(ctx, st, exc):
    ctx.oblige("raises", f"never-raises(got {exc.cls}@{exc.origin})", False)



def sort_subtypes_unit(prop):
    return Unit(prop, "jsonargparse._typehints:sort_subtypes_for_union", ss_setup, ss_post, ss_raises, max_paths=20000,
                trusted=["sorted(key=) is stable", "get_typehint_origin classifies list / dict hints"])
