"""The structural arms of adapt_typehints (jsonargparse/_typehints.py), each verified as a block unit
(`adapt_typehints@if(<test of the arm>)`: the verified text is the body of that arm in the real function; the rest of the
function is outside the unit; the contract's setup supplies the variables the arm reads).

Recursive calls adapt_typehints(v, subtype) are taken by contract (structural induction): the member either accepts and
returns a fresh value, or raises.  Spec, from the statements of C02 / C10:
  conform    normal return  =>  the result has the right Python type at this level (tuple arity, membership ...)
  accept-iff a container is accepted exactly when its shape is right and every element is accepted by its element type
  fixpoint   a value that already conforms is returned as it is (equal value, same type): parsing twice changes nothing
"""
import itertools

import z3

from pyvc.engine import ClassRef, ExcVal, PyRaise, Rec, Unsupported, is_z3, lift
from pyvc.units import Setup, Unit

TARGET = "jsonargparse._typehints:adapt_typehints@if({})"
UNEXPECTED = "raise_unexpected_value"


def raise_unexpected(ctx, a, k):
    raise PyRaise(ExcVal("ValueError", args=(a[0],), origin=UNEXPECTED))


def suppress_cm():
    """contextlib.suppress(*classes): swallows exactly the listed classes."""
    def enter(ctx, a, k):
        return (a, "$token")

    def exit_(ctx, token, exc):
        classes = token[0] if isinstance(token, tuple) else ()
        return exc is not None and any(isinstance(c, ClassRef) and ctx.classes.is_subclass(exc.cls, c.name) for c in classes)

    return (enter, exit_)


def concrete_list(c, a, k):
    if not isinstance(a[0], (list, tuple, dict, set, frozenset, str, range)):
        raise Unsupported("list() of a symbolic value")  # (iterating a z3 sequence term never ends)
    return list(a[0])


class Member:
    """Contract of the recursive call for one element type: accepts (returns a fresh adapted value) or raises."""

    def __init__(self, ctx, name):
        self.name = name
        self.calls = []


def adapt_model(ctx, accepts_of, log):
    """adapt_typehints(v, subtype, **kw) by contract; accepts_of(v, subtype) -> bool (decided once per (value, subtype))."""
    memo = {}

    def model(c, a, k):
        v, sub = a[0], a[1]
        key = (id(v) if not is_z3(v) else v.get_id(), getattr(sub, "name", repr(sub)))
        if key not in memo:
            ok = accepts_of(c, v, sub)
            memo[key] = (ok, c.fresh(f"adapted[{getattr(sub, 'name', sub)}]", z3.IntSort()) if ok else None)
        ok, out = memo[key]
        log.append((v, sub, ok, out, dict(k)))
        if not ok:
            raise PyRaise(ExcVal("ValueError", origin="element-rejected"))
        return out

    return model


# ============================================================================ leaf types
LEAVES = ["str", "int", "float", "bool"]
VAL_KINDS = ["text", "int", "float", "bool", "None", "list"]
LOADED = ["int", "float", "bool", "str-unchanged", "None", "list", "loader-error"]


def leaf_setup(ctx):
    T = LEAVES[ctx.choose(4, "typehint")]
    kind = VAL_KINDS[ctx.choose(len(VAL_KINDS), "val-kind")]
    val = {"text": z3.String("val"), "int": z3.Int("val"), "float": z3.FP("val", z3.Float64()), "bool": z3.Bool("val"), "None": None, "list": [1]}[kind]
    loaded_kind = LOADED[ctx.choose(len(LOADED), "yaml-load-of-the-text")] if kind == "text" and T != "str" else None
    loaded = {"int": z3.Int("loaded"), "float": z3.FP("loaded", z3.Float64()), "bool": z3.Bool("loaded"), "str-unchanged": val, "None": None, "list": [1], "loader-error": None, None: None}[loaded_kind]
    ctx.classes.add("YAMLError", ["Exception"])

    def load(c, a, k):
        if loaded_kind == "loader-error":
            raise PyRaise(ExcVal("YAMLError", origin="json_or_yaml_load"))
        return loaded

    def to_float(c, a, k):
        return z3.fpToFP(z3.RNE(), z3.ToReal(lift(a[0])), z3.Float64())

    ctx.classes.add("JSONDecodeError", ["ValueError"])
    ctx.classes.add("TOMLDecodeError", ["ValueError"])

    def mode_exceptions(c, a, k):
        # what the *parser mode's* loader may raise (not used by the shipped arm: json_or_yaml_load always reads with PyYAML, whatever the mode)
        return [(ClassRef("YAMLError"),), (ClassRef("JSONDecodeError"),), (ClassRef("TOMLDecodeError"),)][c.choose(3, "parser-mode:yaml/json/toml")]

    calls = {"json_or_yaml_load": load, "float": to_float, UNEXPECTED: raise_unexpected, "get_loader_exceptions": mode_exceptions}
    consts = {"leaf_types": tuple(ClassRef(x) for x in LEAVES), "json_or_yaml_loader_exceptions": (ClassRef("YAMLError"),)}
    env = {"val": val, "typehint": ClassRef(T)}
    return Setup(env=env, calls=calls, consts=consts, cms={"suppress": suppress_cm()}, data=dict(T=T, kind=kind, val=val, loaded_kind=loaded_kind, loaded=loaded))


def kind_of(v):
    if v is None:
        return "None"
    if isinstance(v, list):
        return "list"
    if isinstance(v, bool):
        return "bool"
    if is_z3(v):
        s = v.sort()
        return "bool" if s == z3.BoolSort() else "int" if s == z3.IntSort() else "text" if s == z3.StringSort() else "float" if z3.is_fp(v) else "?"
    return type(v).__name__


def conforms_leaf(v, T):
    return {"str": "text", "int": "int", "float": "float", "bool": "bool"}[T] == kind_of(v)


def leaf_post(ctx, st, result):
    d = st.data
    out = st.env["val"] if False else d["env"].lookup("val")
    tag = f"[{d['T']}<-{d['kind']}{'/' + d['loaded_kind'] if d['loaded_kind'] else ''}]"
    ctx.oblige("post", "conform:result-has-the-declared-scalar-type(bool is not an int/float)" + tag, conforms_leaf(out, d["T"]))
    if conforms_leaf(d["val"], d["T"]):
        ctx.oblige("post", "fixpoint:a-conforming-value-is-returned-as-it-is" + tag, out is d["val"])
    if d["T"] == "float" and d["kind"] == "int":
        ctx.oblige("post", "an-int-for-a-float-becomes-float(int)" + tag, is_z3(out) and z3.is_fp(out))


def leaf_raises(ctx, st, exc):
    d = st.data
    tag = f"[{d['T']}<-{d['kind']}{'/' + d['loaded_kind'] if d['loaded_kind'] else ''}]"
    ctx.oblige("raises", "rejection-is-the-unexpected-value-error" + tag, exc.origin == UNEXPECTED)
    ctx.oblige("raises", "a-value-of-the-right-type-is-never-rejected" + tag, not conforms_leaf(d["val"], d["T"]))
    if d["kind"] == "text" and d["loaded_kind"] is not None and d["loaded_kind"] != "loader-error":
        ctx.oblige("raises", "text-that-loads-to-the-declared-type-is-never-rejected" + tag, not (conforms_leaf(d["loaded"], d["T"]) or (d["T"] == "float" and d["loaded_kind"] == "int")))


# ============================================================================ Tuple / Set
def ts_setup(ctx):
    origin = ["tuple", "set"][ctx.choose(2, "origin")]
    shape = ["fixed-1", "fixed-2", "fixed-3", "ellipsis", "no-args"][ctx.choose(5 if origin == "tuple" else 2, "subtypes")] if origin == "tuple" else ["one-subtype", "no-args"][ctx.choose(2, "subtypes")]
    container = ["list", "tuple", "set-like", "str", "dict", "None"][ctx.choose(6, "val-container")]
    n = ctx.choose(4, "val-length") if container in ("list", "tuple", "set-like") else 0
    elems = [z3.Int(f"val[{i}]") for i in range(n)]
    serialize = ctx.choose(2, "serialize") == 1
    if container == "list":
        val = list(elems)
    elif container == "tuple":
        val = tuple(elems)
    elif container == "set-like":
        val = Rec("set", attrs={"items": list(elems)}, methods={"__isinstance__": lambda c, s_, a, k: a[0] in ("set", "object", "Iterable", "Collection")})
    else:
        val = {"str": z3.String("val"), "dict": {"a": 1}, "None": None}[container]
    arity = {"fixed-1": 1, "fixed-2": 2, "fixed-3": 3}.get(shape)
    subtypes = None if shape == "no-args" else tuple(ClassRef(f"T{i}") for i in range(arity or 1))
    log = []
    accepts = {}

    def accepts_of(c, v, sub):
        return c.choose(2, f"{sub.name}-accepts-{v}") == 1

    def list_model(c, a, k):
        x = a[0]
        if isinstance(x, Rec) and x.cls == "set":
            return list(x.attrs["items"])
        if not isinstance(x, (list, tuple, dict, set, frozenset, str, range)):
            raise Unsupported("list() of a symbolic value")  # (iterating a z3 sequence term never ends)
        return list(x)

    def set_model(c, a, k):
        return Rec("set", attrs={"items": list(a[0])})

    calls = {"adapt_typehints": adapt_model(ctx, accepts_of, log), "is_ellipsis_tuple": lambda c, a, k: shape == "ellipsis", UNEXPECTED: raise_unexpected, "list": list_model, "set": set_model}
    consts = {"tuple_set_origin_types": (ClassRef("Tuple"), ClassRef("tuple"), ClassRef("Set"), ClassRef("set")), "Tuple": ClassRef("Tuple")}
    env = {"val": val, "typehint": Rec("hint"), "typehint_origin": ClassRef(origin), "subtypehints": subtypes, "serialize": serialize, "adapt_kwargs": {}}
    return Setup(env=env, calls=calls, consts=consts, data=dict(origin=origin, shape=shape, container=container, n=n, elems=elems, val=val, subtypes=subtypes, arity=arity, log=log, serialize=serialize))


def ts_expected_sub(d, j):
    if d["subtypes"] is None:
        return None
    if d["origin"] == "set" or d["shape"] == "ellipsis":
        return d["subtypes"][0]
    return d["subtypes"][j] if j < len(d["subtypes"]) else None


def ts_post(ctx, st, result):
    d = st.data
    out = d["env"].lookup("val")
    tag = f"[{d['origin']}:{d['shape']}<-{d['container']}x{d['n']}]"
    ctx.oblige("post", "accept-iff:only-list/tuple/set-values" + tag, d["container"] in ("list", "tuple", "set-like"))
    if d["arity"]:
        ctx.oblige("post", "conform:tuple-arity" + tag, d["n"] == d["arity"])
    # every element was adapted by its own positional subtype and accepted, in order
    log = d["log"]
    if d["subtypes"] is not None:
        ok = len(log) == d["n"] and all(e[0] is d["elems"][j] and e[1] is ts_expected_sub(d, j) and e[2] for j, e in enumerate(log))
        ctx.oblige("post", "accept-iff:every-element-accepted-by-the-type-of-its-position" + tag, ok)
    items = None
    if isinstance(out, tuple):
        items = list(out)
    elif isinstance(out, Rec) and out.cls == "set":
        items = out.attrs["items"]
    elif isinstance(out, list):
        items = out
    want_items = [e[3] for e in log] if d["subtypes"] is not None else d["elems"]
    ctx.oblige("post", "result-holds-the-adapted-elements" + tag, items is not None and len(items) == len(want_items) and all(x is y for x, y in zip(items, want_items)))
    if not d["serialize"]:
        ctx.oblige("post", "conform:result-is-a-" + d["origin"] + tag, isinstance(out, tuple) if d["origin"] == "tuple" else (isinstance(out, Rec) and out.cls == "set"))
    else:
        ctx.oblige("post", "serialised-as-a-list" + tag, isinstance(out, list))
    if isinstance(d["val"], list):
        ctx.oblige("frame", "the-list-given-is-not-modified(a copy is adapted)" + tag, all(x is y for x, y in zip(d["val"], d["elems"])) and len(d["val"]) == d["n"])


def ts_raises(ctx, st, exc):
    d = st.data
    tag = f"[{d['origin']}:{d['shape']}<-{d['container']}x{d['n']}]"
    shape_ok = d["container"] in ("list", "tuple", "set-like") and (not d["arity"] or d["n"] == d["arity"])
    if exc.origin == UNEXPECTED:
        ctx.oblige("raises", "rejected-for-its-shape=>not-a-sequence-or-wrong-arity" + tag, not shape_ok)
    elif exc.origin == "element-rejected":
        ctx.oblige("raises", "rejected-for-an-element=>right-shape-and-some-element-is-rejected-by-its-type" + tag, shape_ok and any(not e[2] for e in d["log"]))
    else:
        ctx.oblige("raises", f"only-value-errors(got {exc.cls}@{exc.origin})" + tag, False)


# ============================================================================ List
def list_setup(ctx):
    container = ["list", "tuple", "str", "dict", "None"][ctx.choose(5, "val-container")]
    n = ctx.choose(4, "val-length") if container in ("list", "tuple") else 0
    elems = [z3.Int(f"val[{i}]") for i in range(n)]
    has_sub = ctx.choose(2, "has-element-type") == 1
    val = list(elems) if container == "list" else tuple(elems) if container == "tuple" else {"str": z3.String("val"), "dict": {"a": 1}, "None": None}[container]
    log = []

    def accepts_of(c, v, sub):
        return c.choose(2, f"{sub.name}-accepts-{v}") == 1

    ctx.classes.add("NestedArg", ["tuple"])
    calls = {"adapt_typehints": adapt_model(ctx, accepts_of, log), UNEXPECTED: raise_unexpected, "deepcopy": lambda c, a, k: dict(a[0]), "list": concrete_list}
    consts = {"sequence_origin_types": (ClassRef("List"), ClassRef("list")), "NestedArg": ClassRef("NestedArg"), "Iterable": ClassRef("Iterable"),
              "mapping_origin_types": (ClassRef("dict"), ClassRef("Dict"))}
    noop = (lambda c, a, k: c.event("enter-dir", a[0]), lambda c, t, e: False)
    env = {"val": val, "typehint_origin": ClassRef("list"), "subtypehints": (ClassRef("T0"),) if has_sub else None, "append": False, "enable_path": False, "prev_val": None,
           "adapt_kwargs": {"prev_val": None}}
    return Setup(env=env, calls=calls, consts=consts, cms={"change_to_path_dir": noop}, data=dict(container=container, n=n, elems=elems, val=val, has_sub=has_sub, log=log))


def list_post(ctx, st, result):
    d = st.data
    out = d["env"].lookup("val")
    tag = f"[List<-{d['container']}x{d['n']}{'' if d['has_sub'] else ':untyped'}]"
    ctx.oblige("post", "accept-iff:only-list-like-values(a str or a mapping is not a list)" + tag, d["container"] in ("list", "tuple"))
    ctx.oblige("post", "conform:result-is-a-list" + tag, isinstance(out, list))
    if d["has_sub"]:
        log = d["log"]
        ctx.oblige("post", "accept-iff:every-element-accepted-by-the-element-type,in-order" + tag, len(log) == d["n"] and all(e[0] is d["elems"][j] and e[2] for j, e in enumerate(log)))
        ctx.oblige("post", "result-holds-the-adapted-elements" + tag, isinstance(out, list) and len(out) == d["n"] and all(x is e[3] for x, e in zip(out, log)))
        ctx.oblige("post", "elements-are-adapted-as-list-items", all(e[4].get("list_item") is True for e in log))
    else:
        ctx.oblige("post", "untyped-list-kept-as-is" + tag, isinstance(out, list) and all(x is y for x, y in zip(out, d["elems"])))
    list_frame(ctx, d, tag)


def list_frame(ctx, d, tag):
    # acceptance is compositional: a Union tries its members one after the other on the *same* value, so a member that rejects a value part-way must leave it as given
    # (List[float] turned [1, 'a'] into [1.0, 'a'] before rejecting it, and Tuple[int, str] then refused the 1.0: Union order decided acceptance; fixed)
    if isinstance(d["val"], list):
        ctx.oblige("frame", "the-list-given-is-not-modified(a copy is adapted),whether-the-value-is-accepted-or-rejected" + tag, len(d["val"]) == d["n"] and all(x is y for x, y in zip(d["val"], d["elems"])))


def list_raises(ctx, st, exc):
    d = st.data
    tag = f"[List<-{d['container']}x{d['n']}]"
    list_frame(ctx, d, tag)
    if exc.origin == UNEXPECTED:
        ctx.oblige("raises", "rejected-for-its-shape=>not-list-like" + tag, d["container"] not in ("list", "tuple"))
    elif exc.origin == "element-rejected":
        ctx.oblige("raises", "rejected-for-an-element=>some-element-is-rejected-by-the-element-type" + tag, any(not e[2] for e in d["log"]))
    else:
        ctx.oblige("raises", f"only-value-errors(got {exc.cls}@{exc.origin})" + tag, False)


# ---------------------------------------------------------------------------- List: `key+` (append) and dotted sub-options of the last item
def lapp_setup(ctx):
    mode = ["append-one", "append-a-list", "nested-arg-on-last-item"][ctx.choose(3, "mode")]
    prev_kind = ["None", "list-of-2", "scalar-accepted", "scalar-rejected"][ctx.choose(4, "previous-value")]
    if mode == "nested-arg-on-last-item" and prev_kind.startswith("scalar"):
        prev_kind = "list-of-2"
    P = [z3.Int("prev[0]"), z3.Int("prev[1]")]
    scalar = z3.Int("prev-scalar")
    prev = {"None": None, "list-of-2": list(P), "scalar-accepted": scalar, "scalar-rejected": scalar}[prev_kind]
    new_items = [z3.Int("new[0]"), z3.Int("new[1]")]
    ctx.classes.add("NestedArg", ["tuple"])
    nested = Rec("NestedArg", attrs={"key": "k", "val": "v"})
    val = {"append-one": new_items[0], "append-a-list": list(new_items), "nested-arg-on-last-item": nested}[mode]
    log = []

    def accepts_of(c, v, sub):
        if v is scalar:
            return prev_kind == "scalar-accepted"
        return True

    calls = {"adapt_typehints": adapt_model(ctx, accepts_of, log), UNEXPECTED: raise_unexpected, "deepcopy": lambda c, a, k: dict(a[0]), "list": concrete_list}
    consts = {"sequence_origin_types": (ClassRef("List"), ClassRef("list")), "NestedArg": ClassRef("NestedArg"), "Iterable": ClassRef("Iterable"), "mapping_origin_types": (ClassRef("dict"), ClassRef("Dict"))}
    noop = (lambda c, a, k: None, lambda c, t, e: False)
    env = {"val": val, "typehint_origin": ClassRef("list"), "subtypehints": (ClassRef("T0"),), "append": mode.startswith("append"), "enable_path": False, "prev_val": prev, "adapt_kwargs": {"prev_val": prev, "append": mode.startswith("append")}}
    return Setup(env=env, calls=calls, consts=consts, cms={"change_to_path_dir": noop}, data=dict(mode=mode, prev_kind=prev_kind, P=P, scalar=scalar, new_items=new_items, nested=nested, log=log, prev=prev))


def lapp_post(ctx, st, result):
    d = st.data
    out = d["env"].lookup("val")
    tag = f"[{d['mode']},prev:{d['prev_kind']}]"
    log = [e for e in d["log"] if e[4].get("list_item") is True]  # the per-item adaptations (the conversion of a scalar previous value is a separate call)
    if d["mode"] == "nested-arg-on-last-item":
        base = d["P"][:-1] if d["prev_kind"] == "list-of-2" else []
        items = base + [d["nested"]]
        prevs = d["P"] if d["prev_kind"] == "list-of-2" else None
    else:
        base = {"None": [], "list-of-2": list(d["P"]), "scalar-accepted": ["<adapted scalar>"], "scalar-rejected": []}[d["prev_kind"]]
        new = [d["new_items"][0]] if d["mode"] == "append-one" else list(d["new_items"])
        items = base + new
        prevs = base + [None] * len(new)
    ok_len = isinstance(out, list) and len(out) == len(items) == len(log)
    ctx.oblige("post", "the-result-is-the-previous-items(in order)-followed-by-the-new-ones;a-dotted-sub-option-addresses-the-last-item" + tag, ok_len)
    if not ok_len:
        return
    same_item = all((e[0] is it) or (it == "<adapted scalar>" and is_z3(e[0]) and str(e[0]).startswith("adapted[")) for e, it in zip(log, items))
    ctx.oblige("post", "every-item-is-adapted-by-the-element-type,once,in-order,and-the-result-holds-the-adapted-items" + tag, same_item and all(x is e[3] for x, e in zip(out, log)))
    if prevs is not None:
        pv = [e[4].get("prev_val") for e in log]
        ctx.oblige("post", "item-n-is-adapted-against-the-previous-item-n(new items against nothing)" + tag,
                   all((p is q) or (q == "<adapted scalar>" and is_z3(p)) or (q is None and p is None) for p, q in zip(pv, prevs)))
    if d["prev_kind"] == "scalar-rejected" and d["mode"].startswith("append"):
        ctx.oblige("post", "a-previous-value-that-is-no-valid-item-is-dropped,not-kept-as-a-bad-item" + tag, len(out) == len(items))
    # `key+` appends to the list built so far: the items already in it stay what they are.  Handing the append flag down to the items made an item that is
    # itself a list append to its own previous value (List[List[int]] [[1, 2]] + [[3]] gave [[1, 2, 1, 2], [3]]; fixed)
    ctx.oblige("post", "the-list-is-appended-to,not-its-items:no-item-is-adapted-with-the-append-flag" + tag, not any(e[4].get("append") is True for e in log))


def lapp_raises(ctx, st, exc):
    ctx.oblige("raises", f"no-exception-in-these-scenarios[{st.data['mode']},prev:{st.data['prev_kind']}](got {exc.cls}@{exc.origin})", False)


# ============================================================================ Dict
def dict_setup(ctx):
    container = ["dict", "list", "str", "None"][ctx.choose(4, "val-container")]
    key_type = ["str", "int", "untyped"][ctx.choose(3, "key-type")]
    keys_kind = ["str-keys", "one-int-key"][ctx.choose(2, "keys")] if container == "dict" else None
    n = ctx.choose(3, "n-items") if container == "dict" else 0
    serialize = ctx.choose(2, "serialize") == 1 if key_type == "int" else False
    keys = []
    if container == "dict":
        keys = [f"k{i}" for i in range(n)]
        if keys_kind == "one-int-key" and n:
            keys[0] = 7
    vals = {k: z3.Int(f"val[{k!r}]") for k in keys}
    val = dict(vals) if container == "dict" else {"list": [1], "str": z3.String("val"), "None": None}[container]
    log = []

    def accepts_of(c, v, sub):
        return c.choose(2, f"{sub.name}-accepts-{v}") == 1

    def cast_int(c, a, k):
        x = a[0]
        if isinstance(x, int):
            return x
        if isinstance(x, str):
            if x.lstrip("-").isdigit():
                return int(x)
            raise PyRaise(ExcVal("ValueError", origin="int(key)"))
        raise Unsupported("int() of this key")

    ctx.classes.add("NestedArg", ["tuple"])
    ctx.classes.add("MappingProxyType", ["object"])
    calls = {"adapt_typehints": adapt_model(ctx, accepts_of, log), UNEXPECTED: raise_unexpected, "deepcopy": lambda c, a, k: dict(a[0]), "int": cast_int, "str": lambda c, a, k: str(a[0]),
             "type": lambda c, a, k: ClassRef("TypeAlias")}
    consts = {"mapping_origin_types": (ClassRef("dict"), ClassRef("Dict")), "NestedArg": ClassRef("NestedArg"), "MappingProxyType": ClassRef("MappingProxyType"),
              "typed_dict_meta_types": (), "OrderedDict": ClassRef("OrderedDict")}
    subtypes = None if key_type == "untyped" else (ClassRef(key_type), ClassRef("V"))
    # an earlier source may have given a mapping for this key: each entry is then adapted with the previous value of *its own* entry (a class spec given as
    # `init_args` only takes its class from there)
    prev = {k: Rec(f"previous value of entry {k!r}") for k in keys} if (container == "dict" and keys and not serialize and ctx.choose(2, "a-previous-mapping-exists") == 1) else None
    adapt_kwargs = {"sub_add_kwargs": {}, "prev_val": prev}
    env = {"val": val, "typehint": Rec("hint"), "typehint_origin": ClassRef("dict"), "subtypehints": subtypes, "serialize": serialize, "prev_val": prev,
           "adapt_kwargs": adapt_kwargs}
    return Setup(env=env, calls=calls, consts=consts, data=dict(container=container, key_type=key_type, keys=keys, vals=vals, val=val, log=log, serialize=serialize, keys_kind=keys_kind, prev=prev, adapt_kwargs=adapt_kwargs))


def dict_post(ctx, st, result):
    d = st.data
    out = d["env"].lookup("val")
    tag = f"[Dict[{d['key_type']},V]<-{d['container']}:{d['keys']}]"
    ctx.oblige("post", "accept-iff:only-mappings" + tag, d["container"] == "dict")
    ctx.oblige("post", "conform:result-is-a-dict" + tag, isinstance(out, dict))
    if d["key_type"] != "untyped":
        log = d["log"]
        ctx.oblige("post", "accept-iff:every-value-accepted-by-the-value-type" + tag, len(log) == len(d["keys"]) and all(e[2] for e in log) and all(any(e[0] is d["vals"][k] for e in log) for k in d["keys"]))
        if isinstance(out, dict):
            want_key = {"str": str, "int": (str if d["serialize"] else int)}[d["key_type"]]
            ctx.oblige("post", "conform:every-key-has-the-declared-key-type" + tag, all(type(k) is want_key for k in out.keys()),
                       note="Dict[str, V]: keys are not checked - an int key stays an int")
            ctx.oblige("post", "result-holds-the-adapted-values-under-their-keys" + tag, len(out) == len(d["keys"]) and all(any(v is e[3] for e in log) for v in out.values()))
    dict_frame(ctx, d, tag)


def dict_prev(ctx, d, tag):
    if d.get("prev") is None:
        return
    by_val = {id(v) if not is_z3(v) else v.get_id(): k for k, v in d["vals"].items()}
    ok = all(e[4].get("prev_val") is d["prev"].get(by_val.get(id(e[0]) if not is_z3(e[0]) else e[0].get_id())) for e in d["log"])
    ctx.oblige("post", "every-entry-is-adapted-with-the-previous-value-of-its-own-key(not of the first one, not the whole mapping)" + tag, ok)
    ctx.oblige("frame", "the-caller's-keyword-dictionary-still-holds-the-whole-previous-mapping" + tag, d["adapt_kwargs"].get("prev_val") is d["prev"])


def dict_frame(ctx, d, tag):
    dict_prev(ctx, d, tag)
    # as for lists: a mapping that is rejected part-way (or accepted) is left as it was given - another Union member may be tried on it
    if isinstance(d["val"], dict):
        ctx.oblige("frame", "the-mapping-given-is-not-modified(a copy is adapted),whether-the-value-is-accepted-or-rejected" + tag,
                   list(d["val"]) == list(d["keys"]) and all(d["val"][k] is d["vals"][k] for k in d["keys"]))


def dict_raises(ctx, st, exc):
    d = st.data
    tag = f"[Dict[{d['key_type']},V]<-{d['container']}:{d['keys']}]"
    dict_frame(ctx, d, tag)
    if exc.origin == UNEXPECTED:
        ctx.oblige("raises", "rejected-for-its-shape=>not-a-mapping" + tag, d["container"] != "dict")
    elif exc.origin == "element-rejected":
        ctx.oblige("raises", "rejected-for-a-value=>some-value-is-rejected-by-the-value-type" + tag, any(not e[2] for e in d["log"]))
    elif exc.origin == "int(key)":
        ctx.oblige("raises", "rejected-for-a-key=>Dict[int,.]-with-a-key-that-is-no-integer" + tag, d["key_type"] == "int" and any(not (isinstance(k, int) or str(k).lstrip("-").isdigit()) for k in d["keys"]))
    else:
        ctx.oblige("raises", f"only-value-errors(got {exc.cls}@{exc.origin})" + tag, False)


# ---------------------------------------------------------------------------- Dict: --key.item=value (one item set on top of the previous mapping)
def ditem_setup(ctx):
    prev_kind = ["None", "dict-of-2", "dict-with-that-item", "not-a-dict"][ctx.choose(4, "previous-value")]
    P = {"a": z3.Int("prev[a]"), "b": z3.Int("prev[b]")}
    prev = {"None": None, "dict-of-2": dict(P), "dict-with-that-item": {"a": P["a"], "item": z3.Int("prev[item]")}, "not-a-dict": z3.Int("prev")}[prev_kind]
    prev_snapshot = dict(prev) if isinstance(prev, dict) else None
    new_val = z3.String("given")
    ctx.classes.add("NestedArg", ["tuple"])
    ctx.classes.add("MappingProxyType", ["object"])
    nested = Rec("NestedArg", attrs={"key": "item", "val": new_val})
    log = []
    calls = {"adapt_typehints": adapt_model(ctx, lambda c, v, sub: True, log), UNEXPECTED: raise_unexpected, "deepcopy": lambda c, a, k: dict(a[0]), "type": lambda c, a, k: ClassRef("TypeAlias")}
    consts = {"mapping_origin_types": (ClassRef("dict"), ClassRef("Dict")), "NestedArg": ClassRef("NestedArg"), "MappingProxyType": ClassRef("MappingProxyType"), "int": ClassRef("int"), "typed_dict_meta_types": (), "OrderedDict": ClassRef("OrderedDict")}
    env = {"val": nested, "typehint": Rec("hint"), "typehint_origin": ClassRef("dict"), "subtypehints": (ClassRef("str"), ClassRef("T1")), "serialize": False, "prev_val": prev,
           "adapt_kwargs": {"prev_val": prev, "sub_add_kwargs": {}}}
    return Setup(env=env, calls=calls, consts=consts, data=dict(prev_kind=prev_kind, prev=prev, prev_snapshot=prev_snapshot, new_val=new_val, log=log, P=P))


def ditem_post(ctx, st, result):
    d = st.data
    out = d["env"].lookup("val")
    tag = f"[--key.item=v,prev:{d['prev_kind']}]"
    base = dict(d["prev_snapshot"]) if d["prev_snapshot"] is not None else {}
    want_keys = list(base) + ([] if "item" in base else ["item"])
    ctx.oblige("post", "the-result-is-the-previous-mapping-with-that-one-item-set(other items kept,in order)" + tag, isinstance(out, dict) and list(out) == want_keys)
    if isinstance(out, dict):
        by_key = {e[0] if not is_z3(e[0]) else None: e for e in d["log"]}
        ctx.oblige("post", "every-item-is-adapted-by-the-value-type:the-new-item-from-the-given-text,the-others-from-their-previous-values" + tag,
                   len(d["log"]) == len(want_keys) and any(e[0] is d["new_val"] for e in d["log"]) and all(any(e[0] is base[k] for e in d["log"]) for k in base if k != "item"))
    if d["prev_snapshot"] is not None:
        ctx.oblige("frame", "the-previous-mapping-itself-is-not-written(it may be the parser's declared default or the caller's object):a-new-mapping-is-built" + tag,
                   out is not d["prev"] and list(d["prev"]) == list(d["prev_snapshot"]) and all(d["prev"][k] is d["prev_snapshot"][k] for k in d["prev_snapshot"]))


def ditem_raises(ctx, st, exc):
    ctx.oblige("raises", f"no-exception-in-these-scenarios[prev:{st.data['prev_kind']}](got {exc.cls}@{exc.origin})", False)


# ============================================================================ Literal
def lit_setup(ctx):
    kind = ["int", "bool", "float", "text", "None"][ctx.choose(5, "val-kind")]
    val = {"int": z3.Int("val"), "bool": z3.Bool("val"), "float": z3.FP("val", z3.Float64()), "text": z3.String("val"), "None": None}[kind]
    literals = (1, 2, "a")
    loaded_accepts = ctx.choose(2, "text-loads-to-a-literal") == 1 if kind == "text" else False
    log = []

    def adapt(c, a, k):
        # Union of the non-str literal types applied to a text: by contract returns a value of one of them or raises
        log.append(a[1])
        if not loaded_accepts:
            raise PyRaise(ExcVal("ValueError", origin="element-rejected"))
        return z3.Int("loaded-int")

    calls = {"adapt_typehints": adapt, UNEXPECTED: raise_unexpected, "tuple": lambda c, a, k: tuple(a[0]) if not isinstance(a[0], tuple) else a[0], "type": lambda c, a, k: ClassRef(type(a[0]).__name__)}
    consts = {"literal_types": (ClassRef("Literal"),), "Union": Rec("Union", methods={"__getitem__": lambda c, s_, a, k: Rec("Union[...]", attrs={"args": a[0]})})}
    env = {"val": val, "typehint": Rec("hint"), "typehint_origin": ClassRef("Literal"), "subtypehints": literals, "adapt_kwargs": {}}
    return Setup(env=env, calls=calls, consts=consts, cms={"suppress": suppress_cm()}, data=dict(kind=kind, val=val, literals=literals, loaded_accepts=loaded_accepts), watch={"val": val} if kind != "None" else {})


def lit_member(v, literals, strict):
    """membership of v in the literals; strict: same Python type as the literal (True is not the int literal 1)"""
    if v is None:
        return False
    k = kind_of(v)
    conds = []
    for lit in literals:
        lk = {"int": "int", "str": "text", "bool": "bool", "float": "float"}[type(lit).__name__]
        if strict and lk != k:
            continue
        if lk == "text" and k == "text":
            conds.append(v == z3.StringVal(lit))
        elif lk == "int" and k == "int":
            conds.append(v == lit)
        elif not strict and lk == "int" and k == "bool":
            conds.append(z3.If(v, 1, 0) == lit)
        elif not strict and lk == "int" and k == "float":
            conds.append(z3.fpEQ(v, z3.FPVal(float(lit), z3.Float64())))
    return z3.Or(*conds) if conds else z3.BoolVal(False)


def lit_post(ctx, st, result):
    d = st.data
    out = d["env"].lookup("val")
    tag = f"[Literal[1,2,'a']<-{d['kind']}]"
    ctx.oblige("post", "conform:result-is-one-of-the-literals,with-the-literal's-own-type(True / 1.0 are not the literal 1)" + tag, lit_member(out, d["literals"], strict=True),
               note="membership is tested with == only: bool and float values equal to an int literal pass")
    if d["kind"] != "text":
        ctx.oblige("post", "fixpoint:an-accepted-value-is-returned-as-it-is" + tag, out is d["val"])


def lit_raises(ctx, st, exc):
    d = st.data
    tag = f"[Literal[1,2,'a']<-{d['kind']}]"
    if exc.origin == UNEXPECTED:
        ctx.oblige("raises", "a-literal-member-is-never-rejected" + tag, z3.Not(lit_member(d["val"], d["literals"], strict=True)) if d["val"] is not None else True)
    elif exc.origin == "element-rejected":
        ctx.oblige("raises", "only-a-text-that-is-no-literal-is-tried-as-another-literal-type" + tag, d["kind"] == "text")
    else:
        ctx.oblige("raises", f"only-value-errors(got {exc.cls}@{exc.origin})" + tag, False)


# ============================================================================ Enum
def enum_setup(ctx):
    names = ["A", "B"]
    members = {n: Rec("Color", attrs={"name": n}) for n in names}
    kind = ["member", "name-text", "other-text", "int", "None", "member-of-another-Enum(same name)"][ctx.choose(6, "val-kind")]
    serialize = ctx.choose(2, "serialize") == 1
    text = z3.String("val")
    if kind == "name-text":
        which = ctx.choose(2, "which-name")
        ctx.assume(text == z3.StringVal(names[which]))
    elif kind == "other-text":
        ctx.assume(z3.And(*[text != z3.StringVal(n) for n in names]))
    foreign = Rec("Shade", attrs={"name": "A"})  # a member of another Enum class, even with the name and value of a member of this one, is not a member
    val = {"member": members["A"], "name-text": text, "other-text": text, "int": z3.Int("val"), "None": None, "member-of-another-Enum(same name)": foreign}[kind]

    def getitem(c, s_, a, k):
        key = a[0]
        if is_z3(key) and key.sort() == z3.StringSort():
            for n in names:
                if c.branch(key == z3.StringVal(n), f"enum-name=={n}"):
                    return members[n]
        raise PyRaise(ExcVal("KeyError", origin="Enum[...]"))  # (also for a member of another Enum given as the key: Enum lookup is by name text)

    def isinst(c, s_, a, k):
        return a[0] == "Color" or a[0] == "object"

    for m in members.values():
        m.methods["__isinstance__"] = isinst
    typehint = Rec("EnumClass", attrs={"__members__": members}, methods={"__getitem__": getitem})
    typehint.name = "Color"

    def isinstance_model(c, a, k):
        if a[1] is typehint:
            return isinstance(a[0], Rec) and a[0].cls == "Color"
        if isinstance(a[1], ClassRef) and a[1].name == "Enum":  # the base class: true of the members of *every* Enum
            return isinstance(a[0], Rec) and a[0].cls in ("Color", "Shade")
        raise Unsupported("isinstance against another class")
    calls = {"is_subclass": lambda c, a, k: True, UNEXPECTED: raise_unexpected, "iter_to_set_str": lambda c, a, k: "{A,B}",
             "isinstance": isinstance_model}
    env = {"val": val, "typehint": typehint, "serialize": serialize}
    return Setup(env=env, calls=calls, consts={"Enum": ClassRef("Enum")}, data=dict(kind=kind, val=val, members=members, serialize=serialize, names=names))


def enum_post(ctx, st, result):
    d = st.data
    out = d["env"].lookup("val")
    tag = f"[Enum<-{d['kind']}{':serialize' if d['serialize'] else ''}]"
    if d["serialize"]:
        if d["kind"] == "member":
            ctx.oblige("post", "a-member-is-serialised-as-its-name" + tag, out == "A")
        else:
            ctx.oblige("post", "a-non-member-is-left-as-it-is-when-serialising" + tag, out is d["val"])
        return
    ctx.oblige("post", "conform:result-is-a-member-of-the-enum" + tag, any(out is m for m in d["members"].values()))
    ctx.oblige("post", "accept-iff:only-members-and-member-names" + tag, d["kind"] in ("member", "name-text"))
    if d["kind"] == "member":
        ctx.oblige("post", "fixpoint:a-member-is-returned-as-it-is" + tag, out is d["val"])


def enum_raises(ctx, st, exc):
    d = st.data
    tag = f"[Enum<-{d['kind']}]"
    ctx.oblige("raises", "rejection-is-the-unexpected-value-error(not a bare KeyError)" + tag, exc.origin == UNEXPECTED)
    ctx.oblige("raises", "a-member-or-a-member-name-is-never-rejected" + tag, d["kind"] not in ("member", "name-text") and not d["serialize"])


# ============================================================================ registered types
def reg_setup(ctx):
    serialize = ctx.choose(2, "serialize") == 1
    is_value = ctx.choose(2, "value-already-of-the-type") == 1
    val = Rec("value")
    ser, des = Rec("serialised"), Rec("deserialised")

    def deser(c, s_, a, k):
        c.event("deserializer", a[0])
        if c.choose(2, "deserializer-raises") == 1:
            raise PyRaise(ExcVal("ValueError", origin="deserializer"))
        return des

    reg = Rec("RegisteredType", methods={"serializer": lambda c, s_, a, k: (c.event("serializer", a[0]), ser)[1], "deserializer": deser,
                                         "is_value_of_type": lambda c, s_, a, k: is_value})
    calls = {"get_registered_type": lambda c, a, k: reg}
    return Setup(env={"val": val, "typehint": Rec("hint"), "serialize": serialize}, calls=calls, data=dict(serialize=serialize, is_value=is_value, val=val, ser=ser, des=des))


def reg_post(ctx, st, result):
    d = st.data
    out = d["env"].lookup("val")
    ev = [e[0] for e in ctx.events]
    if d["serialize"]:
        ctx.oblige("post", "serialising-calls-the-type's-serializer-once-on-the-value", ev == ["serializer"] and out is d["ser"])
    elif d["is_value"]:
        ctx.oblige("post", "fixpoint:a-value-already-of-the-type-is-returned-as-it-is(not deserialised again)", ev == [] and out is d["val"])
    else:
        ctx.oblige("post", "anything-else-goes-through-the-type's-deserializer-once", ev == ["deserializer"] and out is d["des"])


def reg_raises(ctx, st, exc):
    d = st.data
    ctx.oblige("raises", "only-the-deserializer-rejects,and-only-values-not-yet-of-the-type", exc.origin == "deserializer" and not d["serialize"] and not d["is_value"])


# ============================================================================ Type[...] / type
# a value for Type[Base] is a class: given as a class it is kept; given as text it is the import path of a class that is (a subclass of) the
# declared one; anything else - also a path that cannot be imported - is rejected with the arm's ValueError (an ImportError / AttributeError of
# the import escaped every parse method before; fixed)
TYPE_VALS = ["a-class-object", "path-of-a-subclass", "path-of-an-unrelated-class", "path-of-a-function", "module-missing", "attribute-missing", "not-a-dotted-path"]


def type_setup(ctx):
    bare = ctx.choose(2, "bare-Type") == 1
    serialize = ctx.choose(2, "serialize") == 1
    vk = TYPE_VALS[ctx.choose(len(TYPE_VALS), "value")]
    ctx.classes.add("ModuleNotFoundError", ["ImportError"])
    TYPE_, TYPE_BARE, BASE = Rec("typing.Type"), Rec("builtins.type"), Rec("class Base")
    sub, other, fn = Rec("type", attrs={"name": "Sub"}), Rec("type", attrs={"name": "Other"}), Rec("function", attrs={"name": "fn"})
    ctx.classes.add("type", [])
    text = z3.String("import path")
    val = sub if vk == "a-class-object" else text
    typehint = TYPE_ if bare else Rec("Type[Base]")

    def import_object(c, a, k):
        c.event("import", a[0])
        if vk == "module-missing":
            raise PyRaise(ExcVal("ModuleNotFoundError", args=("No module named x",), origin="import_object"))
        if vk == "attribute-missing":
            raise PyRaise(ExcVal("AttributeError", args=("module has no attribute",), origin="import_object"))
        if vk == "not-a-dotted-path":
            raise PyRaise(ExcVal("ValueError", args=("Expected a dot import path string",), origin="import_object"))
        return {"path-of-a-subclass": sub, "path-of-an-unrelated-class": other, "path-of-a-function": fn}[vk]

    calls = {"import_object": import_object, "object_path_serializer": lambda c, a, k: (c.event("serialize", a[0]), "pkg.Sub")[1], UNEXPECTED: raise_unexpected,
             "is_subclass": lambda c, a, k: a[0] is sub and a[1] is BASE}
    consts = {"Type": TYPE_, "type": ClassRef("type")}
    env = {"val": val, "typehint": typehint, "typehint_origin": TYPE_ if not bare else None, "subtypehints": (BASE,) if not bare else None, "serialize": serialize}
    return Setup(env=env, calls=calls, consts=consts, data=dict(bare=bare, serialize=serialize, vk=vk, val=val, sub=sub, other=other, text=text))


def type_ok(d):
    if d["serialize"] or d["vk"] == "a-class-object":
        return True
    if d["vk"] == "path-of-a-subclass":
        return True
    return d["bare"] and d["vk"] == "path-of-an-unrelated-class"   # bare Type: any class


def type_post(ctx, st, result):
    d = st.data
    out = d["env"].lookup("val")
    tag = f"[{'Type' if d['bare'] else 'Type[Base]'}<-{d['vk']}{',serialize' if d['serialize'] else ''}]"
    ctx.oblige("post", "accepted=>a-class-object,or-the-import-path-of-a-class-that-is(for Type[Base]: a subclass of)-the-declared-one" + tag, type_ok(d))
    if d["serialize"]:
        ctx.oblige("post", "serialised-as-its-import-path" + tag, out == "pkg.Sub")
    elif d["vk"] == "a-class-object":
        ctx.oblige("post", "fixpoint:a-class-object-is-kept(not imported again)" + tag, out is d["val"] and not [e for e in ctx.events if e[0] == "import"])
    else:
        ctx.oblige("post", "the-result-is-the-imported-class" + tag, out is (d["sub"] if d["vk"] == "path-of-a-subclass" else d["other"]))


def type_raises(ctx, st, exc):
    d = st.data
    tag = f"[{'Type' if d['bare'] else 'Type[Base]'}<-{d['vk']}]"
    ctx.oblige("raises", f"rejected=>ValueError-only(an import path that cannot be imported is a wrong value, not a crash)(got {exc.cls}@{exc.origin})" + tag, exc.cls == "ValueError" and not type_ok(d))


def arms_units(prop):
    u = []
    u.append(Unit(prop, TARGET.format("typehint in {Type, type} or typehint_origin in {Type, type}"), type_setup, type_post, type_raises, label="Type", expect_cover=("return", "raise:ValueError"),
                  trusted=["import_object(path) returns the object or raises ImportError / AttributeError / ValueError (its own unit, C14)", "is_subclass as issubclass; object_path_serializer: the import path of the class"]))
    u.append(Unit(prop, TARGET.format("typehint in leaf_types"), leaf_setup, leaf_post, leaf_raises, label="leaf-types", expect_cover=("return", "raise:ValueError"),
                  trusted=["json_or_yaml_load(text) returns some int/float/bool/str/None/list or raises a loader exception (external loader)", "float(int) rounds to nearest"]))
    u.append(Unit(prop, TARGET.format("typehint_origin in tuple_set_origin_types"), ts_setup, ts_post, ts_raises, label="Tuple/Set", expect_cover=("return", "raise:ValueError"), max_paths=60000,
                  trusted=["recursive adapt_typehints(v, subtype): returns a value iff the subtype accepts v (induction hypothesis)", "is_ellipsis_tuple(hint) tells Tuple[T, ...]"]))
    u.append(Unit(prop, TARGET.format("typehint_origin in mapping_origin_types"), ditem_setup, ditem_post, ditem_raises, label="Dict:item-option", max_paths=500,
                  trusted=["recursive adapt_typehints by contract (induction hypothesis)"]))
    u.append(Unit(prop, TARGET.format("typehint_origin in sequence_origin_types"), lapp_setup, lapp_post, lapp_raises, label="List:append-and-sub-options", max_paths=5000,
                  trusted=["recursive adapt_typehints by contract (induction hypothesis)"]))
    u.append(Unit(prop, TARGET.format("typehint_origin in sequence_origin_types"), list_setup, list_post, list_raises, label="List", expect_cover=("return", "raise:ValueError"), max_paths=60000,
                  trusted=["recursive adapt_typehints by contract", "scenario: append=False, enable_path=False (the `+` append and list-file paths are outside this unit)"]))
    u.append(Unit(prop, TARGET.format("typehint_origin in mapping_origin_types"), dict_setup, dict_post, dict_raises, label="Dict", expect_cover=("return", "raise:ValueError"), max_paths=60000,
                  replayer="replayers.c02:replay_dict_key",
                  trusted=["recursive adapt_typehints by contract", "scenario: no NestedArg, no linked targets, not a TypedDict"]))
    u.append(Unit(prop, TARGET.format("typehint_origin in literal_types"), lit_setup, lit_post, lit_raises, label="Literal", expect_cover=("return", "raise:ValueError"),
                  replayer="replayers.c02:replay_literal",
                  trusted=["literals (1, 2, 'a'); a text is retried as the Union of the non-str literal types (by contract)"]))
    u.append(Unit(prop, TARGET.format("is_subclass(typehint, Enum)"), enum_setup, enum_post, enum_raises, label="Enum", expect_cover=("return", "raise:ValueError"),
                  trusted=["EnumClass[name] returns the member or raises KeyError; isinstance(v, EnumClass) iff v is a member"]))
    u.append(Unit(prop, TARGET.format("get_registered_type(typehint)"), reg_setup, reg_post, reg_raises, label="registered-type", expect_cover=("return", "raise:ValueError"),
                  trusted=["RegisteredType.serializer/deserializer/is_value_of_type as registered (C20 units)"]))
    return u


# ============================================================================ dataclass-like
def dc_setup(ctx):
    prev_kind = ["none", "namespace", "dict"][ctx.choose(3, "prev_val")]
    mode = ["parse", "serialize", "instantiate"][ctx.choose(3, "mode")]
    val_kind = ["dict", "namespace", "nested-arg", "other", "spec-of-this-very-class", "spec-of-another-class"][ctx.choose(6, "val-kind")] if mode == "parse" else "namespace"
    sub_defaults_on = ctx.choose(2, "sub_defaults") == 1 if mode == "parse" else False
    list_item = ctx.choose(2, "list_item") == 1 if mode == "parse" and val_kind in ("dict", "namespace") else False
    # the class parser reports what it refuses with ArgumentError (it is built with exit_on_error=False: unit of get_class_parser; unit of error)
    refused = ctx.choose(2, "the-class-parser-refuses-the-value") == 1 if mode == "parse" and val_kind != "other" else False

    def validated(c2, name, a2, k2):
        c2.event(name, a2[0], dict(k2))
        if refused:
            raise PyRaise(ExcVal("ArgumentError", args=("Validation failed",), origin="class-parser"))
        return parsed

    prev = {"none": None, "namespace": Rec("Namespace", attrs={"tag": "previous value"}), "dict": {"a": 5}}[prev_kind]
    given_kwargs = {"fail_untyped": True}
    snapshot = dict(given_kwargs)
    parsed = Rec("Namespace", attrs={"tag": "parsed by the class parser"})
    seen_kwargs = []

    def get_class_parser(c, a, k):
        seen_kwargs.append(dict(k.get("sub_add_kwargs") or {}))
        return Rec("ArgumentParser", methods={
            "parse_object": lambda c2, s2, a2, k2: validated(c2, "parse_object", a2, k2),
            "parse_args": lambda c2, s2, a2, k2: validated(c2, "parse_args", a2, k2),
            "instantiate_classes": lambda c2, s2, a2, k2: {"a": 1},
            "dump": lambda c2, s2, a2, k2: (c2.event("nested-dump", a2[0], dict(k2)), dumped_text)[1]})

    dumped_text = z3.String("text-dumped-by-the-class-parser")
    loaded = Rec("dict loaded from the dumped text")
    caller_dump_kwargs = {"skip_none": z3.Bool("dump.skip_none"), "skip_validation": z3.Bool("dump.skip_validation"), "skip_link_targets": z3.Bool("dump.skip_link_targets")}
    ctx.classes.add("NestedArg", ["tuple"])
    spec_init = Rec("Namespace", attrs={"tag": "init_args of the spec"})
    val = {"dict": {"a": 1}, "namespace": Rec("Namespace", attrs={"tag": "value"}, methods={"get": lambda c, s_, a, k: None}), "nested-arg": Rec("NestedArg", attrs={"key": "a", "val": "5"}), "other": 7,
           "spec-of-this-very-class": Rec("Namespace", attrs={"tag": "spec", "spec": True}, methods={"get": lambda c, s_, a, k: {"class_path": "pkg.DC", "init_args": spec_init}.get(a[0])}),
           "spec-of-another-class": Rec("Namespace", attrs={"tag": "spec", "spec": True}, methods={"get": lambda c, s_, a, k: {"class_path": "pkg.Other", "init_args": spec_init}.get(a[0])})}[val_kind]
    calls = {"ActionTypeHint.get_class_parser": get_class_parser, UNEXPECTED: raise_unexpected, "is_subclass_spec": lambda c, a, k: isinstance(a[0], Rec) and a[0].attrs.get("spec", False),
             "get_import_path": lambda c, a, k: "pkg.DC", "sub_defaults.get": lambda c, a, k: sub_defaults_on,
             "load_value": lambda c, a, k: (c.event("load", a[0]), loaded)[1], "dump_kwargs.get": lambda c, a, k: dict(caller_dump_kwargs), "typehint": lambda c, a, k: Rec("dataclass instance", attrs=dict(k)),
             "indent_text": lambda c, a, k: a[0], "str": lambda c, a, k: "text of the failure"}
    consts = {"Namespace": ClassRef("Namespace"), "NestedArg": ClassRef("NestedArg"), "ArgumentError": ClassRef("ArgumentError")}
    env = {"val": val, "typehint": Rec("DataclassType", attrs={"__name__": "DC"}), "prev_val": prev, "sub_add_kwargs": given_kwargs, "instantiate_classes": mode == "instantiate", "serialize": mode == "serialize", "list_item": list_item}
    return Setup(env=env, calls=calls, consts=consts, data=dict(prev_kind=prev_kind, prev=prev, mode=mode, val_kind=val_kind, given=given_kwargs, snapshot=snapshot, seen=seen_kwargs, parsed=parsed, val=val, spec_init=spec_init, refused=refused, sub_defaults_on=sub_defaults_on, list_item=list_item, dumped_text=dumped_text, loaded=loaded, caller_dump_kwargs=caller_dump_kwargs))


def dc_post(ctx, st, result):
    d = st.data
    tag = f"[dataclass:{d['mode']}<-{d['val_kind']},prev:{d['prev_kind']}]"
    ctx.oblige("frame", "the-action's-own-sub_add_kwargs-dict-is-not-modified(nothing of this call is remembered for the next one)" + tag, d["given"] == d["snapshot"],
               note="the previous value is written into the dict that belongs to the action, so a later parse on the same parser starts from it")
    if d["prev_kind"] != "none":
        ctx.oblige("post", "the-class-parser-is-built-with-the-previous-value-as-default" + tag, len(d["seen"]) == 1 and d["seen"][0].get("default") is d["prev"])
    else:
        ctx.oblige("post", "without-a-previous-value-the-class-parser-gets-no-default" + tag, len(d["seen"]) == 1 and "default" not in d["seen"][0])
    if d["mode"] == "parse":
        out = d["env"].lookup("val")
        ctx.oblige("post", "a-value-the-class-parser-refuses-is-not-accepted" + tag, not d["refused"])
        ctx.oblige("post", "accept-iff:only-mappings-and-dotted-sub-options;validated-by-the-parser-of-that-very-class" + tag, d["val_kind"] in ("dict", "namespace", "nested-arg", "spec-of-this-very-class", "spec-of-another-class") and out is d["parsed"])
        ev = [e for e in ctx.events if e[0] in ("parse_object", "parse_args")]
        ctx.oblige("post", "the-validating-entry-point-of-the-class-parser-is-used-exactly-once" + tag, len(ev) == 1)
        if len(ev) == 1 and ev[0][0] == "parse_object":
            want_obj = d["spec_init"] if d["val_kind"] == "spec-of-this-very-class" else d["val"]
            ctx.oblige("post", "what-is-validated-is-the-mapping-given(for a class_path spec naming this very class: its init_args;a spec of another class is not unwrapped,so its keys are refused by the class parser)" + tag, ev[0][1] is want_obj)
            ctx.oblige("post", "the-class's-defaults-are-filled-in-exactly-when-sub-defaults-are-on-or-the-value-is-a-list-item" + tag, ev[0][2].get("defaults") is (d["sub_defaults_on"] or d["list_item"]) or ev[0][2].get("defaults") == (d["sub_defaults_on"] or d["list_item"]))
        if len(ev) == 1 and ev[0][0] == "parse_args":
            want_ns = d["prev"] if d["prev_kind"] == "namespace" else None
            ctx.oblige("post", "a-dotted-sub-option-is-parsed-as---key=value-on-top-of-the-previous-value(when that is a namespace)" + tag, ev[0][1] == ["--a=5"] and ev[0][2].get("namespace") is want_ns)
    if d["mode"] == "serialize":
        dumps = [e for e in ctx.events if e[0] == "nested-dump"]
        ok = len(dumps) == 1 and dumps[0][1] is d["val"] and set(dumps[0][2]) == set(d["caller_dump_kwargs"]) and all(dumps[0][2][k] is v for k, v in d["caller_dump_kwargs"].items())
        ctx.oblige("post", "the-nested-value-is-dumped-by-the-class-parser-with-the-caller's-dump-settings(skip_none, skip_validation, ... are not reset for nested dataclasses)" + tag, ok)
        out = d["env"].lookup("val")
        ctx.oblige("post", "the-serialised-form-is-what-the-loader-reads-from-that-dump" + tag, out is d["loaded"] and [e for e in ctx.events if e[0] == "load"] == [("load", d["dumped_text"])])


def dc_raises(ctx, st, exc):
    d = st.data
    tag = f"[dataclass:{d['mode']}<-{d['val_kind']},prev:{d['prev_kind']}]"
    # C02 / C03: the refusal of the nested parser is the refusal of this value: the ValueError every caller handles (Union tries the next member, List / Dict name the
    # item, _check_type names the key and the parse methods report it through their own parser's channel) - never the nested parser's ArgumentError as it is
    ctx.oblige("raises", "rejected=>the-value-is-neither-a-mapping-nor-a-dotted-sub-option,or-the-class-parser-refused-it;always-as-the-ValueError-of-an-unexpected-value" + tag + f"(got {exc.cls}@{exc.origin})",
               exc.origin == UNEXPECTED and (d["val_kind"] == "other" or d["refused"]))
    ctx.oblige("frame", "the-action's-own-sub_add_kwargs-dict-is-not-modified" + tag, d["given"] == d["snapshot"])


def dataclass_unit(prop):
    return Unit(prop, TARGET.format("is_dataclass_like(typehint)"), dc_setup, dc_post, dc_raises, label="dataclass", expect_cover=("return", "raise:ValueError"), replayer="replayers.c09:replay_dataclass_history",
                trusted=["ActionTypeHint.get_class_parser(typehint, sub_add_kwargs=...) builds a fresh parser for that class", "parser.parse_object / parse_args validate against that class"])


# ============================================================================ the dispatch of adapt_typehints
# Each arm above is verified for "its" kind of type hint; this unit closes the chain: for a type hint of a given kind the arm that
# runs is that kind's arm (first match in the documented priority: a registered / Enum / dataclass-like class is not treated as a
# plain class, Optional/Union before containers, ...).  The whole real function is executed up to the first statement of an arm.
ARMS = [("Any", "typehint == Any"), ("Literal", "typehint_origin in literal_types"), ("leaf", "typehint in leaf_types"), ("Annotated", "is_annotated(typehint)"),
        ("registered", "get_registered_type(typehint)"), ("Enum", "is_subclass(typehint, Enum)"), ("Type", "typehint in {Type, type} or typehint_origin in {Type, type}"),
        ("Union", "typehint_origin == Union"), ("Tuple/Set", "typehint_origin in tuple_set_origin_types"), ("List", "typehint_origin in sequence_origin_types"),
        ("Dict", "typehint_origin in mapping_origin_types"), ("NotRequired", "typehint_origin in not_required_required_types"),
        ("Callable", "typehint_origin in callable_origin_types or typehint in callable_origin_types"), ("dataclass", "is_dataclass_like(typehint)"),
        ("class", "not hasattr(typehint, '__origin__') and inspect.isclass(typehint)"), ("alias", "is_alias_type(typehint)")]

# kind of type hint -> (facts, the arm that must run)
KINDS_OF_HINT = [
    ("Any", dict(is_any=True), "Any"),
    ("Literal['a', 1]", dict(origin="Literal"), "Literal"),
    ("int (a leaf type)", dict(leaf=True, isclass=True), "leaf"),
    ("Annotated[int, ...]", dict(annotated=True, origin="int-class"), "Annotated"),
    ("a registered class (datetime, Path, ...)", dict(registered=True, isclass=True), "registered"),
    ("an Enum class", dict(enum=True, isclass=True), "Enum"),
    ("a registered Enum class", dict(enum=True, registered=True, isclass=True), "registered"),
    ("Type[Base]", dict(origin="Type"), "Type"),
    ("type (bare)", dict(is_type=True, isclass=True), "Type"),
    ("Union[int, str] / Optional[int]", dict(origin="Union"), "Union"),
    ("Tuple[int, str]", dict(origin="tuple"), "Tuple/Set"),
    ("Set[int]", dict(origin="set"), "Tuple/Set"),
    ("List[int]", dict(origin="list"), "List"),
    ("Dict[str, int]", dict(origin="dict"), "Dict"),
    ("NotRequired[int]", dict(origin="NotRequired"), "NotRequired"),
    ("Callable[[int], int]", dict(origin="Callable"), "Callable"),
    ("Callable (bare)", dict(is_callable=True), "Callable"),
    ("a dataclass-like class", dict(dataclass=True, isclass=True), "dataclass"),
    ("a plain class", dict(isclass=True), "class"),
    ("a generic alias of a class (has __origin__)", dict(isclass=False, has_origin=True, origin="some-generic"), None),
    ("a type alias (type X = ...)", dict(alias=True), "alias"),
    ("something unsupported", dict(), None),
]


def arm_lines():
    from pyvc.units import find_function
    import ast as _ast
    fn = find_function("jsonargparse._typehints", "adapt_typehints")[0]
    texts = {t for _, t in ARMS}
    lines = {}
    for node in _ast.walk(fn):
        if isinstance(node, _ast.If) and _ast.unparse(node.test) in texts:
            lines[node.body[0].lineno] = _ast.unparse(node.test)
    return lines


def disp_setup(ctx):
    from pyvc.engine import PathEnd
    label, facts, want = KINDS_OF_HINT[ctx.choose(len(KINDS_OF_HINT), "kind-of-type-hint")]
    val_is_default = ctx.choose(2, "value-is-a-scalar(possibly equal to the declared default)") == 1
    O = {n: Rec(f"origin {n}") for n in ("Literal", "Type", "Union", "tuple", "set", "list", "dict", "NotRequired", "Callable", "int-class", "some-generic")}
    ANY, TYPE_, TYPE_BARE, CALLABLE_BARE, ENUM = Rec("typing.Any"), O["Type"], Rec("type"), Rec("collections.abc.Callable"), Rec("Enum")
    typehint = ANY if facts.get("is_any") else TYPE_BARE if facts.get("is_type") else CALLABLE_BARE if facts.get("is_callable") else Rec("typehint: " + label, attrs={"__args__": (Rec("subtype"),)})
    if facts.get("has_origin") or facts.get("origin"):
        typehint.attrs["__origin__"] = O.get(facts.get("origin"), Rec("origin"))
    leaf = Rec("leaf-int")
    if facts.get("leaf"):
        typehint = leaf
    lines = arm_lines()
    test_of = dict(ARMS)

    def before(c, interp, stmt, env):
        t = lines.get(stmt.lineno)
        if t is not None:
            c.oblige("post", f"the-arm-that-runs-is-the-one-for-this-kind-of-type-hint[{label}]", want is not None and t == test_of[want], note=f"entered the arm `{t}`")
            if val_is_default:
                c.oblige("post", f"a-scalar-is-adapted-unless-it-equals-the-declared-default[{label}]", val != default)
            raise PathEnd()

    default = z3.Int("default")
    val = z3.Int("val") if val_is_default else Rec("value")
    consts = {"Any": ANY, "literal_types": {O["Literal"]}, "leaf_types": {leaf, Rec("leaf-str")}, "Type": TYPE_, "type": TYPE_BARE, "Union": O["Union"], "Enum": ENUM,
              "tuple_set_origin_types": {O["tuple"], O["set"]}, "sequence_origin_types": {O["list"]}, "mapping_origin_types": {O["dict"]},
              "not_required_required_types": {O["NotRequired"]}, "callable_origin_types": {O["Callable"], CALLABLE_BARE}}
    calls = {
        "get_typehint_origin": lambda c, a, k: O.get(facts.get("origin")) if a[0] is typehint else None,
        "is_annotated": lambda c, a, k: bool(facts.get("annotated")) and a[0] is typehint,
        "get_registered_type": lambda c, a, k: Rec("RegisteredType") if facts.get("registered") and a[0] is typehint else None,
        "is_subclass": lambda c, a, k: bool(facts.get("enum")) and a[0] is typehint and a[1] is ENUM,
        "is_dataclass_like": lambda c, a, k: bool(facts.get("dataclass")) and a[0] is typehint,
        "inspect.isclass": lambda c, a, k: bool(facts.get("isclass")) and a[0] is typehint,
        "is_alias_type": lambda c, a, k: bool(facts.get("alias")) and a[0] is typehint,
        "type": lambda c, a, k: ClassRef("int") if is_z3(a[0]) else ClassRef("SomeObject"),
    }
    env = {"val": val, "typehint": typehint, "serialize": False, "instantiate_classes": False, "prev_val": None, "orig_val": None, "append": False, "list_item": False, "enable_path": False,
           "sub_add_kwargs": None, "default": default, "logger": None}
    return Setup(env=env, calls=calls, consts=consts, hooks={"before_stmt": before}, data=dict(label=label, want=want, val=val, val_is_default=val_is_default, default=default))


def disp_post(ctx, st, result):
    d = st.data
    if d["val_is_default"]:
        # returned without entering an arm: either it equals the declared default (returned as it is), or no arm exists for this kind
        ctx.oblige("post", f"a-scalar-is-returned-unadapted-only-when-it-equals-the-declared-default(or the kind is unsupported)[{d['label']}]",
                   z3.And(z3.BoolVal(result is d["val"]), z3.Or(d["val"] == d["default"], z3.BoolVal(d["want"] is None))))
    else:
        ctx.oblige("post", f"a-type-hint-of-no-supported-kind-leaves-the-value-as-it-is(no arm runs)[{d['label']}]", d["want"] is None and result is d["val"])


def disp_raises(ctx, st, exc):
    ctx.oblige("raises", f"the-dispatch-itself-never-raises[{st.data['label']}](got {exc.cls}@{exc.origin})", False)


def dispatch_unit(prop):
    return Unit(prop, "jsonargparse._typehints:adapt_typehints", disp_setup, disp_post, disp_raises, label="dispatch", expect_cover=("return",),
                trusted=["the classification helpers (get_typehint_origin, is_annotated, get_registered_type, is_subclass, is_dataclass_like, inspect.isclass, is_alias_type) answer as the kind of type hint says",
                         "execution stops at the first statement of the arm that is entered (the arms are the block units)"])
