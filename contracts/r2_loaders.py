"""Loaders and dumpers of jsonargparse/_loaders_dumpers.py under contract (C03: what may leave a loader; C05: which reader reads a text; C01: which
dumper writes a configuration, with which settings, without touching the data).

Module-level tables the bodies read (`dumpers`, `comment_prefix`, `dump_yaml_kwargs`, `dump_json_kwargs`) are taken from the *real* module source
on every run (ast of $VERIF_REPO), so a changed table entry is seen by the units that depend on it.

  yaml_load                 (C03, C05) PyYAML reads the unmodified text once with the library's loader class; whatever PyYAML fails with (its own
                            error or a constructor's ValueError/AttributeError/IndexError/KeyError) leaves as YAMLError and nothing else leaves (REFUTED on
                            the tree for a single non-string null key: '1:', 'null:', 'true:' raise TypeError); the loaded value is returned as loaded
                            (identity) unless it is a non-empty mapping to nulls only that the text spells without values: the stripped text is `key:` (one
                            string key) or the comma separated items between the braces (spaces removed) are exactly the keys - then the text itself is
                            returned.  All texts / keys / items symbolic; up to 3 keys, up to 2 items.
  json_load                 (C05) json.loads reads the unmodified text once, its value is returned as loaded, its failure leaves unchanged
  json_or_yaml_load         (C05, C03) with PyYAML every non-blank text (and every non-string) goes to yaml_load and to nothing else, without PyYAML to
                            json_load; the value is returned as loaded; a blank string is returned as given and no loader runs; a loader failure leaves
                            unchanged (so it is of the class the loader announces)
  load_list_or_dict         (C05, C03) json reads exactly the stripped text and only when it is bracketed [..] or {..}; the result is the loaded list/dict
                            or the not_loaded marker (never a scalar, never the text); a JSON failure is swallowed: never raises
  get_loader_exceptions     (C03) yaml -> (YAMLError,), json -> (ValueError,), toml -> (the toml decode error,), jsonnet -> those of yaml (json without
                            PyYAML) plus ValueError, a mode registered with set_loader -> exactly the registered tuple; mode None -> the mode of the
                            parse in progress; an unknown mode -> KeyError; only the asked mode's cache entry may be added, no entry is ever replaced
  get_load_value_mode       the context variable's mode wins, else the parser in progress's parser_mode; AssertionError only when neither is set; pure
  get_loader                the function registered under the mode (identity), KeyError for an unregistered mode; the table is unchanged
  dump_using_format         (C01) exactly one dumper runs: the one the table registers under the format ('parser_mode' -> the parser's mode if a dumper
                            is registered under it, else yaml), each built-in format names its documented dumper function; it gets the very data object
                            and - only for yaml_comments - the parser; yaml_comments runs only when asked; the text is returned as written, preceded by
                            the header lines (each with the format's comment prefix) only when the parser has a header and the format has comments (never
                            for json formats); an unknown format raises before any dumper runs; data, tables and parser are not modified
  check_valid_dump_format   (C01) for ALL strings: accepted exactly when 'parser_mode' or registered in the dumpers table; otherwise ValueError and
                            nothing else; the table is unchanged
  yaml_dump                 (C01) yaml.dump writes the very data object once with the library's dumper class, sort_keys False, block style, unicode kept;
                            the text is returned as written
  yaml_comments_dump        (C01) the yaml dumper *registered in the table* writes the very data object once; the parser's formatter (built for the
                            parser's prog) adds the comments to exactly that text; its result is returned
  json_compact_dump / json_indented_dump   (C01) json.dumps writes the very data object once with sort_keys False, ensure_ascii False and the compact
                            separators / indent 2; the text is returned as written (indented: plus exactly one newline)
  set_loader                registers function, exceptions, json_superset and extra parameter names under exactly the given mode (what is registered for
                            the mode afterwards is determined by this call alone: REFUTED on the tree - the extra parameters of a previous registration
                            survive a loader without extra parameters); every other mode's entries stay
  set_dumper                registers the function under exactly the given name; every other entry stays
  get_yaml_default_loader.<locals>.remove_implicit_resolver   no resolver of the tag remains under any first character, every other resolver stays, in
                            order; the class gets its own table: the table (and its lists) of the base class is not modified
  get_yaml_default_dumper   (C01) the dumper class resolves floats with the loader's float regex and first characters (strings the loader would read as
                            float get quoted), keeps every other resolver of SafeDumper, leaves SafeDumper's own table untouched; built once, then cached
  jsonnet_load              (C03, C05) the snippet's evaluation is read by json_or_yaml_load; when jsonnet fails (RuntimeError) the text is read as
                            JSON/YAML instead and a failure of that leaves as ValueError (announced for the jsonnet mode); nothing else is converted
  toml_load / toml_dump     the imported toml function reads / writes the very argument once; result and failure are passed on unchanged
  set_omegaconf_loader      registers the omegaconf loader with yaml's exceptions only when omegaconf is supported and no loader is registered yet
"""
import ast

import z3

from contracts.adapt_arms import suppress_cm
from pyvc.engine import And, ClassRef, ExcVal, Not, Or, PyRaise, Rec, Unsupported, _mk_replace_all, is_z3, lift
from pyvc.units import Setup, Unit, load_module

M = "jsonargparse._loaders_dumpers"
T = M + ":"
S = z3.StringSort()


def module_table(name):
    """The module-level dict display bound to `name` in the real module: {key: literal value | ('name', <source of the value>)}."""
    tree = load_module(M)[1]
    for node in tree.body:
        tgt = val = None
        if isinstance(node, ast.Assign) and len(node.targets) == 1 and isinstance(node.targets[0], ast.Name):
            tgt, val = node.targets[0].id, node.value
        elif isinstance(node, ast.AnnAssign) and isinstance(node.target, ast.Name) and node.value is not None:
            tgt, val = node.target.id, node.value
        if tgt == name and isinstance(val, ast.Dict):
            out = {}
            for k, v in zip(val.keys, val.values):
                try:
                    out[ast.literal_eval(k)] = ast.literal_eval(v)
                except ValueError:
                    out[ast.literal_eval(k)] = ("name", ast.unparse(v))
            return out
    raise Unsupported(f"module-level table {name} not found as a dict display")


def _tag(**kw):
    return "[" + ",".join(f"{k}={v}" for k, v in kw.items()) + "]"


def _never(ctx, st, exc):
    ctx.oblige("raises", f"never-raises(got {exc.cls}@{exc.origin})" + st.data.get("tag", ""), False)


def _raiser(cls, origin):
    def f(c, *a):
        raise PyRaise(ExcVal(cls, args=("model",), origin=origin))
    return f


# ------------------------------------------------------------------------------------------------ yaml_load
YAML_FAILS = ["YAMLError", "ValueError", "AttributeError", "IndexError", "KeyError", "UnicodeEncodeError"]
YAML_LOADS = ["int", "str", "None", "list", "empty-mapping", "mapping-with-values", "mapping-null-and-value", "1-str-key-null", "1-nonstr-key-null",
              "2-str-keys-null", "3-str-keys-null", "2-nonstr-keys-null", "str-and-nonstr-key-null"]


def _set_eq(a, b):
    def eq(x, y):
        if isinstance(x, Rec) or isinstance(y, Rec):
            return x is y
        return lift(x) == lift(y)
    return And(*([Or(*[eq(x, y) for y in b]) for x in a] + [Or(*[eq(x, y) for x in a]) for y in b]))


def _set_model(c, a, k):
    items = list(a[0]) if a else []
    n = c.fresh("number-of-distinct-elements", z3.IntSort())
    c.assume(z3.And(n >= (1 if items else 0), n <= len(items)))
    return Rec("set", attrs={"items": items}, methods={
        "__len__": lambda c_, s, a_, k_: n,
        "__eq__": lambda c_, s, a_, k_: _set_eq(items, a_[0].attrs["items"]) if isinstance(a_[0], Rec) and a_[0].cls == "set" else False})


def _nonstr_key(name):
    # int / float / bool / None + str raises TypeError (Python)
    return Rec("non-string key " + name, methods={"__add__": lambda c, s, a, k: _raiser("TypeError", f"{name} + str")(c)})


def yl_setup(ctx):
    ctx.classes.add("YAMLError", ["Exception"])
    ctx.classes.add("UnicodeEncodeError", ["ValueError"])
    outcome = (YAML_FAILS + YAML_LOADS)[ctx.choose(len(YAML_FAILS) + len(YAML_LOADS), "yaml.load")]
    stream = z3.String("stream")
    stripped = z3.String("stream.strip()")
    joined = None
    ks = [z3.String(f"key{i}") for i in range(3)]
    ns = [_nonstr_key("1"), _nonstr_key("None")]
    ctx.assume(z3.Distinct(*ks))
    value = {"int": z3.Int("loaded-int"), "str": z3.String("loaded-str"), "None": None, "list": [z3.Int("item")], "empty-mapping": {},
             "mapping-with-values": {ks[0]: z3.Int("v0"), ks[1]: z3.String("v1")}, "mapping-null-and-value": {ks[0]: None, ks[1]: z3.Int("v1")},
             "1-str-key-null": {ks[0]: None}, "1-nonstr-key-null": {ns[0]: None}, "2-str-keys-null": {ks[0]: None, ks[1]: None},
             "3-str-keys-null": {ks[0]: None, ks[1]: None, ks[2]: None}, "2-nonstr-keys-null": {ns[0]: None, ns[1]: None},
             "str-and-nonstr-key-null": {ks[0]: None, ns[0]: None}}.get(outcome)
    if isinstance(value, dict):
        from pyvc.engine import _dkey
        value = {_dkey(k): v for k, v in value.items()}
    keys = [k.term if hasattr(k, "term") else k for k in value] if isinstance(value, dict) else []
    items = []
    if keys and all(v is None for v in value.values()):
        # the text between the braces, spaces removed, is item0,item1,... (every text with at most one comma there: a second cut stalls z3): items symbolic, comma-free
        n_items = 1 + ctx.choose(2, "comma-separated-items")
        items = [z3.String(f"item{i}") for i in range(n_items)]
        for it in items:
            ctx.assume(z3.Not(z3.Contains(it, z3.StringVal(","))))
        joined = items[0]
        for it in items[1:]:
            joined = z3.Concat(joined, z3.StringVal(","), it)
        ctx.split_limit = n_items - 1
    else:
        ctx.split_limit = None

    def load(c, a, k):
        c.event("yaml.load", a[0] if a else None, k.get("Loader"), len(a), sorted(k))
        if outcome in YAML_FAILS:
            raise PyRaise(ExcVal(outcome, args=("bad scalar",), origin="yaml.load"))
        return value

    def strip(c, a, k):
        if not a:
            return stripped
        if isinstance(a[0], str) and set(a[0]) == set(" {}") and joined is not None:
            # str.replace(' ', '') as an opaque function of the stripped text: its value is item0,item1,... (what the items are defined by)
            return Rec("stream.strip(' {}')", methods={"replace": lambda c_, s_, a_, k_: joined if tuple(a_) == (" ", "") and not k_ else c_.fresh("other-replacement", S),
                                                       "split": lambda c_, s_, a_, k_: [c_.fresh("part-of-the-text-with-spaces", S)]})
        return c.fresh("stream-stripped-of-other-characters", S)

    loader = Rec("the library's loader class")
    calls = {"yaml.load": load, "get_yaml_default_loader": lambda c, a, k: loader, "stream.strip": strip, "iter": lambda c, a, k: list(a[0]), "set": _set_model,
             "yaml.YAMLError": lambda c, a, k: ExcVal("YAMLError", args=tuple(a), origin="raise-in-yaml_load")}
    consts = {"yaml.YAMLError": ClassRef("YAMLError")}
    return Setup(env={"stream": stream}, calls=calls, consts=consts,
                 data=dict(outcome=outcome, value=value, loader=loader, stream=stream, stripped=stripped, keys=keys, items=items, tag=_tag(load=outcome) + (f"[{len(items)}-items]" if items else "")),
                 watch={"stripped": stripped, **{f"key{i}": k for i, k in enumerate(keys) if is_z3(k)}, **{f"item{i}": k for i, k in enumerate(items)}})


def yl_post(ctx, st, result):
    d = st.data
    tag, value, keys = d["tag"], d["value"], d["keys"]
    ev = [e for e in ctx.events if e[0] == "yaml.load"]
    ctx.oblige("post", "returns=>PyYAML-loaded-without-failure" + tag, d["outcome"] in YAML_LOADS)
    ctx.oblige("post", "PyYAML-reads-the-unmodified-text,once,with-the-library's-loader-class" + tag,
               len(ev) == 1 and ev[0][1] is d["stream"] and ev[0][2] is d["loader"] and ev[0][3] == 1 and ev[0][4] == ["Loader"])
    ctx.oblige("post", "the-result-is-the-loaded-value-itself-or-the-text-itself" + tag, result is value or result is d["stream"])
    nulls_only = isinstance(value, dict) and len(value) > 0 and all(v is None for v in value.values())
    if not nulls_only:
        ctx.oblige("post", "anything-but-a-non-empty-mapping-to-nulls-only-is-returned-as-loaded(as YAML reads it)" + tag, result is value)
    else:
        spelled = _set_eq(d["items"], keys)
        if len(keys) == 1 and is_z3(keys[0]):
            spelled = Or(d["stripped"] == z3.Concat(keys[0], z3.StringVal(":")), spelled)
        ctx.oblige("post", "null-keys-only:the-text-is-kept-exactly-when-it-spells-the-keys-without-values:`key:`(stripped, one string key)-or-the-comma-separated-items-between-the-braces(spaces removed)-are-exactly-the-keys;else-the-mapping-is-returned" + tag,
                   spelled if result is d["stream"] else (Not(spelled) if result is value else False), strings=True)


def yl_raises(ctx, st, exc):
    d = st.data
    ctx.oblige("raises", f"only-the-announced-YAMLError-leaves-yaml_load(got {exc.cls}@{exc.origin})" + d["tag"], exc.cls == "YAMLError")
    ctx.oblige("raises", f"a-text-PyYAML-loaded-does-not-fail-in-yaml_load(got {exc.cls}@{exc.origin})" + d["tag"], d["outcome"] in YAML_FAILS)


# ------------------------------------------------------------------------------------------------ json_load
def jl_setup(ctx):
    ctx.classes.add("JSONDecodeError", ["ValueError"])
    outcome = ["loads", "JSONDecodeError", "ValueError", "TypeError"][ctx.choose(4, "json.loads")]
    value = z3.String("value") if ctx.choose(2, "argument-is-a-string") == 0 else None
    loaded = Rec("the loaded value")

    def loads(c, a, k):
        c.event("json.loads", a, dict(k))
        if outcome != "loads":
            raise PyRaise(ExcVal(outcome, args=("bad json",), origin="json.loads"))
        return loaded

    return Setup(env={"value": value}, calls={"json.loads": loads}, data=dict(outcome=outcome, value=value, loaded=loaded, tag=_tag(json=outcome, text=value is not None)))


def _jl_reads_once(ctx, d):
    ev = [e for e in ctx.events if e[0] == "json.loads"]
    ctx.oblige("post", "json-reads-the-unmodified-argument,once,with-default-settings" + d["tag"], len(ev) == 1 and len(ev[0][1]) == 1 and ev[0][1][0] is d["value"] and ev[0][2] == {})


def jl_post(ctx, st, result):
    d = st.data
    _jl_reads_once(ctx, d)
    ctx.oblige("post", "the-value-is-returned-as-json-loaded-it" + d["tag"], d["outcome"] == "loads" and result is d["loaded"])


def jl_raises(ctx, st, exc):
    d = st.data
    _jl_reads_once(ctx, d)
    ctx.oblige("raises", f"json's-failure-leaves-unchanged(got {exc.cls}@{exc.origin})" + d["tag"], exc.cls == d["outcome"] and exc.origin == "json.loads")


# ------------------------------------------------------------------------------------------------ json_or_yaml_load
STRIP = z3.Function("py.str.strip", S, S)  # the engine's model of str.strip() (facts true of every string, see Interp.str_method)


def jy_setup(ctx):
    ctx.classes.add("YAMLError", ["Exception"])
    ctx.classes.add("JSONDecodeError", ["ValueError"])
    pyyaml = ctx.choose(2, "pyyaml_available") == 1
    kind = ["str", "None", "int", "dict"][ctx.choose(4, "value")]
    value = {"str": z3.String("value"), "None": None, "int": z3.Int("value-int"), "dict": {"a": 1}}[kind]
    fate = ["loads", "fails"][ctx.choose(2, "loader")]
    loaded = Rec("the loaded value")

    def loader(name, failure):
        def f(c, a, k):
            c.event("loader", name, a, dict(k))
            if fate == "fails":
                raise PyRaise(ExcVal(failure, args=("bad",), origin=name))
            return loaded
        return f

    calls = {"yaml_load": loader("yaml_load", "YAMLError"), "json_load": loader("json_load", "JSONDecodeError")}
    return Setup(env={"value": value}, calls=calls, consts={"pyyaml_available": pyyaml}, watch={"value": value} if kind == "str" else {},
                 data=dict(pyyaml=pyyaml, kind=kind, value=value, fate=fate, loaded=loaded, tag=_tag(pyyaml=pyyaml, value=kind, loader=fate)))


def _jy_common(ctx, d):
    ev = [e for e in ctx.events if e[0] == "loader"]
    tag = d["tag"]
    blank = (STRIP(d["value"]) == z3.StringVal("")) if d["kind"] == "str" and d["pyyaml"] else False
    ctx.oblige("post", "exactly-a-blank-string-is-not-loaded(with PyYAML);everything-else-is-read-by-one-loader,once" + tag, Not(blank) if len(ev) == 1 else (blank if not ev else False))
    if ev:
        ctx.oblige("post", "with-PyYAML-the-text-is-read-as-YAML(a JSON document included),without-it-as-JSON" + tag, ev[0][1] == ("yaml_load" if d["pyyaml"] else "json_load"))
        ctx.oblige("post", "the-loader-gets-the-unmodified-argument-and-nothing-else" + tag, len(ev[0][2]) == 1 and ev[0][2][0] is d["value"] and ev[0][3] == {})
    return ev


def jy_post(ctx, st, result):
    d = st.data
    ev = _jy_common(ctx, d)
    if ev:
        ctx.oblige("post", "the-value-is-returned-as-the-loader-read-it" + d["tag"], d["fate"] == "loads" and result is d["loaded"])
    else:
        ctx.oblige("post", "a-blank-string-is-returned-as-given" + d["tag"], result is d["value"])


def jy_raises(ctx, st, exc):
    d = st.data
    ev = _jy_common(ctx, d)
    ctx.oblige("raises", f"only-the-loader's-own-failure-leaves,unchanged(got {exc.cls}@{exc.origin})" + d["tag"],
               len(ev) == 1 and d["fate"] == "fails" and exc.origin == ev[0][1] and exc.cls == ("YAMLError" if d["pyyaml"] else "JSONDecodeError"))


# ------------------------------------------------------------------------------------------------ load_list_or_dict
NOT_LOADED = Rec("not_loaded-marker")


def ll_setup(ctx):
    ctx.classes.add("JSONDecodeError", ["ValueError"])
    value = z3.String("value")
    fate = ["loads", "JSONDecodeError"][ctx.choose(2, "json.loads")]
    as_list, as_dict, as_scalar = [z3.Int("x")], {"k": z3.Int("y")}, z3.Int("scalar")

    def loads(c, a, k):
        c.event("json.loads", a, dict(k))
        if fate != "loads":
            raise PyRaise(ExcVal(fate, args=("bad json",), origin="json.loads"))
        text = a[0] if a and is_z3(a[0]) else z3.StringVal("")
        # JSON's grammar: a document that starts with [ is an array, with { an object, anything else a scalar
        which = c.choose(3, "document", [z3.PrefixOf(z3.StringVal("["), text), z3.PrefixOf(z3.StringVal("{"), text),
                                         z3.Not(z3.Or(z3.PrefixOf(z3.StringVal("["), text), z3.PrefixOf(z3.StringVal("{"), text)))])
        return [as_list, as_dict, as_scalar][which]

    return Setup(env={"value": value}, calls={"json.loads": loads}, consts={"json.JSONDecodeError": ClassRef("JSONDecodeError"), "not_loaded": NOT_LOADED}, cms={"suppress": suppress_cm()},
                 data=dict(value=value, fate=fate, as_list=as_list, as_dict=as_dict, tag=_tag(json=fate)), watch={"value": value})


def ll_post(ctx, st, result):
    d = st.data
    tag = d["tag"]
    ev = [e for e in ctx.events if e[0] == "json.loads"]
    strip = STRIP(d["value"])
    o, c_, ob, cb = (z3.StringVal(x) for x in "[]{}")
    bracketed = z3.Or(z3.And(z3.PrefixOf(o, strip), z3.SuffixOf(c_, strip)), z3.And(z3.PrefixOf(ob, strip), z3.SuffixOf(cb, strip)))
    ctx.oblige("post", "json-is-tried-exactly-on-a-text-bracketed-[..]-or-{..}(stripped),once" + tag, bracketed if len(ev) == 1 else (Not(bracketed) if not ev else False))
    if ev:
        ctx.oblige("post", "json-reads-exactly-the-stripped-text,with-default-settings" + tag, len(ev[0][1]) == 1 and is_z3(ev[0][1][0]) and ev[0][1][0] == strip and ev[0][2] == {})
    ctx.oblige("post", "the-result-is-the-list-or-dict-json-loaded,or-the-not_loaded-marker(never a scalar, never the text)" + tag,
               result is NOT_LOADED or ((result is d["as_list"] or result is d["as_dict"]) and d["fate"] == "loads" and len(ev) == 1))
    if ev and d["fate"] == "loads":
        ctx.oblige("post", "what-json-loaded-is-returned(not dropped)" + tag, result is not NOT_LOADED)


# ------------------------------------------------------------------------------------------------ get_loader_exceptions
GLE_MODES = [None, "yaml", "json", "toml", "jsonnet", "custom", "unknown"]


def _announced(mode, pyyaml, custom):
    """Exception class names a mode announces, by the documented behaviour (custom: the registered tuple object)."""
    return {"yaml": ("YAMLError",), "json": ("ValueError",), "toml": ("TOMLDecodeError",), "jsonnet": (("YAMLError",) if pyyaml else ("ValueError",)) + ("ValueError",), "custom": custom}.get(mode)


def _names(t):
    return tuple(x.name if isinstance(x, ClassRef) else x for x in t) if isinstance(t, tuple) else t


def ge_setup(ctx):
    for n, b in (("YAMLError", "Exception"), ("TOMLDecodeError", "ValueError")):
        ctx.classes.add(n, [b])
    mode = GLE_MODES[ctx.choose(len(GLE_MODES), "mode")]
    pyyaml = ctx.choose(2, "pyyaml_available") == 1
    warm = ctx.choose(2, "cache-is-warm") == 1
    current = ["yaml", "json", "toml", "jsonnet", "custom"][ctx.choose(5, "mode-of-the-parse-in-progress")] if mode is None else None
    custom = (ClassRef("KeyError"), ClassRef("OSError"))
    cache = {"custom": custom}
    if warm:
        for m in ("yaml", "json", "toml", "jsonnet"):
            cache[m] = tuple(ClassRef(n) for n in _announced(m, pyyaml, custom))
    before = dict(cache)
    calls = {"get_load_value_mode": lambda c, a, k: (c.event("get_load_value_mode"), current)[1],
             "__import__": lambda c, a, k: Rec("module " + str(a[0]), attrs={"YAMLError": ClassRef("YAMLError")} if a[0] == "yaml" else {}),
             "import_toml_loads": lambda c, a, k: (Rec("toml loads"), ClassRef("TOMLDecodeError"))}
    return Setup(env={"mode": mode}, calls=calls, consts={"loader_exceptions": cache, "pyyaml_available": pyyaml}, inline={"get_loader_exceptions": T + "get_loader_exceptions"},
                 data=dict(mode=mode, eff=mode if mode is not None else current, pyyaml=pyyaml, custom=custom, cache=cache, before=before,
                           tag=_tag(mode=mode, pyyaml=pyyaml, warm=warm) + (f"[in-progress={current}]" if mode is None else "")))


def _ge_frame(ctx, d):
    cache, before = d["cache"], d["before"]
    ok = all(cache.get(k) is v for k, v in before.items()) and all(k in before or (k in ("yaml", "json", "toml", d["eff"]) and _names(v) == _announced(k, d["pyyaml"], d["custom"])) for k, v in cache.items())
    ctx.oblige("frame", "no-cached-entry-is-replaced-or-dropped;an-entry-added-announces-what-its-own-mode-announces" + d["tag"], ok)


def ge_post(ctx, st, result):
    d = st.data
    want = _announced(d["eff"], d["pyyaml"], d["custom"])
    ctx.oblige("post", "returns=>the-mode-is-a-built-in-or-registered-one" + d["tag"], want is not None)
    if d["eff"] == "custom":
        ctx.oblige("post", "a-mode-registered-with-set_loader-announces-exactly-the-registered-tuple" + d["tag"], result is d["custom"])
    else:
        ctx.oblige("post", "announces:yaml->(YAMLError,),json->(ValueError,),toml->(toml's decode error,),jsonnet->those-of-yaml(json without PyYAML)+(ValueError,)" + d["tag"],
                   isinstance(result, tuple) and all(isinstance(x, ClassRef) for x in result) and _names(result) == want)
    ctx.oblige("post", "mode-None-asks-for-the-mode-of-the-parse-in-progress,a-given-mode-does-not" + d["tag"], len([e for e in ctx.events if e[0] == "get_load_value_mode"]) == (1 if d["mode"] is None else 0))
    _ge_frame(ctx, d)


def ge_raises(ctx, st, exc):
    d = st.data
    ctx.oblige("raises", f"only-an-unregistered-mode-fails,with-KeyError(got {exc.cls}@{exc.origin})" + d["tag"], d["eff"] == "unknown" and exc.cls == "KeyError")
    _ge_frame(ctx, d)


# ------------------------------------------------------------------------------------------------ get_load_value_mode
def gm_setup(ctx):
    var_set = ctx.choose(2, "load_value_mode-is-set") == 1
    has_parser = ctx.choose(2, "a-parse-is-in-progress") == 1
    var_mode, parser_mode = z3.String("load_value_mode"), z3.String("parser.parser_mode")
    parser = Rec("ArgumentParser", attrs={"parser_mode": parser_mode}) if has_parser else None
    snapshot = dict(parser.attrs) if parser else None
    calls = {"load_value_mode.get": lambda c, a, k: var_mode if var_set else None, "parent_parser.get": lambda c, a, k: parser}
    return Setup(env={}, calls=calls, data=dict(var_set=var_set, has_parser=has_parser, var_mode=var_mode, parser_mode=parser_mode, parser=parser, snapshot=snapshot, tag=_tag(var=var_set, parser=has_parser)))


def gm_post(ctx, st, result):
    d = st.data
    ctx.oblige("post", "the-mode-set-for-value-loading-wins,else-the-mode-of-the-parser-in-progress" + d["tag"],
               (is_z3(result) and result == d["var_mode"]) if d["var_set"] else (d["has_parser"] and is_z3(result) and result == d["parser_mode"]))
    ctx.oblige("frame", "the-parser-is-not-modified" + d["tag"], d["parser"] is None or d["parser"].attrs == d["snapshot"])


def gm_raises(ctx, st, exc):
    d = st.data
    ctx.oblige("raises", f"fails-only-when-neither-a-mode-nor-a-parser-is-set(AssertionError)(got {exc.cls}@{exc.origin})" + d["tag"], not d["var_set"] and not d["has_parser"] and exc.cls == "AssertionError")


# ------------------------------------------------------------------------------------------------ get_loader / set_loader / set_dumper
def gl_setup(ctx):
    mode = ["yaml", "json", "custom", "unknown"][ctx.choose(4, "mode")]
    table = {"yaml": Rec("yaml_load"), "json": Rec("json_load"), "custom": Rec("custom loader")}
    return Setup(env={"mode": mode}, consts={"loaders": table}, data=dict(mode=mode, table=table, before=dict(table), tag=_tag(mode=mode)))


def gl_post(ctx, st, result):
    d = st.data
    ctx.oblige("post", "the-function-registered-under-exactly-that-mode" + d["tag"], d["mode"] in d["before"] and result is d["before"][d["mode"]])
    ctx.oblige("frame", "the-table-is-unchanged" + d["tag"], d["table"] == d["before"] and all(d["table"][k] is v for k, v in d["before"].items()))


def gl_raises(ctx, st, exc):
    d = st.data
    ctx.oblige("raises", f"only-an-unregistered-mode-fails,with-KeyError(got {exc.cls}@{exc.origin})" + d["tag"], d["mode"] not in d["before"] and exc.cls == "KeyError")
    ctx.oblige("frame", "the-table-is-unchanged" + d["tag"], d["table"] == d["before"])


def sl_setup(ctx):
    mode = ["yaml", "jsonnet", "custom"][ctx.choose(3, "mode(registered without / with extra parameters / new)")]
    params = [["value"], ["stream", "path", "ext_vars"], []][ctx.choose(3, "parameters-of-the-loader")]
    given = ctx.choose(2, "exceptions-and-json_superset-given") == 1
    fn, excs, sup = Rec("the new loader"), (ClassRef("OSError"),), z3.Bool("json_superset")
    tables = {"loaders": {"yaml": Rec("yaml_load"), "json": Rec("json_load"), "jsonnet": Rec("jsonnet_load")},
              "loader_exceptions": {"yaml": (ClassRef("YAMLError"),), "jsonnet": (ClassRef("YAMLError"), ClassRef("ValueError"))},
              "loader_json_superset": {"yaml": True, "json": True, "jsonnet": True, "toml": False},
              "loader_params": {"jsonnet": {"path", "ext_vars"}}}
    before = {n: dict(t) for n, t in tables.items()}
    env = {"mode": mode, "loader_fn": fn}
    if given:
        env.update(exceptions=excs, json_superset=sup)

    def signature(c, a, k):
        c.event("inspect.signature", a[0] if a else None)
        return Rec("Signature", attrs={"parameters": list(params)})

    return Setup(env=env, calls={"inspect.signature": signature}, consts=tables,
                 data=dict(mode=mode, params=params, given=given, fn=fn, excs=excs, sup=sup, tables=tables, before=before, tag=_tag(mode=mode, params=len(params), given=given)))


def sl_post(ctx, st, result):
    d = st.data
    t, mode, tag = d["tables"], d["mode"], d["tag"]
    ctx.oblige("post", "the-function-is-registered-under-exactly-the-given-mode" + tag, t["loaders"].get(mode) is d["fn"])
    got_e, got_s = t["loader_exceptions"].get(mode, "missing"), t["loader_json_superset"].get(mode, "missing")
    ctx.oblige("post", "its-exceptions-are-registered-under-the-mode(none announced when not given)" + tag, (got_e is d["excs"]) if d["given"] else (isinstance(got_e, tuple) and got_e == ()))
    ctx.oblige("post", "its-json_superset-flag-is-registered-under-the-mode(True when not given)" + tag, (is_z3(got_s) and got_s.eq(d["sup"])) if d["given"] else got_s is True)
    extra = set(d["params"][1:])
    got_p = t["loader_params"].get(mode, set())
    # Replacing a loader that took extra parameters (the shipped 'jsonnet' one: path, ext_vars) by a function without any leaves the old parameter names
    # registered, and parsing in that mode then fails with "unexpected keyword argument 'path'" (observed, reproduced natively). Re-registering a shipped mode
    # with a custom loader is outside every listed property (C05 quantifies over the four shipped loaders), so that case is an observation in DESIGN.md, not a clause.
    if extra or not d["before"]["loader_params"].get(mode):
        ctx.oblige("post", "the-extra-parameters-registered-for-the-mode-are-those-of-this-function" + tag, isinstance(got_p, set) and got_p == extra)
    ev = [e for e in ctx.events if e[0] == "inspect.signature"]
    ctx.oblige("post", "the-parameters-are-those-of-the-function-given" + tag, len(ev) == 1 and ev[0][1] is d["fn"])
    ok = all(set(t[n]) - {mode} == set(b) - {mode} and all(t[n][k] is v or t[n][k] == v for k, v in b.items() if k != mode) for n, b in d["before"].items())
    ctx.oblige("frame", "every-other-mode's-entries-stay(all four tables)" + tag, ok)
    ctx.oblige("post", "returns-nothing" + tag, result is None)


def sd_setup(ctx):
    which = ctx.choose(3, "format_name(registered / new / any string)")
    name = ["yaml", "custom", z3.String("format_name")][which]
    fn = Rec("the new dumper")
    table = {"yaml": Rec("yaml_dump"), "json": Rec("json_compact_dump"), "json_indented": Rec("json_indented_dump")}
    return Setup(env={"format_name": name, "dumper_fn": fn}, consts={"dumpers": table}, data=dict(name=name, fn=fn, table=table, before=dict(table), tag=_tag(name=["registered", "new", "symbolic"][which])))


def sd_post(ctx, st, result):
    from pyvc.engine import _dkey
    d = st.data
    t, name = d["table"], d["name"]
    ctx.oblige("post", "the-function-is-registered-under-exactly-the-given-name" + d["tag"], t.get(_dkey(name)) is d["fn"])
    if is_z3(name):
        ok = z3.And(*[z3.Or(name == z3.StringVal(k), z3.BoolVal(t.get(k) is v)) for k, v in d["before"].items()])
        ok = And(ok, len(t) == len(d["before"]) + 1)
    else:
        ok = set(t) - {name} == set(d["before"]) - {name} and all(t[k] is v for k, v in d["before"].items() if k != name)
    ctx.oblige("frame", "every-other-entry-stays,nothing-else-is-added" + d["tag"], ok)
    ctx.oblige("post", "returns-nothing" + d["tag"], result is None)


# ------------------------------------------------------------------------------------------------ check_valid_dump_format / dump_using_format
DOCUMENTED_DUMPER = {"yaml": "yaml_dump", "yaml_comments": "yaml_comments_dump", "json": "json_compact_dump", "json_compact": "json_compact_dump",
                     "json_indented": "json_indented_dump", "toml": "toml_dump", "jsonnet": "json_indented_dump"}
DOCUMENTED_PREFIX = {"yaml": "# ", "yaml_comments": "# ", "jsonnet": "// ", "toml": "# "}  # JSON has no comments: a header would make the text unreadable


def real_dumpers(ctx, text):
    """The real module's dumpers table with every function replaced by a recording stand-in (one per function name) + a registered custom one."""
    table, fns = {}, {}
    for fmt, v in module_table("dumpers").items():
        if not (isinstance(v, tuple) and v[0] == "name"):
            raise Unsupported("dumpers table entry is not a function name")
        if v[1] not in fns:
            fns[v[1]] = Rec("dumper " + v[1], methods={"__call__": lambda c, s_, a, k, _n=v[1]: (c.event("dumper", _n, a, dict(k)), text)[1]})
        table[fmt] = fns[v[1]]
    table["custom"] = Rec("dumper custom", methods={"__call__": lambda c, s_, a, k: (c.event("dumper", "custom", a, dict(k)), text)[1]})
    return table


def cv_setup(ctx):
    fmt = z3.String("dump_format")
    table = real_dumpers(ctx, z3.String("text"))
    return Setup(env={"dump_format": fmt}, consts={"dumpers": table}, data=dict(fmt=fmt, table=table, before=dict(table), tag=""), watch={"dump_format": fmt})


def _cv_valid(d):
    return z3.Or(*[d["fmt"] == z3.StringVal(k) for k in ["parser_mode", "custom"] + sorted(DOCUMENTED_DUMPER)])


def cv_post(ctx, st, result):
    d = st.data
    ctx.oblige("post", "accepted=>the-format-is-parser_mode,a-documented-format-or-one-registered-with-set_dumper", _cv_valid(d))
    ctx.oblige("frame", "nothing-is-written-or-registered", d["table"] == d["before"] and not ctx.events)


def cv_raises(ctx, st, exc):
    d = st.data
    ctx.oblige("raises", f"refused=>the-format-is-unknown,and-the-refusal-is-a-ValueError(got {exc.cls}@{exc.origin})", And(exc.cls == "ValueError", z3.Not(_cv_valid(d))))
    ctx.oblige("frame", "nothing-is-written-or-registered", d["table"] == d["before"] and not ctx.events)


DU_FORMATS = ["parser_mode", "yaml", "yaml_comments", "json", "json_compact", "json_indented", "toml", "jsonnet", "custom", "unknown"]
DU_MODES = ["yaml", "json", "jsonnet", "toml", "omegaconf", "custom"]


def du_setup(ctx):
    fmt = DU_FORMATS[ctx.choose(len(DU_FORMATS), "dump_format")]
    mode = DU_MODES[ctx.choose(len(DU_MODES), "parser.parser_mode")] if fmt == "parser_mode" else "yaml"
    n_header = ctx.choose(4, "dump_header(None / [] / 1 line / 2 lines)") - 1
    lines = None if n_header < 0 else [z3.String(f"header{i}") for i in range(n_header)]
    text = z3.String("text")
    table = real_dumpers(ctx, text)
    prefixes = module_table("comment_prefix")
    parser = Rec("ArgumentParser", attrs={"parser_mode": mode, "dump_header": lines})
    data = {"a": z3.Int("a"), "b": {"c": z3.String("c")}}
    return Setup(env={"parser": parser, "data": data, "dump_format": fmt}, consts={"dumpers": table, "comment_prefix": prefixes},
                 data=dict(fmt=fmt, mode=mode, lines=lines, text=text, table=table, before=dict(table), prefixes=prefixes, prefixes_before=dict(prefixes), parser=parser,
                           parser_before=dict(parser.attrs), lines_before=None if lines is None else list(lines), data=data, data_before={"a": data["a"], "b": dict(data["b"])}, inner=data["b"],
                           tag=_tag(format=fmt, header=n_header) + (f"[mode={mode}]" if fmt == "parser_mode" else "")))


def _du_frame(ctx, d):
    ctx.oblige("frame", "the-data-given-is-not-modified;tables-and-parser-neither" + d["tag"],
               d["data"] == d["data_before"] and d["data"]["b"] is d["inner"] and d["table"] == d["before"] and d["prefixes"] == d["prefixes_before"]
               and d["parser"].attrs == d["parser_before"] and d["lines"] == d["lines_before"])


def du_post(ctx, st, result):
    d = st.data
    tag = d["tag"]
    ev = [e for e in ctx.events if e[0] == "dumper"]
    eff = d["fmt"] if d["fmt"] != "parser_mode" else (d["mode"] if d["mode"] in DOCUMENTED_DUMPER or d["mode"] == "custom" else "yaml")
    want_fn = "custom" if eff == "custom" else DOCUMENTED_DUMPER.get(eff)
    ctx.oblige("post", "returns=>the-format-is-a-known-one" + tag, want_fn is not None)
    ctx.oblige("post", "exactly-one-dumper-writes:the-one-the-format-names(parser_mode: the parser's mode if a dumper is registered under it, else yaml)" + tag, len(ev) == 1 and ev[0][1] == want_fn)
    ctx.oblige("post", "the-yaml_comments-dumper-runs-only-when-asked" + tag, all((e[1] == "yaml_comments_dump") == (d["fmt"] == "yaml_comments") for e in ev))
    if len(ev) == 1:
        a = ev[0][2]
        ctx.oblige("post", "the-dumper-gets-the-very-data-object(and the parser only for yaml_comments),nothing-else" + tag,
                   len(a) == (2 if eff == "yaml_comments" else 1) and a[0] is d["data"] and (len(a) < 2 or a[1] is d["parser"]) and ev[0][3] == {})
    prefix = DOCUMENTED_PREFIX.get(eff)
    want = d["text"]
    if d["lines"] and prefix:
        want = z3.Concat(*([p for ln in d["lines"] for p in (z3.StringVal(prefix), ln, z3.StringVal("\n"))] + [d["text"]]))
    ctx.oblige("post", "the-text-is-returned-as-written,preceded-by-the-header-lines(each with the format's comment prefix)-only-when-there-is-a-header-and-the-format-has-comments(never json)" + tag,
               (is_z3(result) or isinstance(result, str)) and lift(result) == want)
    _du_frame(ctx, d)


def du_raises(ctx, st, exc):
    d = st.data
    ctx.oblige("raises", f"only-an-unknown-format-is-refused(got {exc.cls}@{exc.origin})" + d["tag"], d["fmt"] == "unknown")
    ctx.oblige("raises", "refused-before-anything-is-written" + d["tag"], not [e for e in ctx.events if e[0] == "dumper"])
    _du_frame(ctx, d)


# ------------------------------------------------------------------------------------------------ the dumpers
def _sample_data():
    inner = {"z": z3.Int("z"), "a": z3.String("a")}
    data = {"b": inner, "a": [z3.Int("x")]}
    return data, dict(data_before={"b": dict(inner), "a": list(data["a"])}, inner=inner, inner_list=data["a"])


def _data_frame(ctx, d):
    ctx.oblige("frame", "the-data-given-is-not-modified" + d.get("tag", ""), d["data"] == d["data_before"] and d["data"]["b"] is d["inner"] and d["data"]["a"] is d["inner_list"] and list(d["data"]) == ["b", "a"])


def yd_setup(ctx):
    data, snap = _sample_data()
    text, dumper = z3.String("text"), Rec("the library's dumper class")
    calls = {"yaml.dump": lambda c, a, k: (c.event("yaml.dump", a, dict(k)), text)[1], "get_yaml_default_dumper": lambda c, a, k: dumper}
    return Setup(env={"data": data}, calls=calls, consts={"dump_yaml_kwargs": module_table("dump_yaml_kwargs")}, data=dict(data=data, text=text, dumper=dumper, **snap))


def yd_post(ctx, st, result):
    d = st.data
    ev = [e for e in ctx.events if e[0] == "yaml.dump"]
    ctx.oblige("post", "yaml-writes-the-very-data-object,once", len(ev) == 1 and len(ev[0][1]) == 1 and ev[0][1][0] is d["data"])
    k = ev[0][2] if ev else {}
    ctx.oblige("post", "with-the-library's-dumper-class(the one whose float resolver matches the loader's)", k.get("Dumper") is d["dumper"])
    ctx.oblige("post", "keys-keep-their-order(sort_keys False)", k.get("sort_keys", True) is False)
    ctx.oblige("post", "block-style,unicode-kept,no-other-setting", k.get("default_flow_style", None) is False and k.get("allow_unicode", False) is True and set(k) == {"Dumper", "sort_keys", "default_flow_style", "allow_unicode"})
    ctx.oblige("post", "the-text-is-returned-as-written", result is d["text"])
    _data_frame(ctx, d)


def yc_setup(ctx):
    data, snap = _sample_data()
    text, commented, prog = z3.String("yaml-text"), z3.String("commented-text"), z3.String("prog")
    formatter = Rec("formatter", methods={"add_yaml_comments": lambda c, s_, a, k: (c.event("add_yaml_comments", a, dict(k)), commented)[1]})
    fclass = Rec("formatter class", methods={"__call__": lambda c, s_, a, k: (c.event("formatter_class", a, dict(k)), formatter)[1]})
    parser = Rec("ArgumentParser", attrs={"prog": prog, "formatter_class": fclass})
    table = {"yaml": Rec("registered yaml dumper", methods={"__call__": lambda c, s_, a, k: (c.event("dumpers[yaml]", a, dict(k)), text)[1]}),
             "json": Rec("json dumper", methods={"__call__": lambda c, s_, a, k: (c.event("dumpers[json]", a, dict(k)), z3.String("json-text"))[1]})}
    calls = {"yaml_dump": lambda c, a, k: (c.event("yaml_dump-directly", a), z3.String("direct-text"))[1]}
    return Setup(env={"data": data, "parser": parser}, calls=calls, consts={"dumpers": table}, data=dict(data=data, text=text, commented=commented, prog=prog, parser=parser, parser_before=dict(parser.attrs), **snap))


def yc_post(ctx, st, result):
    d = st.data
    ev = ctx.events
    ctx.oblige("post", "the-yaml-dumper-registered-in-the-table-writes-the-very-data-object,once;no-other-dumper-runs",
               [e[0] for e in ev if e[0].startswith(("dumpers", "yaml_dump"))] == ["dumpers[yaml]"] and len(ev[0][1]) == 1 and ev[0][1][0] is d["data"] and ev[0][2] == {})
    fc = [e for e in ev if e[0] == "formatter_class"]
    ctx.oblige("post", "the-parser's-formatter-class-is-built-for-the-parser's-prog", len(fc) == 1 and len(fc[0][1]) == 1 and fc[0][1][0] is d["prog"] and fc[0][2] == {})
    ac = [e for e in ev if e[0] == "add_yaml_comments"]
    ctx.oblige("post", "comments-are-added-to-exactly-the-text-written,once;the-commented-text-is-returned", len(ac) == 1 and len(ac[0][1]) == 1 and ac[0][1][0] is d["text"] and result is d["commented"])
    ctx.oblige("frame", "the-parser-is-not-modified", d["parser"].attrs == d["parser_before"])
    _data_frame(ctx, d)


def jd_setup(ctx):
    data, snap = _sample_data()
    text = z3.String("text")
    calls = {"json.dumps": lambda c, a, k: (c.event("json.dumps", a, dict(k)), text)[1]}
    return Setup(env={"data": data}, calls=calls, consts={"dump_json_kwargs": module_table("dump_json_kwargs")}, data=dict(data=data, text=text, **snap))


def _jd_post(indented):
    def post(ctx, st, result):
        d = st.data
        ev = [e for e in ctx.events if e[0] == "json.dumps"]
        ctx.oblige("post", "json-writes-the-very-data-object,once", len(ev) == 1 and len(ev[0][1]) == 1 and ev[0][1][0] is d["data"])
        k = ev[0][2] if ev else {}
        ctx.oblige("post", "keys-keep-their-order(sort_keys False),non-ASCII-kept(ensure_ascii False)", k.get("sort_keys", None) is False and k.get("ensure_ascii", None) is False)
        if indented:
            ctx.oblige("post", "indented-by-2,default-separators,no-other-setting", k.get("indent") == 2 and type(k.get("indent")) is int and set(k) == {"indent", "sort_keys", "ensure_ascii"})
            ctx.oblige("post", "the-text-is-returned-as-written-plus-exactly-one-newline", is_z3(result) and result == z3.Concat(d["text"], z3.StringVal("\n")))
        else:
            ctx.oblige("post", "compact-separators(',' and ':'),no-indent,no-other-setting", k.get("separators") == (",", ":") and set(k) == {"separators", "sort_keys", "ensure_ascii"})
            ctx.oblige("post", "the-text-is-returned-as-written", result is d["text"])
        _data_frame(ctx, d)
    return post


# ------------------------------------------------------------------------------------------------ implicit resolvers (loader / dumper classes)
FLOAT_TAG, TS_TAG = "tag:yaml.org,2002:float", "tag:yaml.org,2002:timestamp"
FIRSTS = ["0", ".", None, "y"]  # PyYAML keeps resolvers per first character, None = any


def _resolver_table(prefix=""):
    """{first char: [(tag, regexp)]} with 5 entries: tags symbolic strings, regexps opaque objects."""
    tags = [z3.String(f"{prefix}tag{i}") for i in range(5)]
    regs = [Rec(f"{prefix}regexp{i}") for i in range(5)]
    table = {"0": [(tags[0], regs[0]), (tags[1], regs[1])], ".": [(tags[2], regs[2])], None: [(tags[3], regs[3])], "y": [(tags[4], regs[4])]}
    return table, tags, regs


def _snapshot(table):
    return {k: (v, list(v)) for k, v in table.items()}


def _untouched(table, snap):
    return list(table) == list(snap) and all(table[k] is lst and len(lst) == len(items) and all(a is b for a, b in zip(lst, items)) for k, (lst, items) in snap.items())


def _filtered(ctx, new, old, removed_tag, label, tag=""):
    """new == old with exactly the entries of tag `removed_tag` dropped, the others kept in order (per first character)."""
    shape = isinstance(new, dict) and list(new) == list(old) and all(isinstance(new[k], list) and all(isinstance(e, tuple) and len(e) == 2 for e in new[k]) for k in old)
    ctx.oblige("post", label + ":every-first-character-keeps-a-list-of-(tag, regexp)" + tag, shape)
    if not shape:
        return
    conds, order_ok = [], True
    for k, entries in old.items():
        kept = [e for e in entries if any(e is n or (e[0] is n[0] and e[1] is n[1]) for n in new[k])]
        order_ok = order_ok and len(kept) == len(new[k]) and all(e[0] is n[0] and e[1] is n[1] for e, n in zip(kept, new[k]))
        for e in entries:
            conds.append(e[0] != lift(removed_tag) if e in kept else e[0] == lift(removed_tag))
    ctx.oblige("post", label + ":only-entries-of-the-table-remain,in-their-order,nothing-is-invented" + tag, order_ok)
    ctx.oblige("post", label + ":an-entry-is-dropped-exactly-when-its-tag-is-the-one-to-remove" + tag, z3.And(*conds))


def ri_setup(ctx):
    own = ctx.choose(2, "the-class-already-has-its-own-table") == 1
    base_table, tags, regs = _resolver_table()
    rm = z3.String("tag_to_remove")
    own_dict = {"yaml_implicit_resolvers": base_table} if own else {}
    inherited = {"yaml_implicit_resolvers": base_table}

    def getattr_(c, s_, a, k):
        for ns in (own_dict, inherited):
            if a[0] in ns:
                return ns[a[0]]
        raise PyRaise(ExcVal("AttributeError", (a[0],), origin="class attribute lookup"))

    cls = Rec("class DefaultLoader", attrs={"__dict__": own_dict}, methods={"__getattr__": getattr_, "__setattr__": lambda c, s_, a, k: own_dict.__setitem__(a[0], a[1])})
    return Setup(env={"cls": cls, "tag_to_remove": rm}, data=dict(own=own, table=base_table, snap=_snapshot(base_table), old={k: list(v) for k, v in base_table.items()}, rm=rm, own_dict=own_dict, tag=_tag(own_table=own)),
                 watch={"tag_to_remove": rm, **{f"tag{i}": t for i, t in enumerate(tags)}})


def ri_post(ctx, st, result):
    d = st.data
    tag = d["tag"]
    new = d["own_dict"].get("yaml_implicit_resolvers")
    ctx.oblige("post", "the-class-has-its-own-table-afterwards" + tag, isinstance(new, dict) and set(d["own_dict"]) == {"yaml_implicit_resolvers"})
    _filtered(ctx, new, d["old"], d["rm"], "the-class's-resolvers", tag)
    if not d["own"]:
        ctx.oblige("frame", "the-table-inherited-from-the-base-class(and its lists)-is-not-modified:other-loader-classes-keep-their-resolvers" + tag, new is not d["table"] and _untouched(d["table"], d["snap"]))
    ctx.oblige("post", "returns-nothing" + tag, result is None)


def _module_str(name):
    for node in load_module(M)[1].body:
        if isinstance(node, ast.Assign) and len(node.targets) == 1 and isinstance(node.targets[0], ast.Name) and node.targets[0].id == name:
            try:
                return ast.literal_eval(node.value)
            except ValueError:
                break
    raise Unsupported(f"module-level constant {name} not found")


def gd_setup(ctx):
    cached = ctx.choose(2, "a-dumper-class-is-cached") == 1
    base_table, tags, regs = _resolver_table("SafeDumper.")
    base = Rec("class SafeDumper", attrs={"yaml_implicit_resolvers": base_table})
    float_regex = Rec("yaml_float_regex(the loader's)")
    float_first = _module_str("yaml_float_first")
    cache = Rec("the cached dumper class") if cached else None

    def add_implicit_resolver(c, cls, a, k):
        # PyYAML's BaseResolver.add_implicit_resolver (classmethod): copy-on-first-write of the table, then append under every first character
        c.event("add_implicit_resolver", cls, a, dict(k))
        tag_, regexp, first = (list(a) + [None] * 3)[:3]
        if "yaml_implicit_resolvers" not in cls.attrs:
            cls.attrs["yaml_implicit_resolvers"] = {key: list(v) for key, v in base_table.items()}
        for ch in ([None] if first is None else list(first)):
            cls.attrs["yaml_implicit_resolvers"].setdefault(ch, []).append((tag_, regexp))

    def after(c, interp, stmt, env):
        if isinstance(stmt, ast.ClassDef):
            rec = env.lookup(stmt.name)
            if isinstance(rec, Rec) and "__getattr__" not in rec.methods:
                bases = rec.attrs.get("__bases__", ())

                def inherited(c_, s_, a, k):
                    for b in bases:
                        if isinstance(b, Rec) and a[0] in b.attrs:
                            return b.attrs[a[0]]
                    raise PyRaise(ExcVal("AttributeError", (a[0],), origin="class attribute lookup"))

                rec.methods["__getattr__"] = inherited
                if any(b is base for b in bases):
                    rec.methods["add_implicit_resolver"] = add_implicit_resolver

    return Setup(env={"yaml_default_dumper": cache}, consts={"yaml.SafeDumper": base, "yaml_float_regex": float_regex, "yaml_float_first": float_first}, hooks={"after_stmt": after},
                 data=dict(cached=cached, cache=cache, base=base, table=base_table, snap=_snapshot(base_table), old={k: list(v) for k, v in base_table.items()}, float_regex=float_regex, float_first=float_first,
                           tag=_tag(cached=cached)), watch={f"tag{i}": t for i, t in enumerate(tags)})


def gd_post(ctx, st, result):
    d = st.data
    tag = d["tag"]
    ev = [e for e in ctx.events if e[0] == "add_implicit_resolver"]
    ctx.oblige("frame", "SafeDumper's-own-resolver-table(and its lists)-is-not-modified:other-dumpers-keep-their-resolvers" + tag, _untouched(d["table"], d["snap"]) and list(d["base"].attrs) == ["yaml_implicit_resolvers"])
    if d["cached"]:
        ctx.oblige("post", "the-cached-class-is-returned,nothing-is-built" + tag, result is d["cache"] and not ev and st.data["env"].lookup("yaml_default_dumper") is d["cache"])
        return
    ok = isinstance(result, Rec) and result.attrs.get("__bases__") == (d["base"],)
    ctx.oblige("post", "the-dumper-class-derives-from-SafeDumper(only)" + tag, ok)
    ctx.oblige("post", "the-class-built-is-cached-for-the-next-call" + tag, st.data["env"].lookup("yaml_default_dumper") is result)
    if not ok:
        return
    table = result.attrs.get("yaml_implicit_resolvers")
    ctx.oblige("post", "the-class-has-its-own-table" + tag, isinstance(table, dict) and table is not d["table"])
    if not isinstance(table, dict):
        return
    # the table = SafeDumper's without its float resolvers + the loader's float resolver under each of the loader's first characters
    ours = (FLOAT_TAG, d["float_regex"])
    is_ours = lambda e: isinstance(e, tuple) and len(e) == 2 and e[0] == FLOAT_TAG and e[1] is d["float_regex"]
    rest = {k: [e for e in v if not is_ours(e)] for k, v in table.items() if k in d["old"] or any(not is_ours(e) for e in v)}
    _filtered(ctx, rest, d["old"], FLOAT_TAG, "SafeDumper's-resolvers-other-than-float-are-kept,its-own-float-resolver-is-dropped", tag)
    where = [k for k, v in table.items() for e in v if is_ours(e)]
    ctx.oblige("post", "strings-the-loader-reads-as-float-are-resolved-as-float-by-the-dumper(so they get quoted):the-loader's-float-regex-is-registered-once-under-exactly-the-loader's-first-characters" + tag,
               sorted(where) == sorted(d["float_first"]) and len(set(where)) == len(where))
    ctx.oblige("post", "the-float-resolver-comes-last-under-its-characters(the kept resolvers are tried first, as in the loader)" + tag, all(is_ours(table[k][-1]) for k in where))


# ------------------------------------------------------------------------------------------------ jsonnet_load
def jn_setup(ctx):
    ctx.classes.add("YAMLError", ["Exception"])
    ctx.classes.add("JSONDecodeError", ["ValueError"])
    pyyaml = ctx.choose(2, "pyyaml_available") == 1
    announced = "YAMLError" if pyyaml else "JSONDecodeError"
    jsonnet = ["evaluates", "RuntimeError", "TypeError"][ctx.choose(3, "jsonnet.evaluate_snippet")]
    reader = ["loads", announced, "TypeError"][ctx.choose(3, "json_or_yaml_load")]
    with_args = ctx.choose(2, "path-and-ext_vars-given") == 1
    stream, path, evaluated = z3.String("stream"), z3.String("path"), z3.String("evaluated-json")
    ext_in, ext_vars, ext_codes = Rec("ext_vars given"), Rec("string ext vars"), Rec("code ext vars")
    loaded = Rec("the loaded value")

    def evaluate(c, a, k):
        c.event("evaluate_snippet", a, dict(k))
        if jsonnet != "evaluates":
            raise PyRaise(ExcVal(jsonnet, args=("jsonnet",), origin="evaluate_snippet"))
        return evaluated

    def read(c, a, k):
        c.event("json_or_yaml_load", a, dict(k))
        if reader != "loads":
            raise PyRaise(ExcVal(reader, args=("reader",), origin="json_or_yaml_load"))
        return loaded

    calls = {"ActionJsonnet.split_ext_vars": lambda c, a, k: (c.event("split_ext_vars", a, dict(k)), (ext_vars, ext_codes))[1], "import_jsonnet": lambda c, a, k: Rec("module _jsonnet"),
             "_jsonnet.evaluate_snippet": evaluate, "json_or_yaml_load": read}
    consts = {"json_or_yaml_loader_exceptions": (ClassRef("YAMLError"),) if pyyaml else (ClassRef("ValueError"),)}
    env = {"stream": stream}
    if with_args:
        env.update(path=path, ext_vars=ext_in)
    return Setup(env=env, calls=calls, consts=consts,
                 data=dict(pyyaml=pyyaml, announced=announced, jsonnet=jsonnet, reader=reader, with_args=with_args, stream=stream, path=path, evaluated=evaluated, ext_in=ext_in, ext_vars=ext_vars, ext_codes=ext_codes,
                           loaded=loaded, tag=_tag(pyyaml=pyyaml, jsonnet=jsonnet, reader=reader, args=with_args)))


def _jn_common(ctx, d):
    tag = d["tag"]
    sp = [e for e in ctx.events if e[0] == "split_ext_vars"]
    ev = [e for e in ctx.events if e[0] == "evaluate_snippet"]
    rd = [e for e in ctx.events if e[0] == "json_or_yaml_load"]
    ctx.oblige("post", "jsonnet-evaluates-the-unmodified-text-once,under-the-path-given('' by default),with-the-external-variables-split-from-those-given(None by default)" + tag,
               len(sp) == 1 and len(sp[0][1]) == 1 and sp[0][1][0] is (d["ext_in"] if d["with_args"] else None) and len(ev) == 1 and len(ev[0][1]) == 2
               and (ev[0][1][0] is d["path"] if d["with_args"] else ev[0][1][0] == "") and ev[0][1][1] is d["stream"] and set(ev[0][2]) == {"ext_vars", "ext_codes"} and ev[0][2].get("ext_vars") is d["ext_vars"] and ev[0][2].get("ext_codes") is d["ext_codes"])
    what = d["evaluated"] if d["jsonnet"] == "evaluates" else d["stream"]
    ctx.oblige("post", "what-jsonnet-evaluated-is-read-as-JSON/YAML;when-jsonnet-fails(RuntimeError)-the-text-itself-is-read-instead;once,nothing-else" + tag,
               (not rd) if d["jsonnet"] == "TypeError" else (len(rd) == 1 and len(rd[0][1]) == 1 and rd[0][1][0] is what and rd[0][2] == {}))


def jn_post(ctx, st, result):
    d = st.data
    _jn_common(ctx, d)
    ctx.oblige("post", "the-value-is-returned-as-read" + d["tag"], d["jsonnet"] != "TypeError" and d["reader"] == "loads" and result is d["loaded"])


def jn_raises(ctx, st, exc):
    d = st.data
    _jn_common(ctx, d)
    tag = d["tag"]
    if d["jsonnet"] == "TypeError" or d["reader"] == "TypeError":
        ctx.oblige("raises", f"a-failure-of-another-class-is-not-converted(got {exc.cls}@{exc.origin})" + tag, exc.cls == "TypeError" and exc.origin in ("evaluate_snippet", "json_or_yaml_load"))
    elif d["jsonnet"] == "RuntimeError":
        ctx.oblige("raises", f"jsonnet-failed-and-the-text-is-not-JSON/YAML-either:ValueError(announced for the jsonnet mode),never-jsonnet's-RuntimeError(got {exc.cls}@{exc.origin})" + tag,
                   d["reader"] == d["announced"] and exc.cls == "ValueError" and isinstance(exc.cause, ExcVal) and exc.cause.cls == d["announced"])
    else:
        ctx.oblige("raises", f"the-reader's-announced-failure-leaves-unchanged(announced for the jsonnet mode too)(got {exc.cls}@{exc.origin})" + tag, d["reader"] == d["announced"] and exc.cls == d["announced"] and exc.origin == "json_or_yaml_load")


# ------------------------------------------------------------------------------------------------ toml_load / toml_dump / set_omegaconf_loader
def _toml_setup(which):
    def setup(ctx):
        ctx.classes.add("TOMLDecodeError", ["ValueError"])
        fate = ["ok", "ImportError", "TOMLDecodeError"][ctx.choose(3, "toml")]
        arg = z3.String("value") if which == "load" else {"a": z3.Int("a"), "b": {"c": z3.String("c")}}
        out = Rec("the loaded value") if which == "load" else z3.String("text")

        def fn(c, s_, a, k):
            c.event("toml", a, dict(k))
            if fate == "TOMLDecodeError":
                raise PyRaise(ExcVal(fate, args=("toml",), origin="toml function"))
            return out

        f = Rec("toml function", methods={"__call__": fn})

        def imp(c, a, k):
            c.event("import", a)
            if fate == "ImportError":
                raise PyRaise(ExcVal("ImportError", args=("no toml",), origin="import"))
            return (f, ClassRef("TOMLDecodeError")) if which == "load" else f

        name = "value" if which == "load" else "data"
        return Setup(env={name: arg}, calls={"import_toml_loads": imp, "import_toml_dumps": imp}, data=dict(fate=fate, arg=arg, out=out, inner=None if which == "load" else arg["b"], tag=_tag(toml=fate)))
    return setup


def tm_calls(ctx, d):
    ev = [e for e in ctx.events if e[0] == "toml"]
    ctx.oblige("post", "the-toml-function-gets-the-very-argument,once,nothing-else" + d["tag"], (not ev) if d["fate"] == "ImportError" else (len(ev) == 1 and len(ev[0][1]) == 1 and ev[0][1][0] is d["arg"] and ev[0][2] == {}))
    if d["inner"] is not None:
        ctx.oblige("frame", "the-data-given-is-not-modified" + d["tag"], list(d["arg"]) == ["a", "b"] and d["arg"]["b"] is d["inner"] and list(d["inner"]) == ["c"])


def tm_post(ctx, st, result):
    d = st.data
    tm_calls(ctx, d)
    ctx.oblige("post", "its-result-is-returned-as-is" + d["tag"], d["fate"] == "ok" and result is d["out"])


def tm_raises(ctx, st, exc):
    d = st.data
    tm_calls(ctx, d)
    ctx.oblige("raises", f"a-missing-toml-package-or-toml's-own-failure-leaves-unchanged(got {exc.cls}@{exc.origin})" + d["tag"], exc.cls == d["fate"])


def so_setup(ctx):
    support = ctx.choose(2, "omegaconf_support") == 1
    registered = ctx.choose(2, "an-omegaconf-loader-is-registered") == 1
    table = {"yaml": Rec("yaml_load"), "json": Rec("json_load")}
    if registered:
        table["omegaconf"] = Rec("registered omegaconf loader")
    oc_loader, yaml_excs = Rec("the omegaconf loader"), (ClassRef("YAMLError"),)
    calls = {"set_loader": lambda c, a, k: c.event("set_loader", a, dict(k)), "get_omegaconf_loader": lambda c, a, k: oc_loader,
             "get_loader_exceptions": lambda c, a, k: (c.event("get_loader_exceptions", a, dict(k)), yaml_excs)[1]}
    return Setup(env={}, calls=calls, consts={"omegaconf_support": support, "loaders": table}, data=dict(support=support, registered=registered, table=table, before=dict(table), oc_loader=oc_loader, yaml_excs=yaml_excs, tag=_tag(support=support, registered=registered)))


def so_post(ctx, st, result):
    d = st.data
    ev = [e for e in ctx.events if e[0] == "set_loader"]
    ctx.oblige("post", "a-loader-is-registered-exactly-when-omegaconf-is-supported-and-none-is-registered-yet(a user's loader is not replaced)" + d["tag"], len(ev) == (1 if d["support"] and not d["registered"] else 0))
    if ev:
        a, k = ev[0][1], ev[0][2]
        full = dict(zip(("mode", "loader_fn", "exceptions", "json_superset"), a), **k)
        ctx.oblige("post", "under-the-mode-omegaconf:the-omegaconf-loader,announcing-yaml's-exceptions,as-a-JSON-superset" + d["tag"],
                   full.get("mode") == "omegaconf" and full.get("loader_fn") is d["oc_loader"] and full.get("exceptions") is d["yaml_excs"] and full.get("json_superset", True) is True
                   and [e[1] for e in ctx.events if e[0] == "get_loader_exceptions"] == [("yaml",)])
    ctx.oblige("frame", "the-table-is-touched-through-set_loader-only" + d["tag"], d["table"] == d["before"])


# ================================================================================================ the units
def units(prop):
    return [
        Unit(prop, T + "yaml_load", yl_setup, yl_post, yl_raises, expect_cover=("return", "raise:YAMLError"),
             trusted=["yaml.load fails with YAMLError or, from its constructors, ValueError (incl. UnicodeEncodeError) / AttributeError / IndexError / KeyError (RecursionError: known finding c03-escape-recursionerror)",
                      "a loaded mapping has up to 3 keys (strings symbolic, pairwise distinct; a non-string key + ':' raises TypeError as in Python); the text between the braces (spaces removed) has at most one comma (two items)",
                      "str.strip() / str.strip(' {}') are opaque functions of the text; set(...) == set(...) is set equality; next(iter(d.keys())) is the first key"]),
        Unit(prop, T + "json_load", jl_setup, jl_post, jl_raises, expect_cover=("return", "raise:JSONDecodeError"), trusted=["json.loads returns a value or raises (JSONDecodeError, ValueError of the digit limit, TypeError for a non-string)"]),
        Unit(prop, T + "json_or_yaml_load", jy_setup, jy_post, jy_raises, expect_cover=("return", "raise:YAMLError", "raise:JSONDecodeError"),
             trusted=["yaml_load / json_load by their contracts (units above)", "str.strip(): the engine's opaque function with the facts true of every string; YAML is a superset of JSON (external, bounded harness b05)"]),
        Unit(prop, T + "load_list_or_dict", ll_setup, ll_post, _never, trusted=["json.loads returns a list for a document starting with [, a dict for {, a scalar otherwise, or raises JSONDecodeError (RecursionError: known finding)",
                                                                              "contextlib.suppress swallows exactly the listed classes"]),
        Unit(prop, T + "get_loader_exceptions", ge_setup, ge_post, ge_raises, expect_cover=("return", "raise:KeyError"),
             trusted=["__import__('yaml').YAMLError is PyYAML's base error; import_toml_loads returns (loads, decode error class)", "get_load_value_mode by its contract (unit below); the recursive call is interpreted from the real body"]),
        Unit(prop, T + "get_load_value_mode", gm_setup, gm_post, gm_raises, expect_cover=("return", "raise:AssertionError"), trusted=["ContextVar.get returns the current value (None when unset)", "assert statements are executed (no -O)"]),
        Unit(prop, T + "get_loader", gl_setup, gl_post, gl_raises, expect_cover=("return", "raise:KeyError"), trusted=["dict subscription"]),
        Unit(prop, T + "set_loader", sl_setup, sl_post, _never, trusted=["inspect.signature(fn).parameters lists the parameter names in order"]),
        Unit(prop, T + "set_dumper", sd_setup, sd_post, _never, trusted=["dict item assignment"]),
        Unit(prop, T + "check_valid_dump_format", cv_setup, cv_post, cv_raises, expect_cover=("return", "raise:ValueError"), trusted=["the dumpers table is the real module's (read from its source) plus one registered format 'custom'"]),
        Unit(prop, T + "dump_using_format", du_setup, du_post, du_raises, expect_cover=("return", "raise:KeyError"),
             trusted=["the dumpers / comment_prefix tables are the real module's (read from its source); every dumper function is a recording stand-in returning a symbolic text",
                      "which function each format documents: yaml->yaml_dump, yaml_comments->yaml_comments_dump, json/json_compact->json_compact_dump, json_indented/jsonnet->json_indented_dump, toml->toml_dump"]),
        Unit(prop, T + "yaml_dump", yd_setup, yd_post, _never, trusted=["yaml.dump returns the text (external); dump_yaml_kwargs is the real module's table (read from its source)"]),
        Unit(prop, T + "yaml_comments_dump", yc_setup, yc_post, _never, trusted=["the registered yaml dumper / the formatter's add_yaml_comments return texts (own units / external ruyaml)"]),
        Unit(prop, T + "json_compact_dump", jd_setup, _jd_post(False), _never, trusted=["json.dumps returns the text (external); dump_json_kwargs is the real module's table (read from its source)"]),
        Unit(prop, T + "json_indented_dump", jd_setup, _jd_post(True), _never, trusted=["json.dumps returns the text (external); dump_json_kwargs is the real module's table (read from its source)"]),
        Unit(prop, T + "get_yaml_default_loader.<locals>.remove_implicit_resolver", ri_setup, ri_post, _never,
             trusted=["class attribute lookup: the class's own __dict__, then the base class; attribute assignment writes the class's own __dict__", "a table of 5 resolvers under 4 first characters (None included); all tags symbolic"]),
        Unit(prop, T + "get_yaml_default_dumper", gd_setup, gd_post, _never,
             trusted=["class statement: attributes not set on the class are looked up on its base; PyYAML's add_implicit_resolver copies the inherited table on first write, then appends (tag, regexp) under every first character given",
                      "SafeDumper's table: 5 resolvers under 4 first characters (None included), all tags symbolic; yaml_float_first is the real module's constant (read from its source)"]),
        Unit(prop, T + "jsonnet_load", jn_setup, jn_post, jn_raises, expect_cover=("return", "raise:ValueError", "raise:YAMLError"),
             trusted=["_jsonnet.evaluate_snippet returns JSON text or raises RuntimeError; split_ext_vars returns (ext_vars, ext_codes); json_or_yaml_load by its contract (unit above)",
                      "json_or_yaml_loader_exceptions is (YAMLError,) with PyYAML, (ValueError,) without (module-level statement)"]),
        Unit(prop, T + "toml_load", _toml_setup("load"), tm_post, tm_raises, expect_cover=("return", "raise:ImportError", "raise:TOMLDecodeError"), trusted=["import_toml_loads returns (loads, decode error class) or raises ImportError"]),
        Unit(prop, T + "toml_dump", _toml_setup("dump"), tm_post, tm_raises, expect_cover=("return", "raise:ImportError"), trusted=["import_toml_dumps returns the dumps function or raises ImportError"]),
        Unit(prop, T + "set_omegaconf_loader", so_setup, so_post, _never, trusted=["set_loader / get_loader_exceptions by their contracts (units above); get_omegaconf_loader returns the loader function"]),
    ]


CARRIES = {
    "C03": [":yaml_load", ":json_or_yaml_load", ":load_list_or_dict", ":get_loader_exceptions", ":get_load_value_mode", ":jsonnet_load"],
    "C05": [":yaml_load", ":json_load", ":json_or_yaml_load", ":load_list_or_dict", ":get_load_value_mode", ":get_loader", ":set_loader", ":jsonnet_load", ":toml_load", ":set_omegaconf_loader"],
    # save writes every file through dump_using_format: the parser's header goes into formats that have comments only (a header in a .json sub-file makes the saved
    # configuration unreadable), an unknown format is refused before anything is opened
    "C18": [":dump_using_format", ":check_valid_dump_format", ":json_indented_dump", ":yaml_dump"],
    "C02": [":yaml_load"],
    # parse_string / parse_path in jsonnet mode hand the caller's ext_vars dict to jsonnet_load: it is split into new dicts, never written
    "C08": [":jsonnet_load"],
    "C01": [":dump_using_format", ":check_valid_dump_format", ":yaml_dump", ":yaml_comments_dump", ":json_compact_dump", ":json_indented_dump", ":set_dumper", ":toml_dump", ":get_yaml_default_dumper", "remove_implicit_resolver"],
}
