"""ActionsContainer.set_defaults and ArgumentParser.get_default (jsonargparse/_core.py): the first source of the C04 chain.

set_defaults: every (key, value) given - in dictionaries or as keywords - ends up as the default of *the action declared for that
key* and in the parser's own table, typed options through their normalisation, a whole-group option member by member under the
group's prefix; a key without an action, or the config-file option, is refused (NSKeyError / the dedicated error) and no other
action is touched.
get_default: the declared default when no default config file exists, otherwise what get_defaults (defaults, then default config
files in order) holds for the key; a key that is not exactly an action's dest, or has no default, is NSKeyError.
"""
import z3

from pyvc.engine import ClassRef, ExcVal, PyRaise, Rec
from pyvc.units import Setup, Unit

KINDS = ["plain", "typed", "no-action", "config-file-option", "whole-group"]


def sd_setup(ctx):
    via = ["dict", "keywords", "dict+keywords"][ctx.choose(3, "given-as")]
    kinds = {"a": KINDS[ctx.choose(len(KINDS), "a")], "b": KINDS[ctx.choose(3, "b")]}
    for n in ("ActionConfigFile", "_ActionConfigLoad", "ActionTypeHint"):
        ctx.classes.add(n, ["Action"])
    vals = {"a": z3.Int("default_a"), "b": z3.Int("default_b")}
    group_val = {"m": z3.Int("member_m"), "n": z3.Int("member_n")}
    actions = {}
    for key, kind in kinds.items():
        if kind == "no-action":
            continue
        cls = {"plain": "Action", "typed": "ActionTypeHint", "config-file-option": "ActionConfigFile", "whole-group": "_ActionConfigLoad"}[kind]
        act = Rec(cls, attrs={"dest": key, "default": ("old", key)})
        if kind == "typed":
            act.methods["normalize_default"] = lambda c, s_, a, k: (c.event("normalize", s_, a[0]), ("normalized", a[0]))[1]
        actions[key] = act
    other = Rec("Action", attrs={"dest": "other", "default": ("old", "other")})
    table = {"other": ("old", "other")}
    self = Rec("ArgumentParser", attrs={"_defaults": table})
    self.methods["set_defaults"] = lambda c, s_, a, k: c.event("recursive-set_defaults", a, dict(k))

    def set_default_error(c, a, k):
        raise PyRaise(ExcVal("ValueError", args=("does not accept a default",), origin="set_default_error"))

    given = {"a": group_val if kinds["a"] == "whole-group" else vals["a"], "b": vals["b"]}
    args, kwargs = (), {}
    if via == "dict":
        args = (dict(given),)
    elif via == "keywords":
        kwargs = dict(given)
    else:
        args, kwargs = ({"a": given["a"]},), {"b": given["b"]}
    calls = {"_find_action": lambda c, a, k: actions.get(a[1]), "ActionConfigFile.set_default_error": set_default_error}
    consts = {n: ClassRef(n) for n in ("ActionConfigFile", "_ActionConfigLoad", "ActionTypeHint")}
    return Setup(env={"self": self, "args": args, "kwargs": kwargs}, calls=calls, consts=consts,
                 data=dict(via=via, kinds=kinds, vals=vals, group_val=group_val, actions=actions, other=other, table=table, given=given, args=args, kwargs=kwargs))


def _expected(d, keys):
    """What set_defaults must have done for the keys handled by this call (dictionary entries), up to the first refused one."""
    out, stop = [], None
    for key in keys:
        kind = d["kinds"][key]
        if kind in ("no-action", "config-file-option"):
            stop = (key, kind)
            break
        out.append((key, kind))
    return out, stop


def sd_check(ctx, d, tag, raised):
    direct = list(d["args"][0]) if d["args"] else []
    done, stop = _expected(d, direct)
    ev = ctx.events
    rec = [e for e in ev if e[0] == "recursive-set_defaults"]
    want_rec = []
    for key, kind in done:
        act = d["actions"][key]
        if kind == "whole-group":
            want_rec.append(({f"{key}.{m}": v for m, v in d["group_val"].items()},))
            ctx.oblige("post", "a-whole-group-option's-own-default-is-left-alone(the members get the values)" + tag, act.attrs["default"] == ("old", key) and key not in d["table"])
            continue
        want = ("normalized", d["given"][key]) if kind == "typed" else d["given"][key]
        got = act.attrs["default"]
        same = got == want if kind == "typed" else got is want
        ctx.oblige("post", f"the-value-given-for-a-key-becomes-the-default-of-the-action-declared-for-that-key({'through the type-s normalisation' if kind == 'typed' else 'as given'})-and-of-the-parser's-table" + tag,
                   same and (d["table"].get(key) == want if kind == "typed" else d["table"].get(key) is want), note=f"{key}: {got!r}")
    if stop is None and d["kwargs"]:
        want_rec.append((dict(d["kwargs"]),))
    ok = len(rec) == len(want_rec) and all(len(r[1]) == 1 and not r[2] and _same_dict(r[1][0], w[0]) for r, w in zip(rec, want_rec))
    ctx.oblige("post", "keywords-and-the-members-of-a-whole-group-value-are-set-through-the-same-function(member keys prefixed with the group's key),nothing-else-is" + tag, ok,
               note=f"{[r[1] for r in rec]} vs {want_rec}")
    untouched = [k for k in d["actions"] if k not in [x for x, _ in done]]
    ctx.oblige("post", "no-other-action-and-no-other-table-entry-is-touched" + tag,
               d["other"].attrs["default"] == ("old", "other") and d["table"].get("other") == ("old", "other") and all(d["actions"][k].attrs["default"] == ("old", k) and k not in d["table"] for k in untouched))
    if raised is None:
        ctx.oblige("post", "normal-return=>every-key-of-the-dictionaries-has-an-action-that-takes-a-default" + tag, stop is None)
    else:
        ok = stop is not None and ((stop[1] == "no-action" and raised.cls == "NSKeyError") or (stop[1] == "config-file-option" and raised.origin == "set_default_error"))
        ctx.oblige("raises", f"refused=>a-key-without-an-action(NSKeyError)-or-the-config-file-option(its own error)(got {raised.cls}@{raised.origin}; first refused {stop})" + tag, ok)


def _same_dict(a, b):
    return isinstance(a, dict) and list(a) == list(b) and all(a[k] is b[k] for k in a)


def sd_post(ctx, st, result):
    d = st.data
    sd_check(ctx, d, f"[{d['via']},a={d['kinds']['a']},b={d['kinds']['b']}]", None)


def sd_raises(ctx, st, exc):
    d = st.data
    sd_check(ctx, d, f"[{d['via']},a={d['kinds']['a']},b={d['kinds']['b']}]", exc)


def set_defaults_unit(prop):
    return Unit(prop, "jsonargparse._core:ActionsContainer.set_defaults", sd_setup, sd_post, sd_raises, expect_cover=("return", "raise:NSKeyError", "raise:ValueError"),
                trusted=["_find_action(parser, key) returns the action declared for the key or None (C06 units)", "the recursive call by contract",
                         "ActionTypeHint.normalize_default returns the default in the type's stored form", "ActionConfigFile.set_default_error always raises"])


# ------------------------------------------------------------------------------------- get_default
def gd1_setup(ctx):
    found = ["exact", "parent-of-the-key", "none"][ctx.choose(3, "action-found")]
    suppressed = ctx.choose(2, "default-suppressed") == 1
    files = ctx.choose(2, "default-config-files-exist") == 1
    in_defaults = ctx.choose(2, "key-in-get_defaults") == 1 if files else False
    declared = "==SUPPRESS==" if suppressed else z3.Int("declared_default")
    from_files = z3.Int("value_after_default_config_files")
    action = Rec("Action", attrs={"dest": "grp.k" if found == "exact" else "grp", "default": declared})
    defaults = Rec("Namespace(defaults)", methods={"__contains__": lambda c, s_, a, k: in_defaults and a[0] == "grp.k",
                                                   "get": lambda c, s_, a, k: from_files if (in_defaults and a[0] == "grp.k") else (a[1] if len(a) > 1 else None)})
    self = Rec("ArgumentParser", methods={"_get_default_config_files": lambda c, s_, a, k: [("f", "p")] if files else [],
                                           "get_defaults": lambda c, s_, a, k: (c.event("get_defaults"), defaults)[1]})
    calls = {"_find_parent_action_and_subcommand": lambda c, a, k: (None, None) if found == "none" else (action, None)}
    return Setup(env={"self": self, "dest": "grp.k"}, calls=calls, consts={"argparse.SUPPRESS": "==SUPPRESS=="},
                 data=dict(found=found, suppressed=suppressed, files=files, in_defaults=in_defaults, declared=declared, from_files=from_files))


def gd1_post(ctx, st, result):
    d = st.data
    tag = f"[files={d['files']},in-defaults={d['in_defaults']},suppressed={d['suppressed']}]"
    ctx.oblige("post", "answered=>the-key-is-exactly-an-action's-dest" + tag, d["found"] == "exact")
    if not d["files"]:
        ctx.oblige("post", "no-default-config-file=>the-declared-default(and there is one)" + tag, result is d["declared"] and not d["suppressed"] and not ctx.events)
    elif d["in_defaults"]:
        ctx.oblige("post", "default-config-files-exist=>the-value-get_defaults-holds-for-the-key(defaults, then the files in order)" + tag, result is d["from_files"])
    else:
        ctx.oblige("post", "not-in-get_defaults=>None,and-only-when-a-default-is-declared" + tag, result is None and not d["suppressed"])


def gd1_raises(ctx, st, exc):
    d = st.data
    tag = f"[files={d['files']},in-defaults={d['in_defaults']},suppressed={d['suppressed']}]"
    ctx.oblige("raises", f"refused=>NSKeyError:the-key-is-not-an-action's-dest,or-no-default-is-declared-and-no-default-config-file-gives-one(got {exc.cls})" + tag,
               exc.cls == "NSKeyError" and (d["found"] != "exact" or (d["suppressed"] and not d["in_defaults"])))


def get_default_unit(prop):
    return Unit(prop, "jsonargparse._core:ArgumentParser.get_default", gd1_setup, gd1_post, gd1_raises, expect_cover=("return", "raise:NSKeyError"),
                trusted=["_find_parent_action_and_subcommand by contract (C06 unit)", "get_defaults / _get_default_config_files: their own units (C04)"])


UNITS = [set_defaults_unit("C04"), get_default_unit("C04")]


# ------------------------------------------------------------------------------------- default_config_files (setter) / env_prefix (setter) / get_config_files
def dcfs_setup(ctx):
    given = ["None", "empty-list", "list-of-str", "list-with-a-PathLike", "a-single-str", "tuple-of-str", "list-with-an-int"][ctx.choose(7, "value")]
    had_group = ctx.choose(2, "help-group-already-there") == 1
    ctx.classes.add("PathLike", [])
    plike = Rec("PathLike", attrs={"fs": "etc/app.yaml"})
    value = {"None": None, "empty-list": [], "list-of-str": ["a.yaml", "conf.d/*.yaml"], "list-with-a-PathLike": ["a.yaml", plike], "a-single-str": "a.yaml", "tuple-of-str": ("a.yaml",), "list-with-an-int": ["a.yaml", 3]}[given]
    g_user, g_opts = Rec("group positional"), Rec("group options")
    old_group = Rec("group default-config-files")
    groups = ([old_group] if had_group else []) + [g_user, g_opts]
    attrs = {"_default_config_files": ["old.yaml"], "_action_groups": list(groups)}
    if had_group:
        attrs["_default_config_files_group"] = old_group
    self = Rec("ArgumentParser", attrs=attrs)
    self.methods["__setattr__"] = lambda c, s_, a, k: s_.attrs.__setitem__(a[0], a[1])
    made = []
    consts = {"os": Rec("module os", attrs={"PathLike": ClassRef("PathLike")}), "ArgumentGroup": Rec("class ArgumentGroup", methods={"__call__": lambda c, s_, a, k: (made.append((list(a), dict(k))), Rec("group default-config-files(new)"))[1]})}
    calls = {"os.fspath": lambda c, a, k: a[0].attrs["fs"] if isinstance(a[0], Rec) else a[0], "delattr": lambda c, a, k: a[0].attrs.pop(a[1])}
    return Setup(env={"self": self, "default_config_files": value}, calls=calls, consts=consts, data=dict(given=given, had_group=had_group, value=value, self_=self, g_user=g_user, g_opts=g_opts, old_group=old_group, made=made))


def dcfs_post(ctx, st, result):
    d = st.data
    tag = f"[{d['given']},group-before={d['had_group']}]"
    a = d["self_"].attrs
    want = {"None": [], "empty-list": [], "list-of-str": ["a.yaml", "conf.d/*.yaml"], "list-with-a-PathLike": ["a.yaml", "etc/app.yaml"]}.get(d["given"])
    ctx.oblige("post", "accepted=>None-or-a-list-of-str/PathLike" + tag, want is not None)
    ctx.oblige("post", "the-patterns-are-stored-as-strings,in-the-order-given(None: no patterns)" + tag, a["_default_config_files"] == want)
    groups = a["_action_groups"]
    if want:
        new = groups[0] if groups else None
        ok = len(groups) == 3 and groups[1] is d["g_user"] and groups[2] is d["g_opts"] and a.get("_default_config_files_group") is new and (new is d["old_group"] if d["had_group"] else (len(d["made"]) == 1 and d["made"][0][0][0] is d["self_"]))
        ctx.oblige("post", "with-patterns:exactly-one-help-group-for-them,first,the-other-groups-in-their-order(an existing one is kept, not duplicated)" + tag, ok)
    else:
        ctx.oblige("post", "without-patterns:no-such-help-group(an existing one is removed),the-other-groups-in-their-order" + tag,
                   len(groups) == 2 and groups[0] is d["g_user"] and groups[1] is d["g_opts"] and "_default_config_files_group" not in a and not d["made"])


def dcfs_raises(ctx, st, exc):
    d = st.data
    a = d["self_"].attrs
    ctx.oblige("raises", f"refused=>ValueError-for-anything-but-None-or-a-list-of-str/PathLike;the-previous-patterns-and-groups-stay[{d['given']}]",
               exc.cls == "ValueError" and d["given"] in ("a-single-str", "tuple-of-str", "list-with-an-int") and a["_default_config_files"] == ["old.yaml"] and len(a["_action_groups"]) == (3 if d["had_group"] else 2))


def default_config_files_setter_unit(prop):
    return Unit(prop, "jsonargparse._core:ArgumentParser.default_config_files", dcfs_setup, dcfs_post, dcfs_raises, expect_cover=("return", "raise:ValueError"), label="setter",
                trusted=["os.fspath(p) is the string of a PathLike", "the group class builds an empty help group for the parser"])


def eps_setup(ctx):
    given = ["None(deprecated)", "True", "False", "str", "int"][ctx.choose(5, "value")]
    value = {"None(deprecated)": None, "True": True, "False": False, "str": z3.String("prefix"), "int": 3}[given]
    self = Rec("ArgumentParser", attrs={"prog": "tool.py", "_env_prefix": "OLD"})
    self.methods["__setattr__"] = lambda c, s_, a, k: s_.attrs.__setitem__(a[0], a[1])
    calls = {"deprecation_warning": lambda c, a, k: c.event("deprecation"), "os.path.splitext": lambda c, a, k: ("tool", ".py") if a[0] == "tool.py" else (a[0], "")}
    consts = {"ArgumentParser": Rec("class ArgumentParser"), "env_prefix_property_none_message": "msg"}
    return Setup(env={"self": self, "env_prefix": value}, calls=calls, consts=consts, data=dict(given=given, value=value, self_=self))


def eps_post(ctx, st, result):
    d = st.data
    got = d["self_"].attrs["_env_prefix"]
    want = {"None(deprecated)": False, "True": "tool", "False": False}.get(d["given"], d["value"])
    ctx.oblige("post", f"the-prefix-is:the-string-given;True->the-program-name-without-extension;False(or the deprecated None)->False(no prefix)[{d['given']}]",
               d["given"] != "int" and (got is want if d["given"] in ("str", "False", "None(deprecated)") else got == want))


def eps_raises(ctx, st, exc):
    d = st.data
    ctx.oblige("raises", f"refused=>ValueError-for-a-value-that-is-neither-str-nor-bool;the-previous-prefix-stays[{d['given']}]", exc.cls == "ValueError" and d["given"] == "int" and d["self_"].attrs["_env_prefix"] == "OLD")


def env_prefix_setter_unit(prop):
    return Unit(prop, "jsonargparse._core:ArgumentParser.env_prefix", eps_setup, eps_post, eps_raises, expect_cover=("return", "raise:ValueError"), label="setter",
                trusted=["os.path.splitext(prog)[0] is the program name without its extension", "the deprecation import is dropped by the extraction (a local `from ._deprecated import`)"])


def gcf_setup(ctx):
    has_default = ctx.choose(2, "__default_config__-present") == 1
    state = ["absent", "None", "two-paths-one-None", "empty-list"][ctx.choose(4, "value-of-the-config-option")]
    for n in ("ActionConfigFile", "_HelpAction"):
        ctx.classes.add(n, ["Action"])
    dflt, p1, p2 = Rec("Path(default config)"), Rec("Path(a.yaml)"), Rec("Path(b.yaml)")
    store = {}
    if has_default:
        store["__default_config__"] = dflt
    if state != "absent":
        store["cfg"] = {"None": None, "two-paths-one-None": [p1, None, p2], "empty-list": []}[state]
    store["other"] = [Rec("Path(not a config)")]
    cfgns = Rec("Namespace", methods={"__contains__": lambda c, s_, a, k: a[0] in store, "__getitem__": lambda c, s_, a, k: store[a[0]]})
    acts = [Rec("_HelpAction", attrs={"dest": "help"}), Rec("Action", attrs={"dest": "other"}), Rec("ActionConfigFile", attrs={"dest": "cfg"})]
    self = Rec("ArgumentParser", attrs={"_actions": acts})
    calls = {"filter_default_actions": lambda c, a, k: [x for x in a[0] if x.cls != "_HelpAction"]}
    return Setup(env={"self": self, "cfg": cfgns}, calls=calls, consts={"ActionConfigFile": ClassRef("ActionConfigFile")}, data=dict(has_default=has_default, state=state, dflt=dflt, p1=p1, p2=p2))


def gcf_post(ctx, st, result):
    d = st.data
    want = ([d["dflt"]] if d["has_default"] else []) + ([d["p1"], d["p2"]] if d["state"] == "two-paths-one-None" else [])
    ctx.oblige("post", f"the-loaded-config-files:the-default-config-file-first,then-every-path-recorded-for-a-config-option(in order,None entries left out);values-of-other-options-never[default={d['has_default']},{d['state']}]",
               isinstance(result, list) and len(result) == len(want) and all(x is y for x, y in zip(result, want)))


def get_config_files_unit(prop):
    return Unit(prop, "jsonargparse._core:ArgumentParser.get_config_files", gcf_setup, gcf_post, None, expect_cover=("return",),
                trusted=["filter_default_actions drops the help action only", "cfg[key] / key in cfg by contract (C11)"])


UNITS += [default_config_files_setter_unit("C04"), env_prefix_setter_unit("C04"), get_config_files_unit("C04")]
