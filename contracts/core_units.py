"""Units on ArgumentParser methods shared by several properties (ghost call events on the real bodies)."""
import z3

from contracts.parse_models import cfg, expr_of, noop_cm
from pyvc.engine import ClassRef, ExcVal, PyRaise, Rec, Unsupported
from pyvc.units import Setup, Unit


# ============================================================================ ArgumentParser.instantiate_classes
def ic_setup(ctx):
    n_actions = 1 + ctx.choose(2, "n-class-arguments")
    with_group = ctx.choose(2, "a-class-group") == 1
    groups_on = ctx.choose(2, "instantiate_groups") == 1
    sub = ctx.choose(2, "subcommand-selected") == 1
    value_state = {}
    events = ctx.events
    actions = []
    for i in range(n_actions):
        dest = ["model", "data.loader"][i]
        state = ["spec", "None", "missing"][ctx.choose(3, f"{dest}-value")]
        value_state[dest] = state
        inst = Rec("instance", attrs={"of": dest})
        # the first class argument is typed Base, the second List[Base] (a link target may sit in either: links are accepted for both)
        a = Rec("ActionTypeHint", attrs={"dest": dest, "instance": inst, "hint": ["Base", "List[Base]"][i]}, methods={"instantiate_classes": lambda c, s_, a_, k, _d=dest, _i=inst: (c.event("instantiate", _d, a_[0]), _i)[1]})
        actions.append(a)
    other = Rec("_StoreAction", attrs={"dest": "lr"})
    group = Rec("ArgumentGroup", attrs={"dest": "optim", "instantiate_class": Rec("fn", methods={"__call__": lambda c, s_, a_, k: c.event("instantiate-group", a_[0].attrs["dest"], a_[1])})})
    plain_group = Rec("ArgumentGroup", attrs={"dest": None})
    dup_group = Rec("ArgumentGroup", attrs={"dest": "model", "instantiate_class": Rec("fn", methods={"__call__": lambda c, s_, a_, k: c.event("instantiate-group", "model(duplicate)", a_[1])})})
    stored = {}
    spec_vals = {a.attrs["dest"]: Rec("Namespace", attrs={"spec-of": a.attrs["dest"]}) for a in actions}

    def get_value_and_parent(c, s_, a_, k):
        d = a_[0]
        if value_state[d] == "missing":
            raise PyRaise(ExcVal("NSKeyError", origin="get_value_and_parent"))
        parent = Rec("Namespace", attrs={"parent-of": d}, methods={"__setitem__": lambda c2, s2, a2, k2: stored.__setitem__(d, a2[1])})
        return (None if value_state[d] == "None" else spec_vals[d], parent, d.split(".")[-1])

    sub_cfg = Rec("Namespace", attrs={"tag": "sub-section"})
    copy = Rec("Namespace", attrs={"tag": "copy"}, methods={"get_value_and_parent": get_value_and_parent, "__getitem__": lambda c, s_, a_, k: sub_cfg,
                                                            "__setitem__": lambda c, s_, a_, k: c.event("store-sub", a_[0], a_[1])})
    # the caller's object behaves like its copy would, but every use is recorded: the frame obligation forbids any
    caller_cfg = Rec("Namespace", attrs={"tag": "caller"}, methods={
        "get_value_and_parent": lambda c, s_, a_, k: (c.event("TOUCHED-CALLER-CFG"), get_value_and_parent(c, s_, a_, k))[1],
        "__getitem__": lambda c, s_, a_, k: (c.event("TOUCHED-CALLER-CFG"), sub_cfg)[1],
        "__setitem__": lambda c, s_, a_, k: c.event("TOUCHED-CALLER-CFG")})
    subparser = Rec("ArgumentParser", methods={"instantiate_classes": lambda c, s_, a_, k: (c.event("sub.instantiate", a_[0], dict(k)), Rec("Namespace", attrs={"tag": "sub-instantiated"}))[1]})
    order_obj = ["data.loader", "model"]

    def reorder(c, a_, k):
        c.event("reorder", a_[0], [x.attrs["dest"] for x in a_[1]])
        return list(reversed(a_[1]))  # any permutation is allowed by its contract; a visible one is used

    def symcall(c, f, a_, k):
        if isinstance(f, Rec) and "__call__" in f.methods:
            return f.methods["__call__"](c, f, a_, k)
        return NotImplemented

    self = Rec("ArgumentParser", attrs={"_actions": actions + [other], "_action_groups": [plain_group, group, dup_group] if with_group else [plain_group], "parser_mode": "yaml", "_default_meta": ctx.choose(2, "_default_meta") == 1},
               methods={"_get_instantiators": lambda c, s_, a_, k: Rec("instantiators")})
    calls = {
        "filter_default_actions": lambda c, a_, k: list(a_[0]),
        "is_dataclass_like": lambda c, a_, k: False,
        "split_key": lambda c, a_, k: a_[0].split("."),
        "ActionLink.instantiation_order": lambda c, a_, k: order_obj,
        "ActionLink.reorder": reorder,
        "strip_meta": lambda c, a_, k: (c.event("strip_meta", a_[0]), copy)[1],
        "ActionLink.apply_instantiation_links": lambda c, a_, k: c.event("apply-links", a_[1], k.get("target"), k.get("order")),
        "ActionLink.get_nested_links": lambda c, a_, k: [],
        # contract of is_subclass_typehint (used by link creation with all_subtypes=False, also_lists=True): with the default flags a List[Base] is *not* a subclass type hint
        "ActionTypeHint.is_subclass_typehint": lambda c, a_, k: isinstance(a_[0], Rec) and (a_[0].attrs.get("hint") == "Base" or (a_[0].attrs.get("hint") == "List[Base]" and k.get("also_lists") is True)),
        "_ActionSubCommands.get_subcommand": lambda c, a_, k: ("fit", subparser) if sub else (None, None),
    }
    consts = {"ActionTypeHint": ClassRef("ActionTypeHint"), "_ActionConfigLoad": ClassRef("_ActionConfigLoad")}
    cms = {"parser_context": noop_cm("parser_context")}
    env = {"self": self, "cfg": caller_cfg, "instantiate_groups": groups_on}
    return Setup(env=env, calls=calls, consts=consts, cms=cms, symcall=symcall,
                 data=dict(self_rec=self, self_attrs=dict(self.attrs), actions=actions, with_group=with_group, groups_on=groups_on, sub=sub, value_state=value_state, stored=stored, spec_vals=spec_vals, copy=copy, caller=caller_cfg,
                           order_obj=order_obj, sub_cfg=sub_cfg))


def ic_post(ctx, st, result):
    d = st.data
    ev = ctx.events
    comps = [a.attrs["dest"] for a in d["actions"]] + (["optim"] if d["with_group"] and d["groups_on"] else [])
    re = [e for e in ev if e[0] == "reorder"]
    ctx.oblige("post", "components-are-the-class-arguments-plus-the-class-groups-not-already-covered,deepest-first,then-reordered-by-the-link-order",
               len(re) == 1 and re[0][1] is d["order_obj"] and sorted(re[0][2]) == sorted(comps) and re[0][2] == sorted(re[0][2], key=lambda x: -len(x.split("."))))
    expected_order = list(reversed(re[0][2])) if re else []
    seq = [(e[0], e[1] if e[0] != "apply-links" else e[2]) for e in ev if e[0] in ("instantiate", "instantiate-group") or (e[0] == "apply-links" and e[2] is not None)]
    want = []
    for dest in expected_order:
        want.append(("apply-links", dest))
        if dest == "optim":
            want.append(("instantiate-group", "optim"))
        elif d["value_state"][dest] == "spec":
            want.append(("instantiate", dest))
    ctx.oblige("post", "each-component:its-instantiation-links-are-applied,then-it-is-instantiated-exactly-once,in-the-reordered-order", seq == want, note=f"{seq} vs {want}")
    for a in d["actions"]:
        dest = a.attrs["dest"]
        if d["value_state"][dest] == "spec":
            ctx.oblige("post", f"the-instance-of-{dest}-is-built-from-its-own-spec-and-stored-in-its-place", d["stored"].get(dest) is a.attrs["instance"] and any(e[0] == "instantiate" and e[1] == dest and e[2] is d["spec_vals"][dest] for e in ev))
        else:
            ctx.oblige("post", f"nothing-is-built-for-{dest}-without-a-spec", dest not in d["stored"])
    final = [e for e in ev if e[0] == "apply-links" and e[3] is not None]
    ctx.oblige("post", "remaining-links-are-applied-once-at-the-end-in-the-link-order", len(final) == 1 and final[0][3] is d["order_obj"] and ev.index(final[0]) > max([ev.index(e) for e in ev if e[0] in ("instantiate", "instantiate-group")] + [-1]))
    ctx.oblige("frame", "works-on-a-meta-stripped-copy:the-caller's-configuration-is-never-written", not [e for e in ev if e[0] == "TOUCHED-CALLER-CFG"] and result is d["copy"] and all(e[1] is d["copy"] for e in ev if e[0] == "apply-links"))
    ctx.oblige("frame", "the-parser-itself-is-not-modified(nothing is remembered from one call to the next: the link order is computed from the current links every time)",
               set(d["self_rec"].attrs) == set(d["self_attrs"]) and all(d["self_rec"].attrs[k] is v for k, v in d["self_attrs"].items()) and len([e for e in ev if e[0] == "reorder"]) == 1)
    subs = [e for e in ev if e[0] == "sub.instantiate"]
    if d["sub"]:
        ctx.oblige("post", "the-selected-subcommand's-section-is-instantiated-by-its-own-parser-with-the-same-groups-flag", len(subs) == 1 and subs[0][1] is d["sub_cfg"] and subs[0][2].get("instantiate_groups") is d["groups_on"])
    else:
        ctx.oblige("post", "no-subcommand=>no-recursion", not subs)


def ic_raises(ctx, st, exc):
    ctx.oblige("raises", f"no-own-exception(got {exc.cls}@{exc.origin})", False)


# ============================================================================ ArgumentParser.dump
def dump_setup(ctx):
    skip_validation = ctx.choose(2, "skip_validation") == 1
    skip_default = ctx.choose(2, "skip_default") == 1
    yaml_comments = ctx.choose(2, "yaml_comments") == 1
    skip_link_targets = ctx.choose(2, "skip_link_targets") == 1
    skip_none = ctx.choose(2, "skip_none") == 1
    the_dict = Rec("dict", attrs={"tag": "cfg.as_dict()"})
    copy = Rec("Namespace", attrs={"tag": "copy"}, methods={"as_dict": lambda c, s_, a, k: (c.event("as_dict", s_), the_dict)[1]})
    caller = Rec("Namespace", attrs={"tag": "caller"}, methods={"as_dict": lambda c, s_, a, k: c.event("USED-CALLER-CFG")})
    defaults = Rec("Namespace", attrs={"tag": "defaults"}, methods={"as_dict": lambda c, s_, a, k: Rec("dict", attrs={"tag": "defaults.as_dict()"})})
    text = z3.String("dumped-text")

    def validate(c, s_, a, k):
        c.event("validate", a[0])
        if c.choose(2, "validate-raises") == 1:
            raise PyRaise(ExcVal("TypeError", origin="validate"))

    self = Rec("ArgumentParser", attrs={"parser_mode": "yaml", "_actions": [Rec("Action")]}, methods={
        "validate": validate,
        "_dump_cleanup_actions": lambda c, s_, a, k: c.event("cleanup", a[0], dict(a[2])),
        "get_defaults": lambda c, s_, a, k: (c.event("get_defaults", dict(k)), defaults)[1],
        "_dump_delete_default_entries": lambda c, s_, a, k: c.event("delete-defaults", a[0], a[1]),
    })
    calls = {
        "deprecated_skip_check": lambda c, a, k: a[2],
        "check_valid_dump_format": lambda c, a, k: c.event("check-format", a[0]),
        "strip_meta": lambda c, a, k: (c.event("strip_meta", a[0]), copy)[1],
        "ActionLink.strip_link_target_keys": lambda c, a, k: c.event("strip-link-targets", a[1]),
        "dump_using_format": lambda c, a, k: (c.event("serialise", a[1], a[2]), text)[1],
    }
    fmt = z3.String("format")
    env = {"self": self, "cfg": caller, "format": fmt, "skip_none": skip_none, "skip_default": skip_default, "skip_validation": skip_validation, "yaml_comments": yaml_comments,
           "skip_link_targets": skip_link_targets, "kwargs": {}}
    return Setup(env=env, calls=calls, consts={"ArgumentParser.dump": Rec("function")}, cms={"parser_context": noop_cm("parser_context")},
                 data=dict(skip_validation=skip_validation, skip_default=skip_default, yaml_comments=yaml_comments, skip_link_targets=skip_link_targets, skip_none=skip_none,
                           copy=copy, caller=caller, the_dict=the_dict, text=text, fmt=fmt, defaults=defaults))


def dump_post(ctx, st, result):
    d = st.data
    ev = ctx.events
    names = [e[0] for e in ev if e[0] in ("strip_meta", "strip-link-targets", "validate", "cleanup", "as_dict", "serialise")]
    want = ["strip_meta"] + (["strip-link-targets"] if d["skip_link_targets"] else []) + ([] if d["skip_validation"] else ["validate"]) + ["cleanup", "as_dict"]
    if d["skip_default"]:
        want += ["strip-link-targets", "cleanup"]
    want += ["serialise"]
    ctx.oblige("post", "order:copy,strip-link-targets,validate,serialise-each-value,as_dict,(drop-defaults),write", names == want, note=f"{names} vs {want}")
    ctx.oblige("frame", "everything-is-done-on-the-meta-stripped-copy,never-on-the-caller's-configuration", not [e for e in ev if e[0] == "USED-CALLER-CFG"] and all(e[1] is d["copy"] for e in ev if e[0] in ("validate", "as_dict")) and [e[1] for e in ev if e[0] == "strip_meta"] == [d["caller"]])
    ser = [e for e in ev if e[0] == "serialise"]
    ctx.oblige("post", "what-is-written-is-the-dict-of-the-cleaned-copy,in-the-requested-format(yaml_comments overrides)", len(ser) == 1 and ser[0][1] is d["the_dict"] and (ser[0][2] == "yaml_comments" if d["yaml_comments"] else ser[0][2] is d["fmt"]) and result is d["text"])
    cl = [e for e in ev if e[0] == "cleanup"]
    ctx.oblige("post", "values-are-serialised-with-the-caller's-skip_none/skip_validation", cl and cl[0][1] is d["copy"] and cl[0][2] == {"skip_validation": d["skip_validation"], "skip_none": d["skip_none"]})
    if d["skip_default"]:
        dd = [e for e in ev if e[0] == "delete-defaults"]
        ctx.oblige("post", "skip_default:entries-are-compared-with-the-parser's-own-serialised-defaults(link targets stripped there too)", len(dd) == 1 and dd[0][1] is d["the_dict"] and len(cl) == 2 and cl[1][1] is d["defaults"])


def dump_raises(ctx, st, exc):
    d = st.data
    ctx.oblige("raises", "only-a-failing-validation-propagates,and-nothing-was-serialised-before-it", exc.origin == "validate" and not d["skip_validation"] and not [e for e in ctx.events if e[0] in ("serialise", "cleanup")])


def instantiate_unit(prop):
    return Unit(prop, "jsonargparse._core:ArgumentParser.instantiate_classes", ic_setup, ic_post, ic_raises,
                trusted=["ActionLink.reorder returns a permutation of the components grouped by the link order (bounded twin in C16)", "ActionLink.instantiation_order returns the topological order (C16 units)",
                         "component.instantiate_classes(spec) builds the object for that spec (adapt_class_type)", "strip_meta returns a fresh copy (C08 unit)"])


def dump_unit(prop):
    return Unit(prop, "jsonargparse._core:ArgumentParser.dump", dump_setup, dump_post, dump_raises, expect_cover=("return", "raise:TypeError"),
                trusted=["strip_meta returns a fresh copy (C08 unit)", "validate raises for an invalid configuration (C06 units)", "_dump_cleanup_actions serialises every value in place on the object it is given",
                         "dump_using_format writes the dict in the given format"])
