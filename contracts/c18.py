"""C18 - save never destroys data: all-or-nothing on failure, no silent overwrite.

Unit: ArgumentParser.save (jsonargparse/_core.py) with its nested check_overwrite and save_paths inlined - a protocol
proof over ghost events.  Obligations are raised at every open(p, 'w') (the only place a file is created or truncated):
  proto.checked-before-open      overwrite or not isfile(p) follows from the path condition (check_overwrite ran on p)
  proto.creatable-before-open    p is the .absolute of a Path(..., mode='fc') built earlier
  proto.valid-before-open        the configuration was validated (or skip_validation) before the first file is opened
  proto.serialised-before-open   the text written to p existed before p was opened
and at every exceptional exit caused by validation / serialisation:
  proto.all-or-nothing           no file has been opened for writing
"""
import z3

from pyvc.engine import ClassRef, ExcVal, LoopSpec, PyRaise, Rec, SymList, Unsupported, lift, is_z3
from pyvc.units import Setup, Unit

S, B = z3.StringSort(), z3.BoolSort()
fs_isfile = z3.Function("fs.isfile", S, B)
fs_resolve = z3.Function("fs.absolute_name", S, S)


def sv_setup(ctx):
    multifile = ctx.choose(2, "multifile") == 1
    overwrite = z3.Bool("overwrite")
    skip_validation = z3.Bool("skip_validation")
    g = ctx.ghost
    g.update(validated=False, opened=[], fc=[], texts={}, n=0, opened_before=False)

    def tick(ctx_):
        ctx_.ghost["n"] += 1
        return ctx_.ghost["n"]

    def new_text(ctx_, what):
        t = ctx_.fresh("text:" + what, S)
        ctx_.ghost["texts"][t.get_id()] = tick(ctx_)
        return t

    # --- externals -----------------------------------------------------------------------------------------------
    def path_ctor(ctx_, args, kwargs):
        mode = kwargs.get("mode", "fr")
        if mode == "sw":
            raise Unsupported("fsspec path")
        if ctx_.choose(2, f"Path({mode})-raises") == 1:
            raise PyRaise(ExcVal("PathError", origin="Path()"))
        given = ctx_.fresh("pathstr", S) if isinstance(args[0], Rec) else lift(args[0])
        absolute = fs_resolve(given)  # the same file under its absolute name (cwd is stable during the call: A3)
        # (isfile(given) may differ from isfile(absolute): '~', file:// ... are expanded by Path - only the absolute name identifies the file)
        p = Rec("Path", attrs={"absolute": absolute, "mode": mode}, methods={"__str__": lambda c, s_, a, k: Rec("str", methods={"lower": lambda c2, s2, a2, k2: s2, "endswith": lambda c2, s2, a2, k2: c2.fresh("is_json", B)})})
        if mode == "fc":
            ctx_.ghost["fc"].append(absolute)
        return p

    def isfile(ctx_, args, kwargs):
        return fs_isfile(lift(args[0]))

    def dump(ctx_, self_, args, kwargs):
        sv = kwargs.get("skip_validation", False)
        tick(ctx_)
        if ctx_.choose(2, "dump-raises") == 1:
            raise PyRaise(ExcVal("TypeError", origin="dump"))
        # dump validates unless told to skip
        if sv is False:
            ctx_.ghost["validated"] = True
        elif is_z3(sv):
            ctx_.ghost["validated"] = ctx_.ghost["validated"] if ctx_.ghost["validated"] is True else z3.Or(lift(ctx_.ghost["validated"]), z3.Not(sv))
        return new_text(ctx_, "dump")

    def validate(ctx_, self_, args, kwargs):
        tick(ctx_)
        if ctx_.choose(2, "validate-raises") == 1:
            raise PyRaise(ExcVal("TypeError", origin="validate"))
        ctx_.ghost["validated"] = True

    def dump_using_format(ctx_, args, kwargs):
        tick(ctx_)
        if ctx_.choose(2, "serialise-raises") == 1:
            raise PyRaise(ExcVal("RepresenterError", origin="serialise"))
        return new_text(ctx_, "sub")

    def open_enter(ctx_, args, kwargs):
        p, mode = args[0], args[1]
        if mode != "w":
            raise Unsupported("open in another mode")
        p = lift(p)
        now = tick(ctx_)
        first = not ctx_.ghost["opened"]
        ctx_.ghost["opened"].append((p, now))
        tag = f"open#{len(ctx_.ghost['opened'])}"
        ctx_.oblige("proto", f"checked-before-open({tag})", z3.Or(overwrite, z3.Not(fs_isfile(p))))
        ctx_.oblige("proto", f"creatable-before-open({tag})", any(p.eq(a) for a in ctx_.ghost["fc"]))
        v = ctx_.ghost["validated"]
        ctx_.oblige("proto", f"valid-before-open({tag})", z3.Or(skip_validation, lift(v)))
        f = Rec("file", attrs={"path": p, "opened_at": now})

        def write(ctx__, f_, a, k):
            t = a[0]
            born = ctx__.ghost["texts"].get(t.get_id()) if is_z3(t) else 0
            ctx__.oblige("proto", f"serialised-before-open({tag})", born is not None and born < f_.attrs["opened_at"])
            return None

        f.methods["write"] = write
        return f

    def open_exit(ctx_, token, exc):
        return False

    # --- the configuration object ----------------------------------------------------------------------------------
    def ns_getitem(ctx_, self_, args, kwargs):
        kind = ctx_.choose(3, "val-kind")  # 0: sub-config with __path__, 1: Path with content to save, 2: anything else
        if kind == 0:
            orig = ctx_.choose(2, "has-__orig__") == 1
            inner_path = Rec("Path", attrs={"absolute": ctx_.fresh("sub_src_abs", S)})

            def v_get(ctx__, s_, a, k):
                if a[0] == "__path__":
                    return inner_path
                if a[0] == "__orig__":
                    return new_text(ctx__, "orig") if False else ctx__.ghost.setdefault("orig_text", _old_text(ctx__))
                raise Unsupported("other item of a sub-config")

            return Rec("Namespace", methods={"__contains__": lambda c, s_, a, k: True if a[0] == "__path__" else (orig if a[0] == "__orig__" else False), "__getitem__": v_get})
        if kind == 1:
            def get_content(ctx__, s_, a, k):
                tick(ctx__)
                if ctx__.choose(2, "get_content-raises") == 1:
                    raise PyRaise(ExcVal("OSError", origin="get_content"))
                return new_text(ctx__, "content")
            return Rec("Path", attrs={"absolute": ctx_.fresh("ref_abs", S), "mode": Rec("mode", methods={"__contains__": lambda c, s_, a, k: c.fresh("r_in_mode", B)})}, methods={"get_content": get_content})
        return Rec("Other")

    def _old_text(ctx_):
        t = ctx_.fresh("text:__orig__", S)
        ctx_.ghost["texts"][t.get_id()] = 0  # existed before the call
        return t

    def make_cfg(ctx_, name):
        keys = SymList(ctx_, name + ".keys", S)
        cfg = Rec("Namespace", methods={
            "clone": lambda c, s_, a, k: make_cfg(c, name + "'"),
            "get_sorted_keys": lambda c, s_, a, k: keys,
            "__getitem__": ns_getitem,
            "__setitem__": lambda c, s_, a, k: c.mutated(s_),
        })
        return cfg

    cfg = make_cfg(ctx, "cfg")

    def strip_meta(ctx_, args, kwargs):
        return Rec("Namespace", methods={"as_dict": lambda c, s_, a, k: Rec("dict")})

    def find_action(ctx_, args, kwargs):
        return Rec("ActionTypeHint") if ctx_.choose(2, "action-kind") == 0 else Rec("OtherAction")

    calls = {
        "deprecated_skip_check": lambda c, a, k: a[2],
        "check_valid_dump_format": lambda c, a, k: None if c.choose(2, "bad-format") == 0 else (_ for _ in ()).throw(PyRaise(ExcVal("ValueError", origin="check_valid_dump_format"))),
        "Path": path_ctor, "os.path.isfile": isfile, "os.path.basename": lambda c, a, k: c.fresh("basename", S),
        "ActionLink.strip_link_target_keys": lambda c, a, k: None, "strip_meta": strip_meta, "_find_action": find_action,
        "dump_using_format": dump_using_format,
    }
    noop_cm = (lambda c, a, k: None, lambda c, t, e: False)
    cms = {"open": (open_enter, open_exit), "parser_context": noop_cm, "change_to_path_dir": noop_cm}
    self = Rec("ArgumentParser", attrs={"parser_mode": "yaml", "save_path_content": Rec("set", methods={"__contains__": lambda c, s_, a, k: c.fresh("in_save_path_content", B)})},
               methods={"dump": dump, "validate": validate})
    def havoc(ctx_, env):
        # earlier iterations of the sub-file loop may or may not have opened files: unknown to an arbitrary iteration
        ctx_.ghost["opened_before"] = ctx_.fresh("opened_in_earlier_iterations", B)

    loops = {0: LoopSpec(inv=lambda c, e, k: z3.BoolVal(True), havoc=havoc, havoc_vars=(), havoc_objs=lambda c, e: (e.lookup("cfg"),))}
    env = {"self": self, "cfg": cfg, "path": z3.String("path"), "format": z3.String("format"), "skip_none": True, "skip_validation": skip_validation,
           "overwrite": overwrite, "multifile": multifile, "branch": None, "kwargs": {}}
    consts = {"fsspec_support": False, "ArgumentParser.save": Rec("function")}
    return Setup(env=env, calls=calls, cms=cms, consts=consts, loops=loops, data={"multifile": multifile, "overwrite": overwrite, "fs_isfile": fs_isfile})


def sv_post(ctx, st, result):
    mf = "multi" if st.data["multifile"] else "single"
    ctx.oblige("post", f"main-file-written[{mf}]", len(ctx.ghost["opened"]) >= 1)


def sv_raises(ctx, st, exc):
    mf = "multi" if st.data["multifile"] else "single"
    if ctx.ghost.get("fc"):
        # the main target is the first path save asks to be creatable; when it exists and overwrite is off the save is refused as a whole: no sub-file either
        main = ctx.ghost["fc"][0]
        ctx.oblige("proto", f"all-or-nothing[{mf}]:an-existing-main-target-without-overwrite=>nothing-was-opened-for-writing(the refusal comes before the sub-files)",
                   z3.Implies(z3.And(z3.Not(st.data["overwrite"]), st.data["fs_isfile"](main)), z3.BoolVal(len(ctx.ghost["opened"]) == 0)))
    if exc.origin in ("dump", "validate", "serialise"):
        ctx.oblige("proto", f"all-or-nothing[{mf}]:failure-in-{exc.origin}=>no-file-opened-for-writing", z3.And(z3.BoolVal(len(ctx.ghost["opened"]) == 0), z3.Not(lift(ctx.ghost["opened_before"]))))
    elif exc.origin in ("Path()", "check_valid_dump_format", "get_content") or exc.origin.startswith("raise@"):
        pass  # refusals (not creatable, existing file without overwrite, bad format): covered by the open-time obligations
    else:
        ctx.oblige("raises", f"unexpected-exception({exc.cls}@{exc.origin})", False)


UNITS = [
    Unit("C18", "jsonargparse._core:ArgumentParser.save", sv_setup, sv_post, sv_raises, expect_cover=("return", "raise:TypeError", "raise:ValueError"),
         replayer="replayers.c18:replay_save",
         trusted=["open(p, 'w') is the only operation of save that creates or truncates a file (A3); file.write does not fail midway",
                  "self.dump(cfg, skip_validation=False) and self.validate(cfg) raise when the configuration is invalid, and dump raises when a value cannot be serialised",
                  "Path(x, mode='fc') raises unless x is creatable (C19 contract of Path.__init__)",
                  "Namespace/clone/strip_meta/_find_action/ActionLink.strip_link_target_keys: no file-system effects"]),
]
VERIFIED_CALLEES = ()
LEVEL = "other"
TECHNIQUE = "contract-based deductive verification: protocol proof over ghost events (VCs from the real AST of save) + bounded fault enumeration as stand-in"
LEVEL_TEXT = "Protocol proof over ghost events on the real save(): every open(p,'w') is preceded by check_overwrite on p and by Path(..., mode='fc') for p, happens only after validation (or skip_validation) and after the text to be written exists; a failure of validation/serialisation in single-file mode leaves no file opened (this refuted the shipped code: dump inside open; fixed). Multi-file all-or-nothing is refuted (sub-files are written one by one): known finding. Bounded: fault enumeration on real parsers with directory snapshots."
LEVEL_NOTE = "under construction"
EXPLANATION = "under construction"
ASSUMPTIONS = []
TRUSTED = []
BOUNDED = [{"name": "multifile-save-fault-enumeration", "script": "bounded/b18_save.py"}]


# ------------------------------------------------------------------------------------------------ save, multi-file, a concrete configuration
# "when it succeeds, parsing the saved path reproduces the configuration, including configs that were originally loaded from separate
# sub-files": every sub-config that came from its own file (and every path whose content is to be saved) is written next to the main
# file under its own file name, the main file refers to it by that name, and the caller's configuration object is left alone.
def svc_setup(ctx):
    has_orig = ctx.choose(2, "sub-config-keeps-its-original-text") == 1
    sub_is_ns = ctx.choose(2, "sub-config-is-a-namespace") == 1
    typed = ctx.choose(2, "the-sub-config's-key-has-a-typed-action") == 1
    ref_saved = ctx.choose(2, "the-path's-key-is-in-save_path_content") == 1
    bad_format = ctx.choose(2, "the-format-is-unknown") == 1
    ctx.classes.add("Namespace", ["object"])
    ctx.classes.add("Path", ["object"])
    for n in ("ActionJsonSchema", "ActionJsonnet", "ActionTypeHint", "_ActionConfigLoad"):
        ctx.classes.add(n, ["Action"])
    ev = ctx.events
    orig_text, content_text, sub_text, main_text = z3.String("text:__orig__"), z3.String("text:content"), z3.String("text:sub-dump"), z3.String("text:main-dump")
    src_sub = Rec("Path", attrs={"absolute": "/where/it/was/loaded/sub.yaml"})
    sub_store = {"__path__": src_sub, "x": z3.Int("sub.x")}
    if has_orig:
        sub_store["__orig__"] = orig_text
    stripped = Rec("Namespace" if sub_is_ns else "dict", attrs={"tag": "sub without meta"}, methods={"as_dict": lambda c, s_, a, k: Rec("dict", attrs={"tag": "sub as dict"})})
    sub = (Rec("Namespace", attrs={"store": sub_store}, methods={"__contains__": lambda c, s_, a, k: a[0] in s_.attrs["store"], "__getitem__": lambda c, s_, a, k: s_.attrs["store"][a[0]]}) if sub_is_ns else sub_store)
    ref = Rec("Path", attrs={"absolute": "/data/ref.txt", "mode": "fr"}, methods={"get_content": lambda c, s_, a, k: (c.event("get_content"), content_text)[1]})
    plain = z3.Int("plain")
    clone_store = {"sub": sub, "ref": ref, "plain": plain}
    caller_store = dict(clone_store)
    clone = Rec("Namespace", attrs={"store": clone_store, "tag": "clone"}, methods={
        "get_sorted_keys": lambda c, s_, a, k: ["sub", "ref", "plain"], "__getitem__": lambda c, s_, a, k: s_.attrs["store"][a[0]],
        "__setitem__": lambda c, s_, a, k: s_.attrs["store"].__setitem__(a[0], a[1])})
    cfg = Rec("Namespace", attrs={"store": caller_store, "tag": "caller's"}, methods={"clone": lambda c, s_, a, k: (c.event("clone"), clone)[1],
              "__setitem__": lambda c, s_, a, k: c.event("CALLER-CFG-MODIFIED", a[0])})

    def path_ctor(c, a, k):
        c.event("Path", a[0], k.get("mode"))
        name = a[0] if isinstance(a[0], str) else "target"
        p = Rec("Path", attrs={"absolute": "/out/" + (name if name != "target" else "main.yaml"), "mode": k.get("mode"), "given": a[0]},
                methods={"__str__": lambda c2, s2, a2, k2: s2.attrs["given"] if isinstance(s2.attrs["given"], str) else "main.yaml"})
        return p

    def open_enter(c, a, k):
        c.event("open", a[0], a[1])
        return Rec("file", attrs={"path": a[0]}, methods={"write": lambda c2, s2, a2, k2: c2.event("write", s2.attrs["path"], a2[0])})

    def dump(c, s_, a, k):
        c.event("dump", a[0], dict(k), dict(a[0].attrs["store"]) if isinstance(a[0], Rec) and "store" in a[0].attrs else None)
        return main_text

    self = Rec("ArgumentParser", attrs={"parser_mode": "yaml", "save_path_content": {"ref"} if ref_saved else set()},
               methods={"dump": dump, "validate": lambda c, s_, a, k: c.event("validate", a[0], dict(k))})
    open_cms = []
    calls = {
        "deprecated_skip_check": lambda c, a, k: a[2],
        "check_valid_dump_format": lambda c, a, k: (c.event("format-checked", a[0]), (_ for _ in ()).throw(PyRaise(ExcVal("ValueError", args=("Unknown output format",), origin="check_valid_dump_format"))) if bad_format else None)[1],
        "Path": path_ctor, "os.path.isfile": lambda c, a, k: False, "os.path.basename": lambda c, a, k: a[0].rsplit("/", 1)[-1],
        "ActionLink.strip_link_target_keys": lambda c, a, k: c.event("strip-link-targets", a[1]),
        "strip_meta": lambda c, a, k: (c.event("strip_meta", a[0]), stripped if a[0] is sub else Rec("Namespace", attrs={"tag": "cfg without meta"}))[1],
        "_find_action": lambda c, a, k: Rec("ActionTypeHint") if typed and a[1] == "sub" else Rec("Action"),
        "dump_using_format": lambda c, a, k: (c.event("dump_using_format", a[1], a[2]), sub_text)[1],
        "str": lambda c, a, k: a[0].methods["__str__"](c, a[0], (), {}) if isinstance(a[0], Rec) else str(a[0]),
        "type": lambda c, a, k: __import__("pyvc.engine", fromlist=["Fn"]).Fn(lambda c2, a2, k2: Rec("Path", attrs={"absolute": "/out/" + a2[0], "mode": "fr", "rebuilt_from": a2[0]}), "type(val)"),
    }
    def cm(name):
        return (lambda c, a, k: open_cms.append(name), lambda c, t, e: (open_cms.pop(), False)[1])
    cms = {"open": (open_enter, lambda c, t, e: False), "parser_context": cm("parser_context"), "change_to_path_dir": (lambda c, a, k: (open_cms.append("cwd"), c.event("chdir", a[0]))[0], lambda c, t, e: (open_cms.pop(), False)[1])}
    consts = {"fsspec_support": False, "ArgumentParser.save": Rec("function"), "Namespace": ClassRef("Namespace"), "Path": ClassRef("Path"), "ActionJsonSchema": ClassRef("ActionJsonSchema"),
              "ActionJsonnet": ClassRef("ActionJsonnet"), "ActionTypeHint": ClassRef("ActionTypeHint"), "_ActionConfigLoad": ClassRef("_ActionConfigLoad")}
    env = {"self": self, "cfg": cfg, "path": "main.yaml", "format": "yaml", "skip_none": True, "skip_validation": False, "overwrite": False, "multifile": True, "branch": None, "kwargs": {}}
    return Setup(env=env, calls=calls, cms=cms, consts=consts,
                 data=dict(bad_format=bad_format, has_orig=has_orig, sub_is_ns=sub_is_ns, typed=typed, ref_saved=ref_saved, orig_text=orig_text, content_text=content_text, sub_text=sub_text, main_text=main_text,
                           clone=clone, clone_store=clone_store, caller_store=caller_store, cfg=cfg, sub=sub, ref=ref, plain=plain, open_cms=open_cms))


def svc_post(ctx, st, result):
    d = st.data
    tag = f"[{'typed' if d['typed'] else 'untyped'} sub-config{' (keeps its text)' if d['has_orig'] else ''}{' as namespace' if d['sub_is_ns'] else ' as dict'},{'path content saved' if d['ref_saved'] else 'path kept as a path'}]"
    ev = ctx.events
    ctx.oblige("post", "a-save-succeeds-only-with-a-known-format(an unknown one is refused before anything is written - some sub-files never consult the format)" + tag, not d["bad_format"])
    writes = [(e[1], e[2]) for e in ev if e[0] == "write"]
    want = []
    if d["typed"]:
        want.append(("/out/sub.yaml", d["orig_text"] if d["has_orig"] else d["sub_text"]))
    if d["ref_saved"]:
        want.append(("/out/ref.txt", d["content_text"]))
    want.append(("/out/main.yaml", d["main_text"]))
    ctx.oblige("post", "every-sub-config-that-came-from-its-own-file(and every path whose content is saved)-is-written-under-its-own-file-name-next-to-the-main-file,then-the-main-file;each-once,with-its-own-text" + tag,
               len(writes) == len(want) and all(w[0] == x[0] and w[1] is x[1] for w, x in zip(writes, want)), note=str(writes))
    cs = d["clone_store"]
    ctx.oblige("post", "the-main-file-refers-to-a-written-sub-file-by-the-name-it-was-written-under" + tag, (cs["sub"] == "sub.yaml") if d["typed"] else (cs["sub"] is d["sub"]))
    ctx.oblige("post", "a-path-whose-content-was-saved-now-points-to-the-saved-copy;otherwise-it-is-kept" + tag,
               (isinstance(cs["ref"], Rec) and cs["ref"].attrs.get("rebuilt_from") == "ref.txt") if d["ref_saved"] else (cs["ref"] is d["ref"]))
    dm = [e for e in ev if e[0] == "dump"]
    ctx.oblige("post", "the-main-text-is-the-dump-of-the-configuration-with-those-references(made after the sub-files were handled,not re-validated)" + tag,
               len(dm) == 1 and dm[0][1] is d["clone"] and dm[0][2].get("skip_validation") is True and dm[0][3] is not None and dm[0][3].get("sub") is cs["sub"] and dm[0][3].get("ref") is cs["ref"])
    if d["typed"] and not d["has_orig"]:
        du = [e for e in ev if e[0] == "dump_using_format"]
        ok = len(du) == 1 and isinstance(du[0][1], Rec) and du[0][1].attrs.get("tag") == ("sub as dict" if d["sub_is_ns"] else "sub without meta") and du[0][2] == "yaml"
        ctx.oblige("post", "a-sub-config-without-original-text-is-serialised-without-its-meta-keys(a namespace as a dict),in-the-format-of-the-save(json_indented for a .json file)" + tag, ok)
    sl = [e for e in ev if e[0] == "strip-link-targets"]
    ctx.oblige("post", "link-targets-are-stripped-from-the-clone-that-is-written" + tag, len(sl) == 1 and sl[0][1] is d["clone"])
    ctx.oblige("frame", "the-caller's-configuration-object-is-not-modified(a clone is rewritten)" + tag, not [e for e in ev if e[0] == "CALLER-CFG-MODIFIED"] and d["caller_store"] == {"sub": d["sub"], "ref": d["ref"], "plain": d["plain"]})
    chd = [e for e in ev if e[0] == "chdir"]
    first_open = next((i for i, e in enumerate(ev) if e[0] == "open"), None)
    ctx.oblige("post", "sub-files-are-written-relative-to-the-directory-of-the-main-file" + tag, len(chd) == 1 and isinstance(chd[0][1], Rec) and chd[0][1].attrs.get("absolute") == "/out/main.yaml" and (first_open is None or ev.index(chd[0]) < first_open))
    val = [e for e in ev if e[0] == "validate"]
    ctx.oblige("post", "validated-before-the-first-file-is-opened" + tag, len(val) == 1 and (first_open is None or ev.index(val[0]) < first_open) and not d["open_cms"])


def svc_raises(ctx, st, exc):
    d = st.data
    ctx.oblige("raises", f"only-an-unknown-format-is-refused,and-before-any-file-is-opened(got {exc.cls}@{exc.origin})",
               d["bad_format"] and exc.origin == "check_valid_dump_format" and not [e for e in ctx.events if e[0] in ("open", "write")])


UNITS.append(Unit("C18", "jsonargparse._core:ArgumentParser.save", svc_setup, svc_post, svc_raises, label="multi-file,concrete-configuration", max_paths=5000, expect_cover=("return", "raise:ValueError"),
                  trusted=["open / write are the only file effects (ghost events)", "Path(name, mode='fc') resolves name against the current directory (here: the directory of the main file)",
                           "dump / dump_using_format / strip_meta / get_content by contract"]))


# "parsing the saved path reproduces the configuration": what save writes is what dump produces; that a str is never written as a plain scalar the
# loader reads as another type is the resolver-table lemma of C01 (extracted from the running dumper / loader on every run)
from contracts.c01 import LEMMAS as _C01_LEMMAS  # noqa: E402
import dataclasses as _dc  # noqa: E402
LEMMAS = [_dc.replace(l, name=l.name.replace("C01/", "C18/")) for l in _C01_LEMMAS]


# what save writes is the configuration without the loader's bookkeeping (strip_meta / recreate_branches): a __path__ left inside a list
# element makes the main dump fail after the sub-files were written
from contracts.share import shared as _shared18  # noqa: E402
UNITS += _shared18("C18", "contracts.c08", "_namespace:recreate_branches", "_namespace:strip_meta")

from contracts.share import carried as _carried  # noqa: E402
UNITS += _carried("C18")
