"""Round 2 - jsonargparse/_jsonnet.py (ActionJsonnet), the optional-dependency helpers of jsonargparse/_optionals.py and the error-handler part of
jsonargparse/_deprecated.py under contract.

Actions, namespaces, paths and modules are records (Rec) whose class name is the real class name; every external (the _jsonnet extension, PyYAML/json through
load_value, jsonschema validators, docstring_parser, OmegaConf, `import` statements) is a recording stand-in whose possible outcomes are enumerated.

C05 (a JSON document is read by the jsonnet action as JSON would read it; the same settings through every channel)
  ActionJsonnet.split_ext_vars  None -> ({}, {}); every entry of the mapping given lands in exactly one of the two results: a string value unchanged (identity) in
                               ext_vars, any other value as json.dumps of exactly that value in ext_codes; nothing is invented; the mapping given is not modified
                               (0-3 entries, keys symbolic and distinct, values over str / int / bool / None / dict / list)
  ActionJsonnet.parse          (also C03, C04) the jsonnet extension is imported for 'ActionJsonnet'; the external variables given are split once and both parts are
                               handed over under their own keyword; a text that is no readable path is evaluated as given under the name 'snippet'; a readable path
                               (asked with exactly the mode get_config_read_mode() returns) is evaluated by its content under the very name given (a Path object:
                               its relative spelling); what the extension returns is read once by load_value inside a parser_context whose load_value_mode is yaml
                               (json without PyYAML) - never the mode of the parse in progress; that value is returned (identity); a schema validates exactly that
                               value once before it is returned; meta keys only with with_meta: __path__ (the Path built) only for a path, __orig__ the text evaluated.
                               Failures: only ImportError (extension missing), the loader errors announced for the jsonnet mode, the validator's ValidationError, the
                               TypeError of a non-mapping result with with_meta - and, for a failed evaluation, the documented TypeError
                               [refuted the shipped code: a failed evaluation left as argparse.ArgumentError; repaired, repo commit 68cb964]
  ActionJsonnet._check_type    (also C03) a string is parsed once with the external variables found in the configuration under the action's ext_vars key ({} when
                               there is no configuration) and with_meta=True; any other value is validated by the schema (if any) and kept as given (identity); a
                               list-valued action treats every element so, in order; every failure leaves as TypeError naming the key (and the element)
                               [REFUTED on the tree: the ArgumentError of parse passes through unconverted; without the jsonschema package every failure ends in
                               the ImportError of the except clause itself]
C09 / C03
  ActionJsonnet.__call__       by argparse: exactly one write, namespace.<dest> = the checked value (checked once, with the namespace as configuration); only the
                               TypeError of the check leaves; as a factory: one new ActionJsonnet with the declaration keywords given plus the configured ext_vars key
                               and validator; a %s in the help is replaced by the schema (sorted keys) only when there is a schema
  ActionJsonnet.__init__       configuration: ext_vars must be None or a string (ValueError otherwise), the jsonnet package must be importable (ImportError naming
                               ActionJsonnet), a schema text is read as YAML/JSON and checked (ValueError when it cannot be read); argparse's initialiser does not run;
                               declaration (by the factory): the private keywords are stored and kept off argparse
  ActionJsonnet._check_ext_vars_action   a jsonnet action with an ext_vars key needs a dict-typed argument of that name whose default is a dict or None (None becomes
                               {}): ValueError otherwise; only that argument's default and its jsonnet_ext_vars mark are written; other actions: nothing happens
C04 (which file / url access default config files and --config get)
  set_config_read_mode         afterwards the mode holds 'u' exactly when urls were asked for and 's' exactly when fsspec was, 'f' and 'r' once each, no other letter,
                               no letter twice (all five reachable modes x both flags symbolic x packages installed / missing); a feature whose package is missing is
                               refused with ImportError *before* its letter is stored, and a disabled feature needs no package
  get_config_read_mode         returns the stored mode itself (ALL strings)
C03 / C05 (a missing optional package is reported with ImportError naming the feature, never with another exception)
  missing_package_raise        the body runs once; an ImportError (ModuleNotFoundError included) thrown in it leaves as ImportError whose text names the package and
                               the feature (ALL strings) and keeps the cause; any other exception leaves unchanged; nothing is swallowed
  import_jsonnet, import_jsonschema, import_requests, import_docstring_parser, import_fsspec, import_ruyaml, import_reconplogger, import_toml_dumps, import_toml_loads
                               the documented module is imported inside missing_package_raise(<documented package name>, the importer given): installed -> the module
                               (jsonschema: + its Draft7Validator; toml: its loads/dumps + decode error; tomllib preferred when present); missing -> that ImportError
  get_omegaconf_loader (+ omegaconf_load)   a missing omegaconf is reported by ImportError naming omegaconf; the loader reads the unmodified text with yaml_load first: a
                               scalar / null is returned as YAML read it and OmegaConf does not run; a container is resolved by OmegaConf from the same text (once) and
                               returned unless OmegaConf made the whole text a null-valued key, then YAML's reading; yaml's failure leaves unchanged (announced);
                               [REFUTED on the tree - known finding c05-omegaconf-mode-interprets-json-strings: OmegaConf's own errors leave although only yaml's are announced]
C12 (help texts only: the docstring helpers return None or a text and never raise)
  parse_docstring              docstring_parser reads exactly component.__doc__ (with attribute docstrings: the object itself) once with the configured style; its
                               ParseError / ValueError is swallowed (-> None, logged only with a logger); the parsed docstring is returned as is
  get_doc_short_description    without docstring_parser: None and nothing is read; a class without method name: its own short description if it has one, else that of
                               __init__; a class with a method name: that method's; a function: its own; an unparsable docstring gives None; never raises
  parse_docs                   without docstring_parser: {} and nothing is read; the parameter descriptions of the component - and of the class too when the component
                               is its __init__ -, later sources overriding earlier ones; an unparsable docstring contributes nothing; never raises
  set_docstring_parse_options  validates before storing: a style that is no DocstringStyle / a non-boolean attribute_docstrings is refused with ValueError and nothing
                               is stored; exactly the options given are changed
  get_docstring_parse_options  an unset style becomes DocstringStyle.AUTO (once); the options table itself is returned
C03 (the error channel)
  ParserDeprecations.error_handler (setter)   a callable, None or False is stored as given (what ArgumentParser.error calls: contracts/c03.py); anything else is refused
                               with ValueError and the stored handler stays; the deprecation warning is issued exactly for a value other than False
                               (the getter - one `return self._error_handler` - shares the setter's name and cannot be addressed as a unit of its own)
  usage_and_exit_error_handler usage to stderr, then '<prog>: error: <message>' + newline to stderr (sample strings, a % in the message included), then parser.exit(2) -
                               in this order, nothing else
"""
import ast

import z3

from pyvc.engine import And, ClassRef, ExcVal, Not, Or, PyRaise, Rec, Unsupported, _dkey, is_z3, lift
from pyvc.units import Setup, Unit

J = "jsonargparse._jsonnet:"
O = "jsonargparse._optionals:"
D = "jsonargparse._deprecated:"
S = z3.StringSort()
SV = z3.StringVal


def _tag(**kw):
    return "[" + ",".join(f"{k}={v}" for k, v in kw.items()) + "]"


def _never(ctx, st, exc):
    ctx.oblige("raises", f"never-raises(got {exc.cls}@{exc.origin})" + st.data.get("tag", ""), False)


def _fail(cls, origin, *args):
    raise PyRaise(ExcVal(cls, args=tuple(args) or ("model",), origin=origin))


def _classes(ctx):
    ctx.classes.add("YAMLError", ["Exception"])
    ctx.classes.add("JSONDecodeError", ["ValueError"])
    ctx.classes.add("ValidationError", ["Exception"])  # jsonschema.exceptions.ValidationError
    ctx.classes.add("ModuleNotFoundError", ["ImportError"])
    ctx.classes.add("ParseError", ["RuntimeError"])  # docstring_parser.ParseError
    ctx.classes.add("OmegaConfBaseException", ["Exception"])


# ================================================================================================ ActionJsonnet.split_ext_vars
EV_KINDS = ["str", "int", "bool", "None", "dict", "list"]


def _ev_value(kind, i):
    return {"str": z3.String(f"text{i}"), "int": z3.Int(f"int{i}"), "bool": z3.Bool(f"bool{i}"), "None": None, "dict": {"a": z3.Int(f"inner{i}")}, "list": [z3.String(f"item{i}")]}[kind]


def sev_setup(ctx):
    n = ctx.choose(5, "ext_vars(None / 0-3 entries)") - 1
    if n < 0:
        given, entries = None, []
    else:
        kinds = [EV_KINDS[ctx.choose(len(EV_KINDS), f"value{i}")] for i in range(n)]
        keys = [z3.String(f"key{i}") for i in range(n)]
        if n > 1:
            ctx.assume(z3.Distinct(*keys))
        entries = [(keys[i], kinds[i], _ev_value(kinds[i], i)) for i in range(n)]
        given = {_dkey(k): v for k, _, v in entries}
    dumped = []

    def dumps(c, a, k):
        out = z3.String(f"json-text-of-value#{len(dumped)}")
        dumped.append((a, dict(k), out))
        return out

    return Setup(env={"ext_vars": given}, calls={"json.dumps": dumps}, data=dict(n=n, given=given, entries=entries, dumped=dumped, before=None if given is None else list(given.items()),
                                                                 tag=_tag(entries=n, kinds="/".join(e[1] for e in entries))))


MISSING = Rec("no such entry")


def _lookup(d, key):
    """The value stored in a result dict under the symbolic key `key` (by the very term), or the marker."""
    for k, v in d.items():
        t = k.term if hasattr(k, "term") else k
        if t is key:
            return v
    return MISSING


def sev_post(ctx, st, result):
    d = st.data
    tag = d["tag"]
    shape = isinstance(result, tuple) and len(result) == 2 and all(isinstance(x, dict) for x in result)
    ctx.oblige("post", "returns-the-pair(ext_vars, ext_codes)-of-two-mappings" + tag, shape)
    if not shape:
        return
    ext_vars, ext_codes = result
    for key, kind, value in d["entries"]:
        v, c = _lookup(ext_vars, key), _lookup(ext_codes, key)
        if kind == "str":
            ctx.oblige("post", "a-string-value-is-handed-over-as-an-external-variable,unchanged,and-not-as-code" + tag, v is value and c is MISSING)
        else:
            made = [x for x in d["dumped"] if len(x[0]) == 1 and x[0][0] is value and x[1] == {} and x[2] is c]
            ctx.oblige("post", "any-other-value-is-handed-over-as-code:json.dumps-of-exactly-that-value(default settings),and-not-as-a-string-variable" + tag, v is MISSING and len(made) == 1)
    ctx.oblige("post", "nothing-is-invented:as-many-entries-come-out-as-went-in" + tag, len(ext_vars) + len(ext_codes) == len(d["entries"]))
    codes = list(ext_codes.values())
    ctx.oblige("post", "only-the-non-string-values-are-serialised,each-once(every code is the text of its own serialisation)" + tag,
               len(d["dumped"]) == len([e for e in d["entries"] if e[1] != "str"]) and all(sum(1 for y in codes if y is x) == 1 for x in codes))
    ctx.oblige("frame", "the-mapping-given-is-not-modified(and is not one of the results)" + tag,
               d["given"] is None or (list(d["given"].items()) == d["before"] and ext_vars is not d["given"] and ext_codes is not d["given"]))


# ================================================================================================ ActionJsonnet.parse
P_INPUT = ["text", "str-path", "Path-object", "str-path-undecodable"]
P_EVAL = ["evaluates", "RuntimeError"]
P_LOAD = ["dict", "non-mapping", "announced-loader-error"]
P_VALID = ["no-schema", "valid", "ValidationError"]


def pa_setup(ctx):
    _classes(ctx)
    installed = ctx.choose(2, "jsonnet-installed") == 1
    pyyaml = ctx.choose(2, "pyyaml_available") == 1
    inp = P_INPUT[ctx.choose(4, "jsonnet-argument")]
    undecodable = inp == "str-path-undecodable"
    inp = "str-path" if undecodable else inp
    ev = P_EVAL[ctx.choose(2, "evaluate_snippet")] if installed and not undecodable else "evaluates"
    ld = P_LOAD[ctx.choose(3, "load_value")] if installed and ev == "evaluates" and not undecodable else "dict"
    vd = P_VALID[ctx.choose(3, "schema")] if installed and ev == "evaluates" and ld != "announced-loader-error" and not undecodable else "no-schema"
    meta = [None, False, True][ctx.choose(3, "with_meta(omitted / False / True)")] if installed else None
    ext_given = ctx.choose(2, "ext_vars-given") == 1 if installed else False
    announced = "YAMLError" if pyyaml else "JSONDecodeError"

    text, content, relname, evaluated, mode = z3.String("jsonnet"), z3.String("file-content"), z3.String("relative-path"), z3.String("evaluated-json"), z3.String("config-read-mode")
    def get_content(c, s_, a, k):
        c.event("get_content", a, dict(k))
        if undecodable:
            _fail("UnicodeDecodeError", "get_content")
        return content

    ctx.classes.add("UnicodeDecodeError", ["ValueError"])
    fpath = Rec("Path", attrs={"built": True}, methods={"get_content": get_content})
    if inp == "Path-object":
        arg = Rec("Path", attrs={"given": True}, methods={"__call__": lambda c, s_, a, k: (c.event("path()", a, dict(k)), relname)[1],
                                                          "get_content": lambda c, s_, a, k: (c.event("get_content-of-the-argument", a, dict(k)), z3.String("other-content"))[1]})
    else:
        arg = text
    ext_in, ext_vars, ext_codes = Rec("ext_vars given"), Rec("string ext vars"), Rec("code ext vars")
    loaded = {"k": z3.Int("loaded")} if ld == "dict" else Rec("loaded non-mapping", methods={"__setitem__": lambda c, s_, a, k: _fail("TypeError", "item assignment on a non-mapping")})
    open_cms = []

    def evaluate(c, a, k):
        c.event("evaluate_snippet", a, dict(k))
        if ev != "evaluates":
            _fail("RuntimeError", "evaluate_snippet")
        return evaluated

    def load_value(c, a, k):
        c.event("load_value", a, dict(k), [dict(x) for x in open_cms])
        if ld == "announced-loader-error":
            _fail(announced, "load_value")
        return loaded

    def path(c, a, k):
        c.event("Path", a, dict(k))
        if inp == "text":
            _fail("TypeError", "Path")
        return fpath

    def imp(c, a, k):
        c.event("import_jsonnet", a, dict(k))
        if not installed:
            _fail("ImportError", "import_jsonnet")
        return Rec("module _jsonnet")

    def validate(c, s_, a, k):
        c.event("validate", a, dict(k))
        if vd == "ValidationError":
            _fail("ValidationError", "validate")

    validator = None if vd == "no-schema" else Rec("validator", methods={"validate": validate})
    self = Rec("ActionJsonnet", attrs={"_validator": validator, "_ext_vars": None}, methods={"split_ext_vars": lambda c, s_, a, k: (c.event("split_ext_vars", a, dict(k)), (ext_vars, ext_codes))[1]})
    calls = {"import_jsonnet": imp, "Path": path, "get_config_read_mode": lambda c, a, k: mode, "_jsonnet.evaluate_snippet": evaluate, "load_value": load_value,
             "ActionJsonnet.split_ext_vars": lambda c, a, k: (c.event("split_ext_vars", a, dict(k)), (ext_vars, ext_codes))[1],
             "argument_error": lambda c, a, k: ExcVal("ArgumentError", args=tuple(a), origin="argument_error")}
    cms = {"parser_context": (lambda c, a, k: open_cms.append(dict(k)), lambda c, t, e: (open_cms.pop(), False)[1])}
    env = {"self": self, "jsonnet": arg}
    if ext_given:
        env["ext_vars"] = ext_in
    if meta is not None:
        env["with_meta"] = meta
    return Setup(env=env, calls=calls, cms=cms, consts={"pyyaml_available": pyyaml},
                 data=dict(installed=installed, pyyaml=pyyaml, undecodable=undecodable, inp=inp, ev=ev, ld=ld, vd=vd, meta=bool(meta), ext_given=ext_given, announced=announced, text=text, content=content, relname=relname,
                           evaluated=evaluated, mode=mode, fpath=fpath, arg=arg, ext_in=ext_in, ext_vars=ext_vars, ext_codes=ext_codes, loaded=loaded, self=self, validator=validator,
                           tag=_tag(installed=installed, pyyaml=pyyaml, input=inp + ("-undecodable" if undecodable else ""), eval=ev, load=ld, schema=vd, meta=meta, ext=ext_given)))


def _pa_common(ctx, d):
    """Clauses on what was handed to the externals - they hold on every exit once the extension was found."""
    tag = d["tag"]
    E = lambda n: [e for e in ctx.events if e[0] == n]  # noqa: E731
    ctx.oblige("post", "the-jsonnet-extension-is-imported-once,for-'ActionJsonnet'" + tag, len(E("import_jsonnet")) == 1 and E("import_jsonnet")[0][1] == ("ActionJsonnet",))
    if not d["installed"]:
        ctx.oblige("post", "without-the-extension-nothing-is-read-or-evaluated" + tag, len(ctx.events) == 1)
        return
    sp, pt, evs, lv = E("split_ext_vars"), E("Path"), E("evaluate_snippet"), E("load_value")
    ctx.oblige("post", "the-external-variables-given(None when omitted)-are-split-once" + tag, len(sp) == 1 and len(sp[0][1]) == 1 and sp[0][1][0] is (d["ext_in"] if d["ext_given"] else None) and sp[0][2] == {})
    ctx.oblige("post", "the-argument-is-tried-as-a-path-once,with-exactly-the-config-read-mode-in-force(which file / url access configs get)" + tag,
               len(pt) == 1 and len(pt[0][1]) == 1 and pt[0][1][0] is d["arg"] and set(pt[0][2]) == {"mode"} and pt[0][2]["mode"] is d["mode"])
    if d["undecodable"]:
        ctx.oblige("post", "a-file-that-cannot-be-decoded:nothing-is-evaluated-or-loaded" + tag, not evs and not lv and len(E("get_content")) == 1)
        return
    fname = {"text": "snippet", "str-path": d["text"], "Path-object": d["relname"]}[d["inp"]]
    snippet = d["text"] if d["inp"] == "text" else d["content"]
    same = lambda x, y: x is y or (isinstance(x, str) and isinstance(y, str) and x == y)  # noqa: E731
    ctx.oblige("post", "jsonnet-evaluates-once:a-text-as-given-under-the-name-'snippet',a-readable-path-by-its-content-under-the-very-path-given(the file name reported;"
               "a Path object: its relative spelling)" + tag, len(evs) == 1 and len(evs[0][1]) == 2 and same(evs[0][1][0], fname) and evs[0][1][1] is snippet)
    if evs:
        k = evs[0][2]
        ctx.oblige("post", "both-parts-of-the-split-are-handed-over,each-under-its-own-keyword(strings as ext_vars, codes as ext_codes),nothing-else" + tag,
                   set(k) == {"ext_vars", "ext_codes"} and k.get("ext_vars") is d["ext_vars"] and k.get("ext_codes") is d["ext_codes"])
    if d["inp"] != "text":
        gc = E("get_content")
        ctx.oblige("post", "the-content-is-read-once,from-the-Path-built-with-the-read-mode(not from the argument)" + tag, len(gc) == 1 and gc[0][1] == () and gc[0][2] == {} and not E("get_content-of-the-argument"))
        if d["inp"] == "Path-object":
            pc = E("path()")
            ctx.oblige("post", "a-Path-object-is-named-by-its-relative-spelling" + tag, len(pc) == 1 and pc[0][1] == () and pc[0][2] == {"absolute": False})
    else:
        ctx.oblige("post", "a-text-that-is-no-path:nothing-is-read-from-disk" + tag, not E("get_content") and not E("path()"))
    if d["ev"] == "evaluates":
        ok = len(lv) == 1 and len(lv[0][1]) == 1 and lv[0][1][0] is d["evaluated"] and lv[0][2] == {}
        ctx.oblige("post", "what-jsonnet-returned(JSON text)-is-read-once,unmodified,by-load_value" + tag, ok)
        if lv:
            inside = lv[0][3]
            ctx.oblige("post", "it-is-read-as-YAML(JSON without PyYAML):inside-a-parser_context-whose-load_value_mode-is-that,whatever-the-mode-of-the-parse-in-progress" + tag,
                       len(inside) == 1 and inside[0] == {"load_value_mode": "yaml" if d["pyyaml"] else "json"})
    else:
        ctx.oblige("post", "nothing-is-loaded-after-a-failed-evaluation" + tag, not lv)
    va = E("validate")
    if d["validator"] is not None and d["ev"] == "evaluates" and d["ld"] != "announced-loader-error":
        ctx.oblige("post", "a-schema-validates-exactly-the-loaded-value,once,before-anything-is-added-to-it" + tag,
                   len(va) == 1 and len(va[0][1]) == 1 and va[0][1][0] is d["loaded"] and va[0][2] == {})
    else:
        ctx.oblige("post", "no-validation-without-a-schema-or-without-a-value" + tag, not va)


def pa_post(ctx, st, result):
    d = st.data
    tag = d["tag"]
    _pa_common(ctx, d)
    ctx.oblige("post", "returns=>installed,evaluated,loaded,valid" + tag, d["installed"] and not d["undecodable"] and d["ev"] == "evaluates" and d["ld"] != "announced-loader-error" and d["vd"] != "ValidationError")
    ctx.oblige("post", "the-value-returned-is-the-value-loaded(identity)" + tag, result is d["loaded"])
    if d["ld"] == "dict":
        want = {"k"}
        if d["meta"]:
            want |= {"__orig__"} | ({"__path__"} if d["inp"] != "text" else set())
        lo = d["loaded"]
        ctx.oblige("post", "meta-keys-only-with-with_meta:__orig__-always,__path__-only-for-a-path;the-loaded-entries-stay" + tag, set(lo) == want and is_z3(lo["k"]) and lo["k"].eq(z3.Int("loaded")))
        if d["meta"]:
            ctx.oblige("post", "__orig__-is-the-text-evaluated(the file's content for a path),__path__-the-Path-built" + tag,
                       lo.get("__orig__") is (d["text"] if d["inp"] == "text" else d["content"]) and (d["inp"] == "text" or lo.get("__path__") is d["fpath"]))
    else:
        ctx.oblige("post", "a-non-mapping-result-is-returned-only-without-meta" + tag, not d["meta"])
    ctx.oblige("frame", "the-action-is-not-modified" + tag, set(d["self"].attrs) == {"_validator", "_ext_vars"} and d["self"].attrs["_validator"] is d["validator"] and d["self"] not in ctx.mutlog)


def pa_raises(ctx, st, exc):
    d = st.data
    tag = d["tag"]
    _pa_common(ctx, d)
    got = f"(got {exc.cls}@{exc.origin})"
    if not d["installed"]:
        ctx.oblige("raises", "a-missing-jsonnet-package-is-reported-by-the-ImportError-of-import_jsonnet" + got + tag, exc.cls == "ImportError" and exc.origin == "import_jsonnet")
    elif d["undecodable"]:
        ctx.oblige("raises", "a-file-that-cannot-be-decoded-fails-with-the-ValueError-of-the-read(a class announced for the jsonnet mode)" + got + tag, exc.cls == "UnicodeDecodeError" and exc.origin == "get_content")
    elif d["ev"] == "RuntimeError":
        # C03: _check_type / __call__ convert TypeError, RuntimeError, jsonschema's ValidationError and the loader errors; the docstring of parse documents TypeError.
        ctx.oblige("raises", "a-failed-evaluation-leaves-as-the-documented-TypeError(or as a class the jsonnet mode announces),never-as-another-class" + got + tag,
                   exc.cls in ("TypeError", "ValueError", d["announced"]))
        ctx.oblige("raises", "the-failure-keeps-jsonnet's-RuntimeError-as-its-cause" + tag, isinstance(exc.cause, ExcVal) and exc.cause.cls == "RuntimeError" and exc.cause.origin == "evaluate_snippet")
        if exc.args and is_z3(exc.args[0]):
            fname = {"text": SV("snippet"), "str-path": d["text"], "Path-object": d["relname"]}[d["inp"]]
            ctx.oblige("raises", "the-message-names-the-file-evaluated('snippet' for a text)" + tag, z3.Contains(exc.args[0], z3.Concat(SV('"'), fname, SV('"'))), strings=True)
    elif d["ld"] == "announced-loader-error":
        ctx.oblige("raises", "the-reader's-failure-leaves-unchanged(a class announced for the jsonnet mode)" + got + tag, exc.cls == d["announced"] and exc.origin == "load_value")
    elif d["vd"] == "ValidationError":
        ctx.oblige("raises", "the-schema's-refusal-leaves-unchanged" + got + tag, exc.cls == "ValidationError" and exc.origin == "validate")
    else:
        ctx.oblige("raises", "otherwise-only-a-non-mapping-result-with-with_meta-fails,with-TypeError" + got + tag, d["ld"] == "non-mapping" and d["meta"] and exc.cls == "TypeError")


# ================================================================================================ ActionJsonnet._check_type
CT_VALUES = ["str", "dict", "int"]
CT_PARSE = ["parses", "TypeError", "ValueError", "ValidationError", "RuntimeError"]  # (until repo commit 68cb964 a failed evaluation left parse as ArgumentError and passed through here unconverted)


def ct_setup(ctx):
    _classes(ctx)
    islist = ctx.choose(2, "list-valued-action") == 1
    # a single value: every dimension; a list of two: the dimensions that concern the elements (kinds, fates, schema) - the others are fixed
    cfg_kind = ["None", "empty-namespace", "namespace"][ctx.choose(3, "cfg")] if not islist else "namespace"
    schema = ctx.choose(2, "schema") == 1
    jsonschema_pkg = ctx.choose(2, "jsonschema-installed") == 1 if not schema and not islist else True
    mode = ["yaml", "json", "jsonnet"][ctx.choose(3, "mode-of-the-parse-in-progress")] if not islist else "jsonnet"
    kinds = [CT_VALUES[ctx.choose(3, f"value{i}")] for i in range(2 if islist else 1)]
    fates = []
    for i, kd in enumerate(kinds):
        if kd == "str":
            fates.append(CT_PARSE[ctx.choose(len(CT_PARSE), f"parse{i}")] if not islist else ["parses", "ValueError", "TypeError"][ctx.choose(3, f"parse{i}")])
        elif schema:
            fates.append(["valid", "ValidationError"][ctx.choose(2, f"validate{i}")])
        else:
            fates.append("kept")
    dest, key = z3.String("dest"), z3.String("ext_vars-key")
    has_key = ctx.choose(2, "action-has-an-ext_vars-key") == 1 if not islist else True
    values = [{"str": z3.String(f"text{i}"), "dict": {"a": z3.Int(f"a{i}")}, "int": z3.Int(f"n{i}")}[kd] for i, kd in enumerate(kinds)]
    parsed = [Rec(f"parsed{i}") for i in range(len(kinds))]
    found = Rec("ext vars found in cfg")

    def _which(a):
        return next((j for j, v in enumerate(values) if a and a[0] is v), None)

    def parse(c, s_, a, k):
        c.event("parse", a, dict(k))
        idx = _which(a)
        if idx is None:
            return Rec("parsed: a value that was not given")  # (refuted by the clause on what is parsed)
        if fates[idx] not in ("parses", "valid", "kept"):
            _fail(fates[idx], "parse")
        return parsed[idx]

    def validate(c, s_, a, k):
        c.event("validate", a, dict(k))
        idx = _which(a)
        if idx is not None and fates[idx] == "ValidationError":
            _fail("ValidationError", "validate")

    def cfg_get(c, s_, a, k):
        c.event("cfg.get", a, dict(k))
        return found

    cfg = {"None": None, "empty-namespace": Rec("Namespace", methods={"get": cfg_get}, truthy=False), "namespace": Rec("Namespace", methods={"get": cfg_get})}[cfg_kind]
    validator = Rec("validator", methods={"validate": validate}) if schema else None
    self = Rec("ActionJsonnet", attrs={"dest": dest, "_ext_vars": key if has_key else None, "_validator": validator}, methods={"parse": parse})
    announced = {"yaml": ("YAMLError",), "json": ("ValueError",), "jsonnet": ("YAMLError", "ValueError")}[mode]

    def gje(c, a, k):
        if not jsonschema_pkg:
            _fail("ModuleNotFoundError", "get_jsonschema_exceptions")
        return (ClassRef("ValidationError"),)

    calls = {"_is_action_value_list": lambda c, a, k: islist, "get_jsonschema_exceptions": gje,
             "get_loader_exceptions": lambda c, a, k: (c.event("get_loader_exceptions", a, dict(k)), tuple(ClassRef(n) for n in announced))[1]}
    value = list(values) if islist else values[0]
    return Setup(env={"self": self, "value": value, "cfg": cfg}, calls=calls,
                 data=dict(islist=islist, cfg_kind=cfg_kind, cfg=cfg, schema=schema, pkg=jsonschema_pkg, mode=mode, kinds=kinds, fates=fates, dest=dest, key=key, has_key=has_key, values=values, parsed=parsed,
                           found=found, self=self, validator=validator, value=value, self_before=dict(self.attrs),
                           tag=_tag(list=islist, cfg=cfg_kind, schema=schema, jsonschema=jsonschema_pkg, mode=mode, values="/".join(kinds), fates="/".join(fates), key=has_key)), watch={"dest": dest})


def _ct_first_failure(d):
    for i, f in enumerate(d["fates"]):
        if f not in ("parses", "valid", "kept"):
            return i
    return None


def _ct_common(ctx, d):
    tag = d["tag"]
    stop = _ct_first_failure(d)
    upto = len(d["kinds"]) if stop is None else stop + 1
    ps, vs, gets = [e for e in ctx.events if e[0] == "parse"], [e for e in ctx.events if e[0] == "validate"], [e for e in ctx.events if e[0] == "cfg.get"]
    want_p = [i for i in range(upto) if d["kinds"][i] == "str"]
    want_v = [i for i in range(upto) if d["kinds"][i] != "str" and d["schema"]]
    ctx.oblige("post", "every-string-is-parsed-once,in-order,up-to-the-first-failure;nothing-else-is-parsed" + tag, len(ps) == len(want_p) and all(len(e[1]) == 1 and e[1][0] is d["values"][i] for e, i in zip(ps, want_p)))
    ctx.oblige("post", "every-other-value-is-validated-by-the-schema(if any),once,in-order;strings-are-validated-by-parse" + tag, len(vs) == len(want_v) and all(len(e[1]) == 1 and e[1][0] is d["values"][i] and e[2] == {} for e, i in zip(vs, want_v)))
    for e in ps:
        k = e[2]
        if d["cfg_kind"] == "namespace":
            ev_ok = k.get("ext_vars", "missing") is d["found"]
        else:
            ev_ok = isinstance(k.get("ext_vars", "missing"), dict) and k["ext_vars"] == {}
        ctx.oblige("post", "parse-gets-the-external-variables-found-in-the-configuration({} without one)-and-with_meta=True,nothing-else" + tag, set(k) == {"ext_vars", "with_meta"} and k["with_meta"] is True and ev_ok)
    if d["cfg_kind"] == "namespace":
        ctx.oblige("post", "the-external-variables-are-looked-up-once-under-the-action's-ext_vars-key,default-{}" + tag,
                   len(gets) == 1 and len(gets[0][1]) == 2 and gets[0][1][0] is d["self"].attrs["_ext_vars"] and gets[0][1][1] == {} and gets[0][2] == {})
    else:
        ctx.oblige("post", "no-configuration(or an empty one):nothing-is-looked-up" + tag, not gets)
    ctx.oblige("frame", "the-action-is-not-modified" + tag, d["self"].attrs == d["self_before"])


def ct_post(ctx, st, result):
    d = st.data
    tag = d["tag"]
    _ct_common(ctx, d)
    ctx.oblige("post", "returns=>nothing-failed" + tag, _ct_first_failure(d) is None)
    want = [d["parsed"][i] if kd == "str" else d["values"][i] for i, kd in enumerate(d["kinds"])]
    if d["islist"]:
        ctx.oblige("post", "a-list-valued-action-returns-a-list-of-the-same-length:strings-parsed,other-values-as-given(identity),in-order" + tag,
                   isinstance(result, list) and len(result) == len(want) and all(r is w for r, w in zip(result, want)))
    else:
        ctx.oblige("post", "a-string-is-returned-parsed,any-other-value-as-given(identity)" + tag, result is want[0])


def ct_raises(ctx, st, exc):
    d = st.data
    tag = d["tag"]
    _ct_common(ctx, d)
    stop = _ct_first_failure(d)
    got = f"(got {exc.cls}@{exc.origin})"
    ctx.oblige("raises", "fails=>something-failed" + got + tag, stop is not None)
    if stop is None:
        return
    # C03: parse_args / parse_object convert TypeError (and KeyError) only; whatever parse or the schema fail with has to leave here as TypeError
    which = "[jsonschema-package-missing]" if not d["pkg"] else ("[parse-fails-with-ArgumentError]" if d["fates"][stop] == "ArgumentError" else
                                                                 ("[parse-fails-with-ValueError-in-yaml-mode]" if d["fates"][stop] == "ValueError" and d["mode"] == "yaml" else ""))
    ctx.oblige("raises", "every-failure-of-parse-or-of-the-schema-leaves-as-TypeError" + which + got + tag, exc.cls == "TypeError" and exc.origin.startswith("raise@"))
    if exc.cls == "TypeError" and exc.origin.startswith("raise@"):
        msg = exc.args[0] if exc.args else None
        head = z3.Concat(SV('Parser key "'), d["dest"], SV('"'))
        if d["islist"]:
            head = z3.Concat(head, SV(f" element {stop + 1}"))
        ctx.oblige("raises", "the-message-names-the-key(and the element, counted from 1)" + tag, is_z3(msg) and z3.PrefixOf(z3.Concat(head, SV(": ")), msg), strings=True)
        ctx.oblige("raises", "the-original-failure-is-kept-as-the-cause" + tag, isinstance(exc.cause, ExcVal) and exc.cause.cls == d["fates"][stop])


# ================================================================================================ ActionJsonnet.__call__
def jc_setup(ctx):
    _classes(ctx)
    mode = ["argparse", "factory"][ctx.choose(2, "called-by")]
    dest, key = z3.String("dest"), z3.String("ext_vars-key")
    schema = ctx.choose(2, "schema") == 1
    schema_obj = Rec("schema")
    validator = Rec("validator", attrs={"schema": schema_obj}) if schema else None
    checked = Rec("checked value")
    made = []
    fate = "ok"

    def check(c, s_, a, k):
        c.event("_check_type_", a, dict(k))
        if fate == "TypeError":
            _fail("TypeError", "_check_type_")
        return checked

    self = Rec("ActionJsonnet", attrs={"dest": dest, "_ext_vars": key, "_validator": validator}, methods={"_check_type_": check})
    writes = []
    calls = {"ActionJsonnet": lambda c, a, k: (made.append((a, dict(k))), Rec("ActionJsonnet", attrs={"new": True}))[1], "setattr": lambda c, a, k: writes.append((a, dict(k))),
             "json.dumps": lambda c, a, k: (c.event("json.dumps", a, dict(k)), "SCHEMA-TEXT")[1]}
    data = dict(mode=mode, dest=dest, key=key, schema=schema, schema_obj=schema_obj, validator=validator, checked=checked, made=made, writes=writes, self=self, self_before=dict(self.attrs))
    if mode == "argparse":
        fate = ["ok", "TypeError"][ctx.choose(2, "_check_type_")]
        parser, ns, value = Rec("ArgumentParser", attrs={"t": 1}), Rec("Namespace", attrs={"other": z3.Int("other")}), z3.String("value")
        with_opt = ctx.choose(2, "option_string-given") == 1
        args = (parser, ns, value) + (("--j",) if with_opt else ())
        data.update(parser=parser, ns=ns, value=value, fate=fate, ns_before=dict(ns.attrs), tag=_tag(by=mode, schema=schema, check=fate, opt=with_opt))
        return Setup(env={"self": self, "args": args, "kwargs": {}}, calls=calls, data=data, watch={"dest": dest})
    help_kind = ["none", "plain", "with-%s"][ctx.choose(3, "help")]
    kwargs = {"option_strings": ["--j"], "dest": "j"}
    if help_kind != "none":
        kwargs["help"] = {"plain": "some help", "with-%s": "schema: %s"}[help_kind]
    data.update(help_kind=help_kind, kwargs=kwargs, kwargs_before=dict(kwargs), fate="ok", tag=_tag(by=mode, schema=schema, help=help_kind))
    return Setup(env={"self": self, "args": (), "kwargs": kwargs}, calls=calls, data=data)


def _jc_frame(ctx, d):
    ctx.oblige("frame", "the-action-itself-is-not-modified" + d["tag"], d["self"].attrs == d["self_before"])


def jc_post(ctx, st, result):
    d = st.data
    tag = d["tag"]
    _jc_frame(ctx, d)
    ev = [e for e in ctx.events if e[0] == "_check_type_"]
    if d["mode"] == "argparse":
        ctx.oblige("post", "returns=>the-check-succeeded;returns-nothing;no-action-is-created" + tag, d["fate"] == "ok" and result is None and not d["made"])
        ctx.oblige("post", "the-value-given-is-checked-once,with-the-namespace-being-filled-as-configuration" + tag, len(ev) == 1 and len(ev[0][1]) == 1 and ev[0][1][0] is d["value"] and set(ev[0][2]) == {"cfg"} and ev[0][2]["cfg"] is d["ns"])
        w = d["writes"]
        ctx.oblige("post", "exactly-one-write:namespace.<dest>-is-the-checked-value(ALL dests);every-other-entry-stays" + tag,
                   len(w) == 1 and w[0][1] == {} and len(w[0][0]) == 3 and w[0][0][0] is d["ns"] and w[0][0][1] is d["dest"] and w[0][0][2] is d["checked"] and d["ns"].attrs == d["ns_before"] and d["ns"] not in ctx.mutlog)
        ctx.oblige("frame", "the-parser-is-not-modified" + tag, d["parser"].attrs == {"t": 1})
        return
    ctx.oblige("post", "the-factory-returns-one-new-ActionJsonnet;nothing-is-checked" + tag, len(d["made"]) == 1 and isinstance(result, Rec) and result.attrs.get("new") is True and not ev)
    if len(d["made"]) != 1:
        return
    a, k = d["made"][0]
    want_help = d["kwargs_before"].get("help", "missing")
    if d["help_kind"] == "with-%s" and d["schema"]:
        want_help = "schema: SCHEMA-TEXT"
    ctx.oblige("post", "it-gets-the-declaration-keywords-given-plus-the-configured-ext_vars-key-and-validator(keywords only)" + tag,
               a == () and set(k) == set(d["kwargs_before"]) | {"_ext_vars", "_validator"} and k["_ext_vars"] is d["key"] and k["_validator"] is d["validator"]
               and all(k[n] is v or k[n] == v for n, v in d["kwargs_before"].items() if n != "help"))
    ctx.oblige("post", "a-%s-in-the-help-is-replaced-by-the-schema-only-when-there-is-a-schema;any-other-help-is-passed-on-unchanged" + tag, k.get("help", "missing") == want_help)
    js = [e for e in ctx.events if e[0] == "json.dumps"]
    if d["help_kind"] == "with-%s" and d["schema"]:
        ctx.oblige("post", "the-schema-shown-is-the-validator's-schema,keys-sorted" + tag, len(js) == 1 and len(js[0][1]) == 1 and js[0][1][0] is d["schema_obj"] and js[0][2] == {"sort_keys": True})


def jc_raises(ctx, st, exc):
    d = st.data
    _jc_frame(ctx, d)
    ctx.oblige("raises", f"only-the-TypeError-of-the-check-leaves(got {exc.cls}@{exc.origin})" + d["tag"], d["mode"] == "argparse" and d["fate"] == "TypeError" and exc.cls == "TypeError" and exc.origin == "_check_type_")
    if d["mode"] == "argparse":
        ctx.oblige("frame", "a-refused-value-writes-nothing" + d["tag"], d["ns"].attrs == d["ns_before"] and d["parser"].attrs == {"t": 1} and not d["writes"])


# ================================================================================================ set_config_read_mode / get_config_read_mode
MODES = ["fr", "fur", "fsr", "fsur", "fusr"]  # every mode reachable from the initial 'fr' through set_config_read_mode


def global_hooks(names, state):
    """Python's `global` statement (the engine treats it as a no-op): an assignment to a name the running function declared global is an assignment to the
    module-level variable - kept in `state` and in the interpreter's module constants - and not a local."""
    declared = set()

    def before(c, interp, stmt, env):
        if isinstance(stmt, ast.Global):
            for n in stmt.names:
                declared.add((id(env), n))

    def after(c, interp, stmt, env):
        if isinstance(stmt, (ast.Assign, ast.AugAssign)):
            targets = stmt.targets if isinstance(stmt, ast.Assign) else [stmt.target]
            for t in targets:
                if isinstance(t, ast.Name) and t.id in names and (id(env), t.id) in declared and t.id in env.vars:
                    v = env.vars.pop(t.id)
                    interp.consts[t.id] = v
                    state[t.id] = v
                    c.event("global-write", t.id, v, [e[0] for e in c.events if e[0].startswith("import")])

    return {"before_stmt": before, "after_stmt": after}


def sm_setup(ctx):
    start = MODES[ctx.choose(len(MODES), "mode-before")]
    given = ctx.choose(4, "arguments(both / urls only / fsspec only / none)")
    have = {"u": ctx.choose(2, "requests-installed") == 1, "s": ctx.choose(2, "fsspec-installed") == 1}
    urls, fs = z3.Bool("urls_enabled"), z3.Bool("fsspec_enabled")
    env = {}
    if given in (0, 1):
        env["urls_enabled"] = urls
    if given in (0, 2):
        env["fsspec_enabled"] = fs
    state = {"_config_read_mode": start}

    def importer(flag, name):
        def f(c, a, k):
            c.event("import:" + flag, a, dict(k), state["_config_read_mode"])
            if not have[flag]:
                _fail("ImportError", name)
            return Rec("module " + name)
        return f

    calls = {"import_requests": importer("u", "import_requests"), "import_fsspec": importer("s", "import_fsspec")}
    return Setup(env=env, calls=calls, consts={"_config_read_mode": start}, hooks=global_hooks({"_config_read_mode"}, state),
                 data=dict(start=start, given=given, have=have, urls=urls if "urls_enabled" in env else False, fs=fs if "fsspec_enabled" in env else False, state=state,
                           tag=_tag(before=start, args=["both", "urls", "fsspec", "none"][given], requests=have["u"], fsspec=have["s"])))


def _sm_letters(ctx, d, label):
    tag = d["tag"]
    mode = d["state"]["_config_read_mode"]
    ok = isinstance(mode, str)
    ctx.oblige("post", label + "the-mode-is-a-string-of-the-letters-f,u,s,r-only,no-letter-twice,'f'-and-'r'-present(local files stay readable)" + tag,
               ok and set(mode) <= set("fusr") and len(set(mode)) == len(mode) and "f" in mode and "r" in mode)
    return mode if ok else None


def sm_post(ctx, st, result):
    d = st.data
    tag = d["tag"]
    mode = _sm_letters(ctx, d, "")
    if mode is None:
        return
    ctx.oblige("post", "urls-are-read('u')-exactly-when-asked-for(not asked = disabled)" + tag, lift(d["urls"]) == z3.BoolVal("u" in mode))
    ctx.oblige("post", "fsspec-file-systems-are-read('s')-exactly-when-asked-for(not asked = disabled)" + tag, lift(d["fs"]) == z3.BoolVal("s" in mode))
    ctx.oblige("post", "returns=>every-feature-asked-for-has-its-package" + tag, And(Or(Not(lift(d["urls"])), d["have"]["u"]), Or(Not(lift(d["fs"])), d["have"]["s"])))
    imps = [e for e in ctx.events if e[0].startswith("import:")]
    ctx.oblige("post", "a-package-is-asked-for-only-for-a-feature-being-enabled,once,naming-set_config_read_mode" + tag,
               And(lift(d["urls"]) == z3.BoolVal(any(e[0] == "import:u" for e in imps)), lift(d["fs"]) == z3.BoolVal(any(e[0] == "import:s" for e in imps)))
               if len(imps) == len({e[0] for e in imps}) and all(e[1] == ("set_config_read_mode",) and e[2] == {} for e in imps) else False)
    for e in imps:
        ctx.oblige("post", "validated-before-stored:the-letter-is-not-in-the-mode-when-its-package-is-looked-for,unless-it-was-enabled-before" + tag, (e[0][-1] not in e[3]) or (e[0][-1] in d["start"]))
    ctx.oblige("post", "returns-nothing" + tag, result is None)


def sm_raises(ctx, st, exc):
    d = st.data
    tag = d["tag"]
    mode = _sm_letters(ctx, d, "after-a-refusal:")
    flag = {"import_requests": "u", "import_fsspec": "s"}.get(exc.origin)
    ctx.oblige("raises", f"only-the-ImportError-of-a-missing-package-leaves(got {exc.cls}@{exc.origin})" + tag, exc.cls == "ImportError" and flag is not None and not d["have"].get(flag, True))
    if flag is None or mode is None:
        return
    ctx.oblige("raises", "refused=>that-feature-was-asked-for" + tag, lift(d["urls"] if flag == "u" else d["fs"]))
    ctx.oblige("raises", "validated-before-stored:the-letter-of-the-missing-package-is-not-stored-by-the-refused-call" + tag, (flag not in mode) or (flag in d["start"]))


def gm_setup(ctx):
    mode = z3.String("mode")
    return Setup(env={}, consts={"_config_read_mode": mode}, data=dict(mode=mode, tag=""))


def gm_post(ctx, st, result):
    ctx.oblige("post", "returns-the-stored-mode-itself(what set_config_read_mode stored)", result is st.data["mode"])


# ================================================================================================ missing_package_raise / import_* helpers
def _required_by(package, importer):
    return z3.Concat(lift(package), SV(" package is required by "), lift(importer), SV(" :: "))


def mp_setup(ctx):
    _classes(ctx)
    thrown = [None, "ImportError", "ModuleNotFoundError", "ValueError"][ctx.choose(4, "the-body")]
    package, importer = z3.String("package"), z3.String("importer")

    def at_yield(c, interp, v, env):
        c.event("body", v)
        if thrown:
            _fail(thrown, "body", "No module named 'x'")

    return Setup(env={"package": package, "importer": importer}, hooks={"yield": at_yield}, data=dict(thrown=thrown, package=package, importer=importer, tag=_tag(body=thrown)),
                 watch={"package": package, "importer": importer})


def _mp_once(ctx, d):
    ctx.oblige("post", "the-body-runs-once" + d["tag"], len([e for e in ctx.events if e[0] == "body"]) == 1)


def mp_post(ctx, st, result):
    d = st.data
    _mp_once(ctx, d)
    ctx.oblige("post", "a-normal-exit-means-the-body-raised-nothing(nothing is swallowed)" + d["tag"], d["thrown"] is None)


def mp_raises(ctx, st, exc):
    d = st.data
    tag = d["tag"]
    _mp_once(ctx, d)
    got = f"(got {exc.cls}@{exc.origin})"
    if exc.cls == "<Any>" or d["thrown"] == "ValueError":
        ctx.oblige("raises", "an-exception-of-the-body-that-is-no-ImportError-leaves-unchanged" + got + tag, exc.origin == "body" or exc.origin.startswith("thrown-into-yield"))
        return
    ctx.oblige("raises", "an-ImportError-of-the-body(ModuleNotFoundError included)-leaves-as-ImportError,raised-here" + got + tag, exc.cls == "ImportError" and exc.origin.startswith("raise@"))
    msg = exc.args[0] if exc.args else None
    ctx.oblige("raises", "its-text-names-the-package-and-the-feature-that-needs-it(ALL strings),then-the-original-text" + tag,
               is_z3(msg) and z3.PrefixOf(_required_by(d["package"], d["importer"]), msg), strings=True)
    ctx.oblige("raises", "the-original-failure-is-kept-as-the-cause" + tag, isinstance(exc.cause, ExcVal) and exc.cause.origin in ("body",) or (isinstance(exc.cause, ExcVal) and exc.cause.cls == "<Any>"))


# function -> (documented package name, module imported, what is returned)
IMPORTERS = {
    "import_jsonschema": ("jsonschema", "jsonschema", "module+Draft7Validator"), "import_jsonnet": ("jsonnet", "_jsonnet", "module"), "import_requests": ("requests", "requests", "module"),
    "import_docstring_parser": ("docstring-parser", "docstring_parser", "module"), "import_fsspec": ("fsspec", "fsspec", "module"), "import_ruyaml": ("ruyaml", "ruyaml", "module"),
    "import_reconplogger": ("reconplogger", "reconplogger", "module"), "import_toml_dumps": ("toml", "toml", "dumps"), "import_toml_loads": ("toml", "toml", "loads+error"),
}


def missing_package_cm(open_cms):
    """missing_package_raise by its contract (unit above): an ImportError of the body leaves as ImportError naming package and feature; anything else passes."""
    def enter(c, a, k):
        open_cms.append((a, dict(k)))
        c.event("missing_package_raise", a, dict(k))
        return (a, "$token")

    def exit_(c, token, exc):
        open_cms.pop()
        if exc is not None and c.classes.is_subclass(exc.cls, "ImportError"):
            a = token[0]
            msg = z3.Concat(_required_by(a[0], a[1]), c.fresh("original-text", S)) if len(a) == 2 else "?"
            raise PyRaise(ExcVal("ImportError", args=(msg,), origin="missing_package_raise", cause=exc))
        return False

    return (enter, exit_)


def import_hooks(installed, modules, open_cms):
    """`import x` / `from x import y`: ModuleNotFoundError when the scenario says x is missing, else the module record of the scenario is bound."""
    def before(c, interp, stmt, env):
        if isinstance(stmt, (ast.Import, ast.ImportFrom)):
            names = [a.name for a in stmt.names] if isinstance(stmt, ast.Import) else [stmt.module]
            for n in names:
                if n in modules:
                    c.event("import", n, [x[0] for x in open_cms])
                    if not installed.get(n, True):
                        _fail("ModuleNotFoundError", "import " + n, f"No module named '{n}'")

    def after(c, interp, stmt, env):
        if isinstance(stmt, ast.Import):
            for a in stmt.names:
                if a.name in modules:
                    env.set((a.asname or a.name).split(".")[0], modules[a.name])
        elif isinstance(stmt, ast.ImportFrom) and stmt.module in modules:
            for a in stmt.names:
                if a.name in modules[stmt.module].attrs:
                    env.set(a.asname or a.name, modules[stmt.module].attrs[a.name])

    return {"before_stmt": before, "after_stmt": after}


def _imp_setup(fname):
    package, module, returns = IMPORTERS[fname]

    def setup(ctx):
        _classes(ctx)
        have = ctx.choose(2, f"{module}-installed") == 1
        tomllib = ctx.choose(2, "tomllib-present") == 1 if fname == "import_toml_loads" else False
        importer = z3.String("importer")
        mods = {module: Rec("module:" + module, attrs={"Draft7Validator": Rec("Draft7Validator"), "dumps": Rec("toml.dumps"), "loads": Rec("toml.loads"), "TomlDecodeError": ClassRef("TomlDecodeError")}),
                "tomllib": Rec("module:tomllib", attrs={"loads": Rec("tomllib.loads"), "TOMLDecodeError": ClassRef("TOMLDecodeError")})}
        open_cms = []
        return Setup(env={"importer": importer}, calls={"find_spec": lambda c, a, k: (Rec("spec") if tomllib else None) if a == ("tomllib",) else _fail("AssertionError", "find_spec of another module")},
                     cms={"missing_package_raise": missing_package_cm(open_cms)}, hooks=import_hooks({module: have, "tomllib": tomllib}, mods, open_cms),
                     data=dict(have=have, tomllib=tomllib, importer=importer, mods=mods, tag=_tag(installed=have) + (f"[tomllib={tomllib}]" if fname == "import_toml_loads" else "")), watch={"importer": importer})

    def common(ctx, d):
        tag = d["tag"]
        imps = [e for e in ctx.events if e[0] == "import"]
        if d["tomllib"]:
            ctx.oblige("post", "with-tomllib(standard library)-nothing-else-is-imported" + tag, [e[1] for e in imps] == ["tomllib"])
            return
        ctx.oblige("post", f"exactly-the-module-{module}-is-imported,once" + tag, [e[1] for e in imps] == [module])
        if imps:
            inside = imps[0][2]
            ctx.oblige("post", f"inside-missing_package_raise('{package}', the importer given):a-missing-package-is-reported-under-its-documented-name-and-the-feature's" + tag,
                       len(inside) == 1 and len(inside[0]) == 2 and inside[0][0] == package and inside[0][1] is d["importer"])

    def post(ctx, st, result):
        d = st.data
        tag = d["tag"]
        common(ctx, d)
        ctx.oblige("post", "returns=>the-package-is-installed" + tag, d["have"] or d["tomllib"])
        m = d["mods"]["tomllib" if d["tomllib"] else module]
        g = m.attrs.get
        want = {"module": m, "module+Draft7Validator": (m, g("Draft7Validator")), "dumps": g("dumps"), "loads+error": (g("loads"), g("TOMLDecodeError" if d["tomllib"] else "TomlDecodeError"))}[returns]
        same = (isinstance(result, tuple) and len(result) == len(want) and all(x is y for x, y in zip(result, want))) if isinstance(want, tuple) else result is want
        ctx.oblige("post", f"returns-what-is-documented({returns})-of-the-module-imported" + tag, same)

    def raises(ctx, st, exc):
        d = st.data
        tag = d["tag"]
        common(ctx, d)
        ctx.oblige("raises", f"only-a-missing-package-fails,with-the-ImportError-of-missing_package_raise(never a bare ModuleNotFoundError)(got {exc.cls}@{exc.origin})" + tag,
                   not d["have"] and not d["tomllib"] and exc.cls == "ImportError" and exc.origin == "missing_package_raise")

    return setup, post, raises


# ================================================================================================ get_omegaconf_loader / omegaconf_load
OC_YAML = ["str", "int", "float", "bool", "None", "dict", "list", "YAMLError"]
OC_OMEGA = ["resolved", "null-valued-key-of-the-whole-text", "OmegaConfBaseException"]


def oc_setup(ctx):
    _classes(ctx)
    y = OC_YAML[ctx.choose(len(OC_YAML), "yaml_load")]
    o = OC_OMEGA[ctx.choose(len(OC_OMEGA), "OmegaConf")] if y in ("dict", "list") else "resolved"
    value = z3.String("value")
    yaml_value = {"str": z3.String("yaml-str"), "int": z3.Int("yaml-int"), "float": z3.FP("yaml-float", z3.Float64()), "bool": z3.Bool("yaml-bool"), "None": None, "dict": {"a": z3.Int("a")}, "list": [z3.Int("b")], "YAMLError": None}[y]
    compared = []

    def oc_eq(c, s_, a, k):
        compared.append(a[0])
        return o == "null-valued-key-of-the-whole-text"

    resolved = Rec("OmegaConf's object", methods={"__eq__": oc_eq})
    stream, conf = Rec("StringIO"), Rec("DictConfig")

    def yaml_load(c, a, k):
        c.event("yaml_load", a, dict(k))
        if y == "YAMLError":
            _fail("YAMLError", "yaml_load")
        return yaml_value

    def load(c, a, k):
        c.event("OmegaConf.load", a, dict(k))
        return conf

    def to_object(c, a, k):
        c.event("OmegaConf.to_object", a, dict(k))
        if o == "OmegaConfBaseException":
            _fail("OmegaConfBaseException", "OmegaConf.to_object")
        return resolved

    calls = {"yaml_load": yaml_load, "OmegaConf.load": load, "OmegaConf.to_object": to_object, "io.StringIO": lambda c, a, k: (c.event("StringIO", a, dict(k)), stream)[1]}
    return Setup(env={"value": value}, calls=calls, data=dict(y=y, o=o, value=value, yaml_value=yaml_value, resolved=resolved, stream=stream, conf=conf, compared=compared, tag=_tag(yaml=y, omegaconf=o)))


def _oc_common(ctx, d):
    tag = d["tag"]
    E = lambda n: [e for e in ctx.events if e[0] == n]  # noqa: E731
    yl = E("yaml_load")
    ctx.oblige("post", "YAML-reads-the-unmodified-text-first,once" + tag, len(yl) == 1 and len(yl[0][1]) == 1 and yl[0][1][0] is d["value"] and yl[0][2] == {} and ctx.events[0][0] == "yaml_load")
    container = d["y"] in ("dict", "list")
    sio, ld, to = E("StringIO"), E("OmegaConf.load"), E("OmegaConf.to_object")
    if container:
        ctx.oblige("post", "a-container-is-resolved-by-OmegaConf-from-the-same-unmodified-text,once" + tag,
                   len(sio) == 1 and len(sio[0][1]) == 1 and sio[0][1][0] is d["value"] and len(ld) == 1 and len(ld[0][1]) == 1 and ld[0][1][0] is d["stream"] and len(to) == 1 and len(to[0][1]) == 1 and to[0][1][0] is d["conf"])
    else:
        ctx.oblige("post", "a-scalar,a-null-or-a-text-YAML-refuses:OmegaConf-does-not-run" + tag, not sio and not ld and not to)


def oc_post(ctx, st, result):
    d = st.data
    tag = d["tag"]
    _oc_common(ctx, d)
    ctx.oblige("post", "returns=>YAML-read-the-text-and-OmegaConf-resolved-it" + tag, d["y"] != "YAMLError" and d["o"] != "OmegaConfBaseException")
    if d["y"] in ("dict", "list") and d["o"] == "resolved":
        ctx.oblige("post", "a-container-is-returned-as-OmegaConf-resolved-it" + tag, result is d["resolved"])
    else:
        ctx.oblige("post", "a-scalar-or-null-is-returned-as-YAML-read-it(a JSON scalar reads as under the yaml mode);so-is-a-text-OmegaConf-turned-into-a-single-null-valued-key" + tag, result is d["yaml_value"])
    if d["y"] in ("dict", "list"):
        cmp_ = d["compared"]
        ok = len(cmp_) == 1 and isinstance(cmp_[0], dict) and len(cmp_[0]) == 1 and list(cmp_[0].values()) == [None] and all((k.term if hasattr(k, "term") else k) is d["value"] for k in cmp_[0])
        ctx.oblige("post", "OmegaConf's-result-is-compared-with-{the whole text: None}-only" + tag, ok)


def oc_raises(ctx, st, exc):
    d = st.data
    _oc_common(ctx, d)
    # set_omegaconf_loader registers the loader with yaml's exceptions: only those may leave (C03)
    ctx.oblige("raises", f"only-yaml's-announced-failure-leaves,unchanged(got {exc.cls}@{exc.origin})" + d["tag"], d["y"] == "YAMLError" and exc.cls == "YAMLError" and exc.origin == "yaml_load")


def ol_setup(ctx):
    _classes(ctx)
    have = ctx.choose(2, "omegaconf-installed") == 1
    open_cms = []
    mods = {"omegaconf": Rec("module:omegaconf", attrs={"OmegaConf": Rec("OmegaConf class")}), "io": Rec("module:io")}
    return Setup(env={}, calls={"yaml_load": lambda c, a, k: None}, cms={"missing_package_raise": missing_package_cm(open_cms)}, hooks=import_hooks({"omegaconf": have}, mods, open_cms),
                 data=dict(have=have, tag=_tag(installed=have)))


def _ol_common(ctx, d):
    imps = [e for e in ctx.events if e[0] == "import" and e[1] == "omegaconf"]
    ctx.oblige("post", "omegaconf-is-imported-inside-missing_package_raise('omegaconf', 'get_omegaconf_loader')" + d["tag"], len(imps) == 1 and list(imps[0][2]) == [("omegaconf", "get_omegaconf_loader")])


def ol_post(ctx, st, result):
    from pyvc.engine import Closure
    d = st.data
    _ol_common(ctx, d)
    ctx.oblige("post", "returns=>installed;the-result-is-the-loader-function-defined-here(one parameter: the text)" + d["tag"],
               d["have"] and isinstance(result, Closure) and result.name == "omegaconf_load" and [a.arg for a in result.node.args.args] == ["value"])


def ol_raises(ctx, st, exc):
    d = st.data
    _ol_common(ctx, d)
    ctx.oblige("raises", f"only-a-missing-omegaconf-fails,with-the-ImportError-naming-it(got {exc.cls}@{exc.origin})" + d["tag"], not d["have"] and exc.cls == "ImportError" and exc.origin == "missing_package_raise")


# ================================================================================================ docstring helpers
def pd_setup(ctx):
    _classes(ctx)
    have = ctx.choose(2, "docstring-parser-installed") == 1
    params = [None, False, True][ctx.choose(3, "params(omitted / False / True)")] if have else None
    attr_docs = ctx.choose(2, "attribute_docstrings-option") == 1 if have else False
    fate = ["parsed", "ParseError", "ValueError"][ctx.choose(3, "docstring_parser")] if have else "parsed"
    doc_kind = ["text", "None"][ctx.choose(2, "__doc__")] if have else "text"
    with_logger = ctx.choose(2, "logger") == 1 if have else False
    docstring = z3.String("docstring") if doc_kind == "text" else None
    component = Rec("function", attrs={"__doc__": docstring})
    style, parsed = Rec("style"), Rec("Docstring")
    options = {"style": style, "attribute_docstrings": attr_docs}

    def run(name):
        def f(c, a, k):
            c.event(name, a, dict(k))
            if fate != "parsed":
                _fail(fate, name)
            return parsed
        return f

    def imp(c, a, k):
        c.event("import_docstring_parser", a)
        if not have:
            _fail("ImportError", "import_docstring_parser")
        return Rec("module docstring_parser")

    calls = {"import_docstring_parser": imp, "get_docstring_parse_options": lambda c, a, k: options, "dp.parse": run("dp.parse"), "dp.parse_from_object": run("dp.parse_from_object")}
    env = {"component": component}
    if params is not None:
        env["params"] = params
    if with_logger:
        env["logger"] = Rec("logger")
    return Setup(env=env, calls=calls, consts={"dp.ParseError": ClassRef("ParseError")}, drop_calls=("logger.debug",),
                 data=dict(have=have, params=bool(params), attr_docs=attr_docs, fate=fate, docstring=docstring, component=component, style=style, parsed=parsed, options=options, options_before=dict(options),
                           tag=_tag(installed=have, params=params, attribute_docstrings=attr_docs, parser=fate, doc=doc_kind, logger=with_logger)))


def pd_post(ctx, st, result):
    d = st.data
    tag = d["tag"]
    ctx.oblige("post", "returns=>docstring-parser-is-installed" + tag, d["have"])
    runs = [e for e in ctx.events if e[0].startswith("dp.")]
    whole = d["params"] and d["attr_docs"]
    ok = len(runs) == 1 and runs[0][0] == ("dp.parse_from_object" if whole else "dp.parse") and len(runs[0][1]) == 1 and runs[0][2].get("style") is d["style"] and set(runs[0][2]) == {"style"}
    ok = ok and (runs[0][1][0] is d["component"] if whole else runs[0][1][0] is d["docstring"])
    ctx.oblige("post", "docstring_parser-reads-exactly-the-component's-__doc__(the object itself only for parameters with attribute docstrings enabled),once,with-the-configured-style" + tag, ok)
    ctx.oblige("post", "the-parsed-docstring-is-returned-as-is;a-docstring-that-cannot-be-parsed(ParseError / ValueError)-gives-None" + tag, result is (d["parsed"] if d["fate"] == "parsed" else None))
    ctx.oblige("frame", "options-and-component-are-not-modified" + tag, d["options"] == d["options_before"] and set(d["component"].attrs) == {"__doc__"})


def pd_raises(ctx, st, exc):
    d = st.data
    ctx.oblige("raises", f"only-a-missing-docstring-parser-fails(callers check docstring_parser_support first: their units)(got {exc.cls}@{exc.origin})" + d["tag"], not d["have"] and exc.cls == "ImportError" and exc.origin == "import_docstring_parser")


def _doc(short):
    return Rec("Docstring", attrs={"short_description": short})


def sd_setup(ctx):
    support = ctx.choose(2, "docstring_parser_support") == 1
    kind = ["function", "class"][ctx.choose(2, "function_or_class")]
    method = [None, "", "fit"][ctx.choose(3, "method_name(omitted or None / '' / 'fit')")] if kind == "class" else None
    omit = ctx.choose(2, "method_name-omitted") == 1 if method is None else False
    texts = {n: z3.String(f"short-description-of-{n}") for n in ("own", "__init__", "fit")}
    init, fit = Rec("function", attrs={"__name__": "__init__"}), Rec("function", attrs={"__name__": "fit"})
    target = Rec("class", attrs={"__init__": init, "fit": fit}) if kind == "class" else Rec("function", attrs={"__name__": "f"})
    names = {id(target): "own", id(init): "__init__", id(fit): "fit"}
    fates = {}
    logger = Rec("logger")

    def parse_docstring(c, a, k):
        c.event("parse_docstring", a, dict(k))
        n = names.get(id(a[0])) if a else None
        if n is None:
            raise Unsupported("docstring of another object is parsed")
        if n not in fates:
            fates[n] = ["described", "no-short-description", "unparsable"][c.choose(3, f"docstring-of-{n}")]
        return {"described": _doc(texts[n]), "no-short-description": _doc(None), "unparsable": None}[fates[n]]

    calls = {"parse_docstring": parse_docstring, "inspect.isclass": lambda c, a, k: a[0] is target and kind == "class"}
    env = {"function_or_class": target, "logger": logger}
    if not omit:
        env["method_name"] = method
    return Setup(env=env, calls=calls, consts={"docstring_parser_support": support},
                 data=dict(support=support, kind=kind, method=method, texts=texts, target=target, init=init, fit=fit, fates=fates, logger=logger, tag=_tag(support=support, of=kind, method=repr(method), omitted=omit)), watch=dict(texts))


def sd_post(ctx, st, result):
    d = st.data
    tag = d["tag"] + "[" + ",".join(f"{k}:{v}" for k, v in d["fates"].items()) + "]"
    ev = [e for e in ctx.events if e[0] == "parse_docstring"]
    ctx.oblige("post", "the-result-is-None-or-a-text" + tag, result is None or (is_z3(result) and result.sort() == S))
    if not d["support"]:
        ctx.oblige("post", "without-docstring-parser:None,and-no-docstring-is-read" + tag, result is None and not ev)
        return
    f, t = d["fates"], d["texts"]

    def desc(n):
        return t[n] if f.get(n) == "described" else None

    if d["kind"] == "function":
        want, reads = [desc("own")], ["own"]
    elif d["method"] == "fit":
        want, reads = [desc("fit")], ["fit"]
    else:
        # a class: its own short description if it has a non-empty one, else that of __init__
        own = desc("own")
        want = [own, desc("__init__")] if own is not None else [desc("__init__")]
        reads = None
    if len(want) == 1:
        ctx.oblige("post", "a-function's-own-short-description;for-a-class-with-a-method-name-that-method's;None-when-there-is-none-or-the-docstring-is-unparsable" + tag, result is want[0])
    else:
        empty = want[0] == SV("")
        ctx.oblige("post", "a-class-without-method-name:its-own-short-description-if-it-has-a-non-empty-one,else-that-of-__init__" + tag,
                   z3.Not(empty) if result is want[0] else (empty if result is want[1] else False), strings=True)
    if reads is not None:
        objs = {"own": d["target"], "fit": d["fit"]}
        ctx.oblige("post", "exactly-that-docstring-is-read,once" + tag, len(ev) == 1 and ev[0][1][0] is objs[reads[0]])
    ctx.oblige("post", "docstrings-are-read-for-the-description-only(params=False),with-the-logger-given" + tag,
               all(len(e[1]) == 1 and e[2].get("params") is False and e[2].get("logger") is d["logger"] and set(e[2]) == {"params", "logger"} for e in ev))


def ps_setup(ctx):
    support = ctx.choose(2, "docstring_parser_support") == 1
    shape = ["function,no-parent", "__init__-of-a-class", "other-method-of-a-class", "__init__-with-non-class-parent"][ctx.choose(4, "component/parent")]
    name = "__init__" if "__init__" in shape else "run"
    component = Rec("function", attrs={"__name__": name})
    parent = None if shape == "function,no-parent" else Rec("class" if "non-class" not in shape else "module")
    shared = z3.String("param-shared")
    n1, n4 = z3.String("param-of-component"), z3.String("param-of-class")
    ctx.assume(z3.Distinct(shared, n1, n4))
    ds = [z3.String(f"description{i}") for i in range(4)]
    P = lambda n, t: Rec("DocstringParam", attrs={"arg_name": n, "description": t})  # noqa: E731
    docs = {id(component): [P(n1, ds[0]), P(shared, ds[1])], id(parent): [P(shared, ds[2]), P(n4, ds[3])]}
    fates = {}
    logger = Rec("logger")

    def parse_docstring(c, a, k):
        c.event("parse_docstring", a, dict(k))
        if not a or id(a[0]) not in docs or a[0] is None:
            raise Unsupported("docstring of another object is parsed")
        key = "component" if a[0] is component else "parent"
        if key not in fates:
            fates[key] = ["parsed", "unparsable"][c.choose(2, f"docstring-of-{key}")]
        return Rec("Docstring", attrs={"params": docs[id(a[0])]}) if fates[key] == "parsed" else None

    calls = {"parse_docstring": parse_docstring, "inspect.isclass": lambda c, a, k: isinstance(a[0], Rec) and a[0].cls == "class"}
    return Setup(env={"component": component, "parent": parent, "logger": logger}, calls=calls, consts={"docstring_parser_support": support},
                 data=dict(support=support, shape=shape, component=component, parent=parent, names=(n1, shared, n4), ds=ds, fates=fates, logger=logger, tag=_tag(support=support, shape=shape)))


def ps_post(ctx, st, result):
    d = st.data
    tag = d["tag"] + "[" + ",".join(f"{k}:{v}" for k, v in d["fates"].items()) + "]"
    ev = [e for e in ctx.events if e[0] == "parse_docstring"]
    ctx.oblige("post", "the-result-is-a-mapping" + tag, isinstance(result, dict))
    if not isinstance(result, dict):
        return
    if not d["support"]:
        ctx.oblige("post", "without-docstring-parser:{}-and-no-docstring-is-read" + tag, result == {} and not ev)
        return
    n1, shared, n4 = d["names"]
    ds = d["ds"]
    use_parent = d["shape"] == "__init__-of-a-class"
    srcs = [d["component"]] + ([d["parent"]] if use_parent else [])
    ctx.oblige("post", "the-docstring-of-the-component-is-read,and-the-class's-too-exactly-when-the-component-is-its-__init__;each-once,for-parameters,with-the-logger" + tag,
               len(ev) == len(srcs) and all(e[1][0] is s_ and len(e[1]) == 1 and e[2] == {"params": True, "logger": d["logger"]} for e, s_ in zip(ev, srcs)))
    comp_ok = d["fates"].get("component") == "parsed"
    par_ok = use_parent and d["fates"].get("parent") == "parsed"
    allowed = {}
    if comp_ok:
        allowed[n1] = [ds[0]]
        allowed[shared] = [ds[1]]
    if par_ok:
        allowed.setdefault(shared, []).append(ds[2])
        allowed[n4] = [ds[3]]
    got = {(k.term if hasattr(k, "term") else k): v for k, v in result.items()}
    ok = len(got) == len(allowed) and all(any(k is n for n in allowed) for k in got) and all(any(v is x for x in allowed[next(n for n in allowed if n is k)]) for k, v in got.items() if any(k is n for n in allowed))
    ctx.oblige("post", "every-parameter-a-parsable-source-documents-gets-a-description-that-source-gives-for-it;an-unparsable-docstring-contributes-nothing;nothing-is-invented" + tag, ok)
    ctx.oblige("frame", "component-and-class-are-not-modified" + tag, set(d["component"].attrs) == {"__name__"} and (d["parent"] is None or d["parent"].attrs == {}))


def so_setup(ctx):
    have = ctx.choose(2, "docstring-parser-installed") == 1
    style_kind = ["omitted", "None", "a-DocstringStyle", "a-string"][ctx.choose(4, "style")]
    attr_kind = ["omitted", "None", "a-bool", "an-int", "a-string"][ctx.choose(5, "attribute_docstrings")]
    ctx.classes.add("DocstringStyle", ["object"])
    style = {"a-DocstringStyle": Rec("DocstringStyle"), "a-string": "google"}.get(style_kind)
    attr = {"a-bool": z3.Bool("attribute_docstrings"), "an-int": 1, "a-string": "yes"}.get(attr_kind)
    old_style, old_attr = Rec("DocstringStyle", attrs={"old": True}), z3.Bool("old-attribute_docstrings")
    options = {"style": old_style, "attribute_docstrings": old_attr}

    def imp(c, a, k):
        c.event("import_docstring_parser", a)
        if not have:
            _fail("ImportError", "import_docstring_parser")
        return Rec("module docstring_parser")

    env = {}
    if style_kind != "omitted":
        env["style"] = style
    if attr_kind != "omitted":
        env["attribute_docstrings"] = attr
    return Setup(env=env, calls={"import_docstring_parser": imp}, consts={"_docstring_parse_options": options, "dp.DocstringStyle": ClassRef("DocstringStyle")},
                 data=dict(have=have, style_kind=style_kind, attr_kind=attr_kind, style=style, attr=attr, old_style=old_style, old_attr=old_attr, options=options, tag=_tag(installed=have, style=style_kind, attribute_docstrings=attr_kind)))


def _so_state(d):
    o = d["options"]
    return set(o) == {"style", "attribute_docstrings"}, o.get("style"), o.get("attribute_docstrings")


def so_post(ctx, st, result):
    d = st.data
    tag = d["tag"]
    shape, style, attr = _so_state(d)
    ctx.oblige("post", "accepted=>docstring-parser-installed,the-style-is-a-DocstringStyle-or-not-given,attribute_docstrings-a-boolean-or-not-given" + tag,
               d["have"] and d["style_kind"] in ("omitted", "None", "a-DocstringStyle") and d["attr_kind"] in ("omitted", "None", "a-bool"))
    ctx.oblige("post", "exactly-the-options-given-are-changed(an option not given or None keeps its value);no-option-is-added" + tag,
               shape and style is (d["style"] if d["style_kind"] == "a-DocstringStyle" else d["old_style"]) and attr is (d["attr"] if d["attr_kind"] == "a-bool" else d["old_attr"]))


def so_raises(ctx, st, exc):
    d = st.data
    tag = d["tag"]
    shape, style, attr = _so_state(d)
    got = f"(got {exc.cls}@{exc.origin})"
    if not d["have"]:
        ctx.oblige("raises", "a-missing-docstring-parser-is-reported-by-ImportError" + got + tag, exc.cls == "ImportError" and exc.origin == "import_docstring_parser")
    else:
        ctx.oblige("raises", "only-an-invalid-option-is-refused,with-ValueError" + got + tag, exc.cls == "ValueError" and (d["style_kind"] == "a-string" or d["attr_kind"] in ("an-int", "a-string")))
        ctx.oblige("raises", "an-invalid-value-is-never-stored" + tag, shape and style is not d["style"] if d["style_kind"] == "a-string" else True)
        ctx.oblige("raises", "an-invalid-attribute_docstrings-is-never-stored" + tag, attr is d["old_attr"])
    if not d["have"]:
        ctx.oblige("frame", "refused-before-anything-is-stored" + tag, shape and style is d["old_style"] and attr is d["old_attr"])


def go_setup(ctx):
    unset = ctx.choose(2, "style-unset") == 1
    have = ctx.choose(2, "docstring-parser-installed") == 1 if unset else True
    auto, old = Rec("DocstringStyle.AUTO"), Rec("a style set before")
    options = {"style": None if unset else old, "attribute_docstrings": z3.Bool("attribute_docstrings")}
    dp = Rec("module docstring_parser", attrs={"DocstringStyle": Rec("DocstringStyle class", attrs={"AUTO": auto})})

    def imp(c, a, k):
        c.event("import_docstring_parser", a)
        if not have:
            _fail("ImportError", "import_docstring_parser")
        return dp

    return Setup(env={}, calls={"import_docstring_parser": imp}, consts={"_docstring_parse_options": options}, data=dict(unset=unset, have=have, auto=auto, old=old, options=options, attr=options["attribute_docstrings"], tag=_tag(unset=unset, installed=have)))


def go_post(ctx, st, result):
    d = st.data
    ctx.oblige("post", "the-options-table-itself-is-returned;an-unset-style-becomes-DocstringStyle.AUTO,a-set-one-stays;attribute_docstrings-stays" + d["tag"],
               result is d["options"] and set(result) == {"style", "attribute_docstrings"} and result["style"] is (d["auto"] if d["unset"] else d["old"]) and result["attribute_docstrings"] is d["attr"])
    ctx.oblige("post", "docstring-parser-is-needed-only-for-an-unset-style" + d["tag"], len(ctx.events) == (1 if d["unset"] else 0))


def go_raises(ctx, st, exc):
    d = st.data
    ctx.oblige("raises", f"only-a-missing-docstring-parser-with-an-unset-style-fails(ImportError)(got {exc.cls}@{exc.origin})" + d["tag"], d["unset"] and not d["have"] and exc.cls == "ImportError")


# ================================================================================================ _deprecated: the error handler
EH_VALUES = ["False", "None", "a-function", "a-callable-object", "a-string", "a-number", "True"]


def eh_setup(ctx):
    kind = EH_VALUES[ctx.choose(len(EH_VALUES), "error_handler")]
    from_init = ctx.choose(2, "set-from-__init__") == 1
    fn = Rec("function")
    value = {"False": False, "None": None, "a-function": fn, "a-callable-object": Rec("callable object", methods={"__call__": lambda c, s_, a, k: None}), "a-string": "usage_and_exit_error_handler", "a-number": 3, "True": True}[kind]
    old = Rec("handler stored before")
    self = Rec("ArgumentParser", attrs={"_error_handler": old, "other": 1})
    frame = Rec("FrameInfo", attrs={"filename": "/site-packages/jsonargparse/_deprecated.py" if from_init else "/home/user/app.py"})
    calls = {"inspect.stack": lambda c, a, k: [Rec("FrameInfo", attrs={"filename": "/site-packages/jsonargparse/_deprecated.py"}), frame],
             "callable": lambda c, a, k: kind in ("a-function", "a-callable-object"),
             "os.fspath": lambda c, a, k: "jsonargparse/_deprecated.py", "Path": lambda c, a, k: Rec("pathlib.Path"),
             "deprecation_warning_error_handler": lambda c, a, k: c.event("deprecation-warning", a, dict(k))}
    return Setup(env={"self": self, "error_handler": value}, calls=calls, data=dict(kind=kind, value=value, old=old, self=self, from_init=from_init, tag=_tag(value=kind, from_init=from_init)))


def _eh_common(ctx, d):
    w = [e for e in ctx.events if e[0] == "deprecation-warning"]
    ctx.oblige("post", "the-deprecation-warning-is-issued-exactly-for-a-value-other-than-False(the default),once,pointing-at-the-caller" + d["tag"],
               len(w) == (0 if d["kind"] == "False" else 1) and all(e[1] == ((5 if d["from_init"] else 2),) and e[2] == {} for e in w))
    ctx.oblige("frame", "nothing-but-the-handler-is-written" + d["tag"], set(d["self"].attrs) == {"_error_handler", "other"} and d["self"].attrs["other"] == 1)


def eh_post(ctx, st, result):
    d = st.data
    _eh_common(ctx, d)
    ctx.oblige("post", "accepted=>a-callable,None-or-False;it-is-stored-as-given(what ArgumentParser.error calls)" + d["tag"],
               d["kind"] in ("False", "None", "a-function", "a-callable-object") and d["self"].attrs["_error_handler"] is d["value"])


def eh_raises(ctx, st, exc):
    d = st.data
    _eh_common(ctx, d)
    # True == 1 is hashable and not in {None, False}: refused like any other non-callable
    ctx.oblige("raises", f"anything-else-is-refused-with-ValueError(got {exc.cls}@{exc.origin})" + d["tag"], exc.cls == "ValueError" and d["kind"] in ("a-string", "a-number", "True"))
    ctx.oblige("frame", "a-refused-value-is-not-stored:the-handler-stays" + d["tag"], d["self"].attrs["_error_handler"] is d["old"])


def ue_setup(ctx):
    prog, message = ["prog", "my tool.py"][ctx.choose(2, "prog")], ["boom", "100% wrong: %s"][ctx.choose(2, "message")]
    stderr = Rec("sys.stderr", methods={"write": lambda c, s_, a, k: c.event("stderr.write", a, dict(k))})
    exits = ctx.choose(2, "parser.exit-is-overridden-to-return") == 1

    def exit_(c, s_, a, k):
        c.event("exit", a, dict(k))
        if not exits:
            raise PyRaise(ExcVal("SystemExit", args=tuple(a), origin="parser.exit"))

    parser = Rec("ArgumentParser", attrs={"prog": prog}, methods={"print_usage": lambda c, s_, a, k: c.event("print_usage", a, dict(k)), "exit": exit_})
    return Setup(env={"parser": parser, "message": message}, consts={"sys.stderr": stderr}, data=dict(prog=prog, message=message, stderr=stderr, parser=parser, exits=exits, tag=_tag(exit_returns=exits, prog=prog, message=message)))


def _ue_common(ctx, d):
    ev = ctx.events
    ok = [e[0] for e in ev] == ["print_usage", "stderr.write", "exit"]
    ctx.oblige("post", "usage,then-the-error-line,then-exit:in-this-order,each-once,nothing-else" + d["tag"], ok)
    if not ok:
        return
    ctx.oblige("post", "the-usage-goes-to-stderr" + d["tag"], len(ev[0][1]) == 1 and ev[0][1][0] is d["stderr"] and ev[0][2] == {})
    text = ev[1][1][0] if len(ev[1][1]) == 1 else None
    ctx.oblige("post", "the-error-line-is-'<prog>: error: <message>'-plus-a-newline(a % in the message is kept)" + d["tag"], text == d["prog"] + ": error: " + d["message"] + "\n")
    ctx.oblige("post", "the-exit-status-is-2(same as argparse)" + d["tag"], ev[2][1] == (2,) and ev[2][2] == {})


def ue_post(ctx, st, result):
    _ue_common(ctx, st.data)
    ctx.oblige("post", "returns-only-when-parser.exit-returns(an overridden exit)" + st.data["tag"], st.data["exits"] and result is None)


def ue_raises(ctx, st, exc):
    _ue_common(ctx, st.data)
    ctx.oblige("raises", f"only-the-SystemExit-of-parser.exit(got {exc.cls}@{exc.origin})" + st.data["tag"], exc.cls == "SystemExit" and exc.origin == "parser.exit" and not st.data["exits"])


# ================================================================================================ ActionJsonnet.__init__ / _check_ext_vars_action
JI_EXT = ["omitted", "None", "a-string", "an-int", "a-list"]
JI_SCHEMA = ["omitted", "None", "a-dict", "a-readable-text", "an-unreadable-text", "an-invalid-schema"]


def ji_setup(ctx):
    _classes(ctx)
    ctx.classes.add("SchemaError", ["Exception"])
    declared = ctx.choose(2, "created-by(the user: configuration / the factory: declaration)") == 1
    self = Rec("ActionJsonnet")
    inited, open_cms = [], []
    if declared:
        key, validator = z3.String("ext_vars-key"), Rec("validator")
        kwargs = {"_ext_vars": key, "_validator": validator, "option_strings": ["--j"], "dest": "j"}
        calls = {"super": lambda c, a, k: Rec("super()", methods={"__init__": lambda c2, s2, a2, k2: inited.append((a2, dict(k2)))}),
                 "import_jsonnet": lambda c, a, k: c.event("import_jsonnet", a)}
        return Setup(env={"self": self, "kwargs": kwargs}, calls=calls, data=dict(declared=True, self=self, key=key, validator=validator, inited=inited, tag=_tag(by="factory")))
    installed = ctx.choose(2, "jsonnet-installed") == 1
    ext = JI_EXT[ctx.choose(len(JI_EXT), "ext_vars")] if installed else "omitted"
    sch = JI_SCHEMA[ctx.choose(len(JI_SCHEMA), "schema")] if installed and ext in ("omitted", "None", "a-string") else "omitted"
    pyyaml = ctx.choose(2, "pyyaml_available") == 1 if sch in ("a-readable-text", "an-unreadable-text") else True
    key = z3.String("ext_vars-key")
    ext_v = {"None": None, "a-string": key, "an-int": z3.Int("n"), "a-list": [key]}.get(ext)
    schema_text, loaded_schema, schema_dict = z3.String("schema-text"), {"type": "object"}, {"type": "array"}
    schema_v = {"None": None, "a-dict": schema_dict, "an-invalid-schema": schema_dict, "a-readable-text": schema_text, "an-unreadable-text": schema_text}.get(sch)
    validator, jv = Rec("validator"), Rec("Draft7Validator")
    announced = "YAMLError" if pyyaml else "ValueError"

    def imp(c, a, k):
        c.event("import_jsonnet", a)
        if not installed:
            _fail("ImportError", "import_jsonnet")
        return Rec("module _jsonnet")

    def load_value(c, a, k):
        c.event("load_value", a, dict(k), [dict(x) for x in open_cms])
        if sch == "an-unreadable-text":
            _fail(announced, "load_value")
        return loaded_schema

    def check_schema(c, a, k):
        c.event("check_schema", a, dict(k))
        if sch == "an-invalid-schema":
            _fail("SchemaError", "check_schema")

    extended = Rec("extended validator class", methods={"__call__": lambda c, s_, a, k: (c.event("build-validator", a, dict(k)), validator)[1]})
    calls = {"import_jsonnet": imp, "import_jsonschema": lambda c, a, k: (c.event("import_jsonschema", a), (Rec("module jsonschema"), jv))[1], "load_value": load_value,
             "get_loader_exceptions": lambda c, a, k: (c.event("get_loader_exceptions", a), (ClassRef(announced),))[1], "jsonvalidator.check_schema": check_schema,
             "ActionJsonSchema._extend_jsonvalidator_with_default": lambda c, a, k: (c.event("extend", a, dict(k)), extended)[1],
             "super": lambda c, a, k: Rec("super()", methods={"__init__": lambda c2, s2, a2, k2: inited.append((a2, dict(k2)))})}
    cms = {"parser_context": (lambda c, a, k: open_cms.append(dict(k)), lambda c, t, e: (open_cms.pop(), False)[1])}
    env = {"self": self, "kwargs": {}}
    if ext != "omitted":
        env["ext_vars"] = ext_v
    if sch != "omitted":
        env["schema"] = schema_v
    return Setup(env=env, calls=calls, cms=cms, consts={"pyyaml_available": pyyaml, "NoneType": ClassRef("NoneType")},
                 data=dict(declared=False, self=self, installed=installed, ext=ext, sch=sch, pyyaml=pyyaml, ext_v=ext_v, schema_v=schema_v, schema_text=schema_text, loaded_schema=loaded_schema, schema_dict=schema_dict,
                           validator=validator, jv=jv, announced=announced, inited=inited, tag=_tag(by="user", installed=installed, ext_vars=ext, schema=sch, pyyaml=pyyaml)))


def ji_post(ctx, st, result):
    d = st.data
    tag = d["tag"]
    a = d["self"].attrs
    if d["declared"]:
        ctx.oblige("post", "a-declaration-keeps-the-configured-ext_vars-key-and-validator;nothing-is-imported-or-checked-again" + tag, set(a) == {"_ext_vars", "_validator"} and a["_ext_vars"] is d["key"] and a["_validator"] is d["validator"] and not ctx.events)
        ctx.oblige("post", "argparse's-initialiser-runs-once-with-the-declaration-keywords-only(the private keywords are kept off argparse)" + tag,
                   len(d["inited"]) == 1 and d["inited"][0][0] == () and d["inited"][0][1] == {"option_strings": ["--j"], "dest": "j"})
        return
    E = lambda n: [e for e in ctx.events if e[0] == n]  # noqa: E731
    ctx.oblige("post", "accepted=>jsonnet-installed,ext_vars-None-or-a-string,schema-readable-and-valid" + tag, d["installed"] and d["ext"] in ("omitted", "None", "a-string") and d["sch"] not in ("an-unreadable-text", "an-invalid-schema"))
    ctx.oblige("post", "the-jsonnet-package-is-looked-for-first,naming-ActionJsonnet" + tag, bool(ctx.events) and ctx.events[0] == ("import_jsonnet", ("ActionJsonnet",)))
    ctx.oblige("post", "the-ext_vars-key-is-kept-as-given(None when omitted)" + tag, "_ext_vars" in a and a["_ext_vars"] is d["ext_v"])
    ctx.oblige("post", "a-configuration-does-not-run-argparse's-initialiser(the factory call does)" + tag, not d["inited"])
    if d["sch"] in ("omitted", "None"):
        ctx.oblige("post", "without-a-schema-there-is-no-validator-and-jsonschema-is-not-needed" + tag, a.get("_validator", "missing") is None and not E("import_jsonschema") and not E("check_schema"))
        return
    the_schema = d["loaded_schema"] if d["sch"] == "a-readable-text" else d["schema_dict"]
    cs, bv, ex, lv = E("check_schema"), E("build-validator"), E("extend"), E("load_value")
    ctx.oblige("post", "a-schema-text-is-read-once-as-YAML(JSON without PyYAML);a-mapping-is-taken-as-given" + tag,
               (len(lv) == 1 and lv[0][1] == (d["schema_text"],) and lv[0][3] == [{"load_value_mode": "yaml" if d["pyyaml"] else "json"}]) if d["sch"] == "a-readable-text" else not lv)
    ctx.oblige("post", "the-schema-is-checked-before-the-validator-is-built-from-exactly-it(Draft7, extended with defaults);that-validator-is-kept" + tag,
               len(cs) == 1 and cs[0][1] == (the_schema,) and cs[0][1][0] is the_schema and len(ex) == 1 and ex[0][1] == (d["jv"],) and len(bv) == 1 and len(bv[0][1]) == 1 and bv[0][1][0] is the_schema
               and a.get("_validator") is d["validator"] and ctx.events.index(cs[0]) < ctx.events.index(bv[0]))
    ctx.oblige("post", "jsonschema-is-looked-for-naming-ActionJsonnet" + tag, E("import_jsonschema") == [("import_jsonschema", ("ActionJsonnet",))])


def ji_raises(ctx, st, exc):
    d = st.data
    tag = d["tag"]
    got = f"(got {exc.cls}@{exc.origin})"
    if d["declared"]:
        ctx.oblige("raises", "a-declaration-by-the-factory-does-not-fail" + got + tag, False)
        return
    if not d["installed"]:
        ctx.oblige("raises", "a-missing-jsonnet-package-is-reported-by-the-ImportError-of-import_jsonnet" + got + tag, exc.cls == "ImportError" and exc.origin == "import_jsonnet")
    elif d["ext"] in ("an-int", "a-list"):
        ctx.oblige("raises", "an-ext_vars-that-is-neither-None-nor-a-string-is-refused-with-ValueError" + got + tag, exc.cls == "ValueError" and exc.origin.startswith("raise@"))
    elif d["sch"] == "an-unreadable-text":
        ctx.oblige("raises", "a-schema-text-that-cannot-be-read-is-refused-with-ValueError(cause kept)" + got + tag, exc.cls == "ValueError" and exc.origin.startswith("raise@") and isinstance(exc.cause, ExcVal) and exc.cause.origin == "load_value")
    else:
        ctx.oblige("raises", "otherwise-only-an-invalid-schema-fails,with-jsonschema's-SchemaError(documented)" + got + tag, d["sch"] == "an-invalid-schema" and exc.cls == "SchemaError")
    ctx.oblige("frame", "a-refused-configuration-has-no-validator-and-did-not-reach-argparse" + tag, "_validator" not in d["self"].attrs and not d["inited"])


DICT, TDICT = ClassRef("dict"), ClassRef("Dict")
CE_ACTION = ["jsonnet-with-key", "jsonnet-key-None", "jsonnet-key-empty", "other-action"]
CE_FOUND = ["none", "typehint-dict", "typehint-Dict", "typehint-other", "not-a-typehint-action"]
CE_DEFAULT = ["None", "a-dict", "a-string"]


def ce_setup(ctx):
    kind = CE_ACTION[ctx.choose(len(CE_ACTION), "action")]
    found = CE_FOUND[ctx.choose(len(CE_FOUND), "argument-found-for-the-key")] if kind == "jsonnet-with-key" else "none"
    dflt = CE_DEFAULT[ctx.choose(len(CE_DEFAULT), "its-default")] if found in ("typehint-dict", "typehint-Dict") else "None"
    key = z3.String("ext_vars-key")
    ctx.assume(z3.Length(key) > 0)
    action = Rec("ActionJsonnet", attrs={"_ext_vars": {"jsonnet-with-key": key, "jsonnet-key-None": None, "jsonnet-key-empty": ""}[kind], "dest": "j"}) if kind != "other-action" else Rec("ActionTypeHint", attrs={"dest": "x"})
    the_dict = {"a": z3.Int("a")}
    default = {"None": None, "a-dict": the_dict, "a-string": "x"}[dflt]
    target = None
    if found.startswith("typehint"):
        target = Rec("ActionTypeHint", attrs={"_typehint": {"typehint-dict": DICT, "typehint-Dict": TDICT, "typehint-other": ClassRef("int")}[found], "default": default, "dest": "ev"})
    elif found == "not-a-typehint-action":
        target = Rec("_StoreAction", attrs={"default": None, "dest": "ev"})
        ctx.classes.add("_StoreAction", ["Action"])
    parser = Rec("ArgumentParser", attrs={"t": 1})
    calls = {"_find_action": lambda c, a, k: (c.event("_find_action", a, dict(k)), target)[1]}
    return Setup(env={"parser": parser, "action": action}, calls=calls, consts={"Dict": TDICT},
                 data=dict(kind=kind, found=found, dflt=dflt, key=key, action=action, action_before=dict(action.attrs), target=target, target_before=None if target is None else dict(target.attrs), the_dict=the_dict, parser=parser,
                           tag=_tag(action=kind, found=found, default=dflt)))


def _ce_lookup(ctx, d):
    ev = [e for e in ctx.events if e[0] == "_find_action"]
    if d["kind"] == "jsonnet-with-key":
        ctx.oblige("post", "the-argument-is-looked-up-once,in-the-parser-given,under-exactly-the-ext_vars-key" + d["tag"], len(ev) == 1 and len(ev[0][1]) == 2 and ev[0][1][0] is d["parser"] and ev[0][1][1] is d["key"] and ev[0][2] == {})
    else:
        ctx.oblige("post", "another-action-or-a-jsonnet-action-without-ext_vars-key:nothing-is-looked-up" + d["tag"], not ev)
    ctx.oblige("frame", "parser-and-jsonnet-action-are-not-modified" + d["tag"], d["parser"].attrs == {"t": 1} and d["action"].attrs == d["action_before"])


def ce_post(ctx, st, result):
    d = st.data
    tag = d["tag"]
    _ce_lookup(ctx, d)
    t = d["target"]
    if d["kind"] != "jsonnet-with-key":
        ctx.oblige("post", "nothing-happens" + tag, result is None and not ctx.mutlog)
        return
    ctx.oblige("post", "accepted=>a-dict-typed-argument-of-that-name-exists-and-its-default-is-a-dict-or-None" + tag, d["found"] in ("typehint-dict", "typehint-Dict") and d["dflt"] in ("None", "a-dict"))
    if t is None:
        return
    want_default_ok = (t.attrs.get("default") is d["the_dict"]) if d["dflt"] == "a-dict" else (isinstance(t.attrs.get("default"), dict) and t.attrs["default"] == {})
    ctx.oblige("post", "a-None-default-becomes-{}(so the jsonnet sees no external variable),a-dict-default-stays-the-same-object;the-argument-is-marked-as-jsonnet_ext_vars" + tag,
               want_default_ok and t.attrs.get("jsonnet_ext_vars") is True)
    ctx.oblige("frame", "nothing-else-of-the-argument-is-written" + tag, {k: v for k, v in t.attrs.items() if k not in ("default", "jsonnet_ext_vars")} == {k: v for k, v in d["target_before"].items() if k != "default"})


def ce_raises(ctx, st, exc):
    d = st.data
    tag = d["tag"]
    _ce_lookup(ctx, d)
    ctx.oblige("raises", f"refused-with-ValueError-exactly-when-no-dict-typed-argument-of-that-name-exists-or-its-default-is-neither-a-dict-nor-None(got {exc.cls}@{exc.origin})" + tag,
               exc.cls == "ValueError" and d["kind"] == "jsonnet-with-key" and (d["found"] not in ("typehint-dict", "typehint-Dict") or d["dflt"] == "a-string"))
    if d["target"] is not None:
        ctx.oblige("frame", "a-refused-argument-is-not-marked-and-keeps-its-default" + tag, d["target"].attrs == d["target_before"])


# ================================================================================================ the units
def units(prop):
    return [
        Unit(prop, J + "ActionJsonnet.split_ext_vars", sev_setup, sev_post, _never,
             trusted=["json.dumps(v) returns the JSON text of v (one fresh text per call)", "0-3 entries; keys symbolic, pairwise distinct; isinstance(v, str) by the value's kind"]),
        Unit(prop, J + "ActionJsonnet.parse", pa_setup, pa_post, pa_raises, expect_cover=("return", "raise:ImportError", "raise:ValidationError", "raise:TypeError"),
             trusted=["import_jsonnet returns the extension or raises ImportError (own unit); Path(x, mode=...) returns a Path for a readable path and raises TypeError otherwise (C19 units); Path.get_content returns the text",
                      "_jsonnet.evaluate_snippet returns JSON text or raises RuntimeError; load_value returns the value or raises the error class announced for its mode (r2_loaders units); YAML is a superset of JSON (external, bounded harness b05)",
                      "a jsonschema validator's validate returns or raises ValidationError; item assignment on a non-mapping raises TypeError",
                      "split_ext_vars by its contract (unit above); parser_context sets load_value_mode for its body (C08/C09 unit)"]),
        Unit(prop, J + "ActionJsonnet._check_type", ct_setup, ct_post, ct_raises, max_paths=20000, expect_cover=("return", "raise:TypeError"),
             trusted=["ActionJsonnet.parse fails with TypeError / ValueError / YAMLError / ValidationError / RuntimeError (unit above)",
                      "get_loader_exceptions() announces the classes of the mode in progress (r2_loaders unit); get_jsonschema_exceptions() imports jsonschema: ImportError without the package",
                      "_is_action_value_list by its unit (any_units); Namespace.get(key, default) returns the entry or the default; an empty namespace is falsy"]),
        Unit(prop, J + "ActionJsonnet.__call__", jc_setup, jc_post, jc_raises, expect_cover=("return", "raise:TypeError"),
             trusted=["argparse calls the action with (parser, namespace, value[, option string]); Action._check_type_ forwards to _check_type (r2_actions unit); setattr on the namespace stores under that name",
                      "str % str substitutes the single %s"]),
        Unit(prop, O + "set_config_read_mode", sm_setup, sm_post, sm_raises, expect_cover=("return", "raise:ImportError"),
             trusted=["import_requests / import_fsspec return the module or raise ImportError (own units)", "`global` makes the assignment in update_mode a module-level one (modelled by the unit's statement hooks)",
                      "the mode before the call is one of the five reachable from 'fr' through this function: fr, fur, fsr, fsur, fusr"]),
        Unit(prop, O + "get_config_read_mode", gm_setup, gm_post, _never, trusted=["module-level variable read"]),
        Unit(prop, O + "missing_package_raise", mp_setup, mp_post, mp_raises, expect_cover=("return", "raise:ImportError", "raise:ValueError", "raise:<Any>"),
             trusted=["@contextmanager: the with-body runs at the yield and its exception is thrown in there", "ModuleNotFoundError is a subclass of ImportError"]),
    ] + [
        Unit(prop, O + fname, *_imp_setup(fname), expect_cover=("return", "raise:ImportError"),
             trusted=["an import statement binds the module or raises ModuleNotFoundError (ImportError)", "missing_package_raise by its contract (unit above)", "importlib.util.find_spec returns None for a module that is not there"])
        for fname in IMPORTERS
    ] + [
        Unit(prop, O + "get_omegaconf_loader.<locals>.omegaconf_load", oc_setup, oc_post, oc_raises, expect_cover=("return", "raise:YAMLError"),
             trusted=["yaml_load by its contract (r2_loaders): a value or YAMLError", "OmegaConf.load / OmegaConf.to_object resolve the document or raise an OmegaConf error (not a YAMLError: the text was read by PyYAML before)",
                      "for a document without interpolations OmegaConf's container equals YAML's (external; bounded harness b05)"]),
        Unit(prop, O + "get_omegaconf_loader", ol_setup, ol_post, ol_raises, expect_cover=("return", "raise:ImportError"), trusted=["import statements as above; missing_package_raise by its contract"]),
        Unit(prop, O + "parse_docstring", pd_setup, pd_post, pd_raises, expect_cover=("return", "raise:ImportError"),
             trusted=["docstring_parser.parse / parse_from_object return a Docstring or raise ParseError / ValueError (external)", "import_docstring_parser / get_docstring_parse_options by their units", "logger.debug only logs"]),
        Unit(prop, O + "get_doc_short_description", sd_setup, sd_post, _never,
             trusted=["parse_docstring by its contract: a Docstring or None", "inspect.isclass", "a class has __init__; a method name given by the callers names a method of the class (it comes from introspection)"]),
        Unit(prop, O + "parse_docs", ps_setup, ps_post, _never,
             trusted=["parse_docstring by its contract: a Docstring (params: name + description) or None", "inspect.isclass", "with a class as parent the component is a function (has __name__): callers pass methods of the class"]),
        Unit(prop, O + "set_docstring_parse_options", so_setup, so_post, so_raises, expect_cover=("return", "raise:ValueError", "raise:ImportError"), trusted=["import_docstring_parser by its unit; isinstance"]),
        Unit(prop, O + "get_docstring_parse_options", go_setup, go_post, go_raises, expect_cover=("return", "raise:ImportError"), trusted=["import_docstring_parser by its unit"]),
        Unit(prop, D + "ParserDeprecations.error_handler", eh_setup, eh_post, eh_raises, label="setter", expect_cover=("return", "raise:ValueError"),
             trusted=["of the two definitions named error_handler the last one (the setter) is the unit", "inspect.stack()[1] is the caller's frame; callable(); deprecation_warning_error_handler only warns"]),
        Unit(prop, D + "usage_and_exit_error_handler", ue_setup, ue_post, ue_raises, expect_cover=("return", "raise:SystemExit"),
             trusted=["parser.print_usage(file) writes the usage to the file; parser.exit(status) raises SystemExit(status) unless overridden; the @deprecated wrapper only warns", "prog and message: concrete sample strings (str % dict is evaluated by CPython)"]),
        Unit(prop, J + "ActionJsonnet.__init__", ji_setup, ji_post, ji_raises, expect_cover=("return", "raise:ValueError", "raise:ImportError", "raise:SchemaError"),
             trusted=["import_jsonnet / import_jsonschema by their units; load_value returns the value or raises the class get_loader_exceptions(mode) announces; Draft7Validator.check_schema raises SchemaError for an invalid schema",
                      "argparse.Action.__init__ (super()) stores the keywords"]),
        Unit(prop, J + "ActionJsonnet._check_ext_vars_action", ce_setup, ce_post, ce_raises, expect_cover=("return", "raise:ValueError"),
             trusted=["_find_action by its unit (r2_actions): the action of exactly that key or None", "dict / typing.Dict are the two accepted spellings of the type"]),
    ]


_IMPORT_UNITS = [":" + f for f in IMPORTERS]
CARRIES = {
    "C05": [":ActionJsonnet.split_ext_vars", ":ActionJsonnet.parse", "omegaconf_load", ":get_omegaconf_loader", ":missing_package_raise", ":import_jsonnet", ":import_toml_loads", ":import_toml_dumps"],
    "C03": [":ActionJsonnet.parse", ":ActionJsonnet._check_type", ":ActionJsonnet.__call__", ":ActionJsonnet.__init__", ":ActionJsonnet._check_ext_vars_action", "omegaconf_load", ":missing_package_raise",
            ":ParserDeprecations.error_handler[setter]", ":usage_and_exit_error_handler"] + _IMPORT_UNITS,
    "C04": [":set_config_read_mode", ":get_config_read_mode", ":ActionJsonnet.parse", ":import_requests", ":import_fsspec"],
    "C09": [":ActionJsonnet.__call__"],
    "C12": [":parse_docstring", ":get_doc_short_description", ":parse_docs", ":set_docstring_parse_options", ":get_docstring_parse_options", ":import_docstring_parser"],
}
