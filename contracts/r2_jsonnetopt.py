"""Round 2 - jsonargparse/_jsonnet.py (ActionJsonnet), the optional-dependency helpers of jsonargparse/_optionals.py and the error-handler part of
jsonargparse/_deprecated.py under contract.

Actions, namespaces, paths and modules are records (Rec) whose class name is the real class name; every external (the _jsonnet extension, PyYAML/json through
load_value, jsonschema validators, docstring_parser, OmegaConf, `import` statements) is a recording stand-in whose possible outcomes are enumerated.

C05 (a JSON document is read by the jsonnet action as JSON would read it; the same settings through every channel)
  ActionJsonnet.split_ext_vars  None -> ({}, {}); every entry of the mapping given lands in exactly one of the two results: a string value unchanged (identity) in
                               ext_vars, any other value as json.dumps of exactly that value in ext_codes; nothing is invented; the mapping given is not modified
                               (0-3 entries, keys symbolic and distinct, values over str / int / bool / None / dict / list)
  ActionJsonnet.parse          (also C03, C04) the jsonnet extension is imported for 'ActionJsonnet'; the external variables given are split once and both parts are
                               handed over under their own keyword; a text that is no readable path is evaluated as given under the name 'snippet'; a readable path
                               (asked with exactly the mode get_config_read_mode() returns) is evaluated by its content under the very name given (a Path object:
                               its relative spelling); what the extension returns is read once by load_value inside a parser_context whose load_value_mode is yaml
                               (json without PyYAML) - never the mode of the parse in progress; that value is returned (identity); a schema validates exactly that
                               value once before it is returned; meta keys only with with_meta: __path__ (the Path built) only for a path, __orig__ the text evaluated.
                               Failures: only ImportError (extension missing), the loader errors announced for the jsonnet mode, the validator's ValidationError, the
                               TypeError of a non-mapping result with with_meta - and, for a failed evaluation, the documented TypeError
                               [REFUTED on the tree: a failed evaluation leaves as argparse.ArgumentError]
  ActionJsonnet._check_type    (also C03) a string is parsed once with the external variables found in the configuration under the action's ext_vars key ({} when
                               there is no configuration) and with_meta=True; any other value is validated by the schema (if any) and kept as given (identity); a
                               list-valued action treats every element so, in order; every failure leaves as TypeError naming the key (and the element)
                               [REFUTED on the tree: the ArgumentError of parse passes through unconverted; without the jsonschema package every failure ends in
                               the ImportError of the except clause itself]
C09 / C03
  ActionJsonnet.__call__       by argparse: exactly one write, namespace.<dest> = the checked value (checked once, with the namespace as configuration); only the
                               TypeError of the check leaves; as a factory: one new ActionJsonnet with the declaration keywords given plus the configured ext_vars key
                               and validator; a %s in the help is replaced by the schema (sorted keys) only when there is a schema
  ActionJsonnet.__init__       configuration: ext_vars must be None or a string (ValueError otherwise), the jsonnet package must be importable (ImportError naming
                               ActionJsonnet), a schema text is read as YAML/JSON and checked (ValueError when it cannot be read); argparse's initialiser does not run;
                               declaration (by the factory): the private keywords are stored and kept off argparse
  ActionJsonnet._check_ext_vars_action   a jsonnet action with an ext_vars key needs a dict-typed argument of that name whose default is a dict or None (None becomes
                               {}): ValueError otherwise; only that argument's default and its jsonnet_ext_vars mark are written; other actions: nothing happens
C04 (which file / url access default config files and --config get)
  set_config_read_mode         afterwards the mode holds 'u' exactly when urls were asked for and 's' exactly when fsspec was, 'f' and 'r' once each, no other letter,
                               no letter twice (all five reachable modes x both flags symbolic x packages installed / missing); a feature whose package is missing is
                               refused with ImportError *before* its letter is stored, and a disabled feature needs no package
  get_config_read_mode         returns the stored mode itself (ALL strings)
C03 / C05 (a missing optional package is reported with ImportError naming the feature, never with another exception)
  missing_package_raise        the body runs once; an ImportError (ModuleNotFoundError included) thrown in it leaves as ImportError whose text names the package and
                               the feature (ALL strings) and keeps the cause; any other exception leaves unchanged; nothing is swallowed
  import_jsonnet, import_jsonschema, import_requests, import_docstring_parser, import_fsspec, import_ruyaml, import_reconplogger, import_toml_dumps, import_toml_loads
                               the documented module is imported inside missing_package_raise(<documented package name>, the importer given): installed -> the module
                               (jsonschema: + its Draft7Validator; toml: its loads/dumps + decode error; tomllib preferred when present); missing -> that ImportError
  get_omegaconf_loader (+ omegaconf_load)   a missing omegaconf is reported by ImportError naming omegaconf; the loader reads the unmodified text with yaml_load first: a
                               scalar / null is returned as YAML read it and OmegaConf does not run; a container is resolved by OmegaConf from the same text (once) and
                               returned unless OmegaConf made the whole text a null-valued key, then YAML's reading; yaml's failure leaves unchanged (announced);
                               [REFUTED on the tree - known finding c05-omegaconf-mode-interprets-json-strings: OmegaConf's own errors leave although only yaml's are announced]
C12 (help texts only: the docstring helpers return None or a text and never raise)
  parse_docstring              docstring_parser reads exactly component.__doc__ (with attribute docstrings: the object itself) once with the configured style; its
                               ParseError / ValueError is swallowed (-> None, logged only with a logger); the parsed docstring is returned as is
  get_doc_short_description    without docstring_parser: None and nothing is read; a class without method name: its own short description if it has one, else that of
                               __init__; a class with a method name: that method's; a function: its own; an unparsable docstring gives None; never raises
  parse_docs                   without docstring_parser: {} and nothing is read; the parameter descriptions of the component - and of the class too when the component
                               is its __init__ -, later sources overriding earlier ones; an unparsable docstring contributes nothing; never raises
  set_docstring_parse_options  validates before storing: a style that is no DocstringStyle / a non-boolean attribute_docstrings is refused with ValueError and nothing
                               is stored; exactly the options given are changed
  get_docstring_parse_options  an unset style becomes DocstringStyle.AUTO (once); the options table itself is returned
C03 (the error channel)
  ParserDeprecations.error_handler (setter / getter)   a callable, None or False is stored as given and returned by the getter; anything else is refused with ValueError
                               and the stored handler stays; the deprecation warning is issued exactly for a value other than False
  usage_and_exit_error_handler usage to stderr, then '<prog>: error: <message>' + newline to stderr (ALL strings), then parser.exit(2) - in this order, nothing else
"""
import ast

import z3

from pyvc.engine import And, ClassRef, ExcVal, Not, Or, PyRaise, Rec, Unsupported, _dkey, is_z3, lift
from pyvc.units import Setup, Unit

J = "jsonargparse._jsonnet:"
O = "jsonargparse._optionals:"
D = "jsonargparse._deprecated:"
S = z3.StringSort()
SV = z3.StringVal


def _tag(**kw):
    return "[" + ",".join(f"{k}={v}" for k, v in kw.items()) + "]"


def _never(ctx, st, exc):
    ctx.oblige("raises", f"never-raises(got {exc.cls}@{exc.origin})" + st.data.get("tag", ""), False)


def _fail(cls, origin, *args):
    raise PyRaise(ExcVal(cls, args=tuple(args) or ("model",), origin=origin))


def _classes(ctx):
    ctx.classes.add("YAMLError", ["Exception"])
    ctx.classes.add("JSONDecodeError", ["ValueError"])
    ctx.classes.add("ValidationError", ["Exception"])  # jsonschema.exceptions.ValidationError
    ctx.classes.add("ModuleNotFoundError", ["ImportError"])
    ctx.classes.add("ParseError", ["RuntimeError"])  # docstring_parser.ParseError
    ctx.classes.add("OmegaConfBaseException", ["Exception"])


# ================================================================================================ ActionJsonnet.split_ext_vars
EV_KINDS = ["str", "int", "bool", "None", "dict", "list"]


def _ev_value(kind, i):
    return {"str": z3.String(f"text{i}"), "int": z3.Int(f"int{i}"), "bool": z3.Bool(f"bool{i}"), "None": None, "dict": {"a": z3.Int(f"inner{i}")}, "list": [z3.String(f"item{i}")]}[kind]


def sev_setup(ctx):
    n = ctx.choose(5, "ext_vars(None / 0-3 entries)") - 1
    if n < 0:
        given, entries = None, []
    else:
        kinds = [EV_KINDS[ctx.choose(len(EV_KINDS), f"value{i}")] for i in range(n)]
        keys = [z3.String(f"key{i}") for i in range(n)]
        if n > 1:
            ctx.assume(z3.Distinct(*keys))
        entries = [(keys[i], kinds[i], _ev_value(kinds[i], i)) for i in range(n)]
        given = {_dkey(k): v for k, _, v in entries}
    dumped = []

    def dumps(c, a, k):
        out = z3.String(f"json-text-of-value#{len(dumped)}")
        dumped.append((a, dict(k), out))
        return out

    return Setup(env={"ext_vars": given}, calls={"json.dumps": dumps}, data=dict(n=n, given=given, entries=entries, dumped=dumped, before=None if given is None else list(given.items()),
                                                                 tag=_tag(entries=n, kinds="/".join(e[1] for e in entries))))


def _lookup(d, key):
    """The value stored in a result dict under the symbolic key `key` (by the very term), or the marker."""
    for k, v in d.items():
        t = k.term if hasattr(k, "term") else k
        if t is key:
            return v
    return "missing"


def sev_post(ctx, st, result):
    d = st.data
    tag = d["tag"]
    shape = isinstance(result, tuple) and len(result) == 2 and all(isinstance(x, dict) for x in result)
    ctx.oblige("post", "returns-the-pair(ext_vars, ext_codes)-of-two-mappings" + tag, shape)
    if not shape:
        return
    ext_vars, ext_codes = result
    for key, kind, value in d["entries"]:
        v, c = _lookup(ext_vars, key), _lookup(ext_codes, key)
        if kind == "str":
            ctx.oblige("post", "a-string-value-is-handed-over-as-an-external-variable,unchanged,and-not-as-code" + tag, v is value and c == "missing")
        else:
            made = [x for x in d["dumped"] if len(x[0]) == 1 and x[0][0] is value and x[1] == {} and x[2] is c]
            ctx.oblige("post", "any-other-value-is-handed-over-as-code:json.dumps-of-exactly-that-value(default settings),and-not-as-a-string-variable" + tag, v == "missing" and len(made) == 1)
    ctx.oblige("post", "nothing-is-invented:as-many-entries-come-out-as-went-in" + tag, len(ext_vars) + len(ext_codes) == len(d["entries"]))
    codes = list(ext_codes.values())
    ctx.oblige("post", "only-the-non-string-values-are-serialised,each-once(every code is the text of its own serialisation)" + tag,
               len(d["dumped"]) == len([e for e in d["entries"] if e[1] != "str"]) and all(sum(1 for y in codes if y is x) == 1 for x in codes))
    ctx.oblige("frame", "the-mapping-given-is-not-modified(and is not one of the results)" + tag,
               d["given"] is None or (list(d["given"].items()) == d["before"] and ext_vars is not d["given"] and ext_codes is not d["given"]))


# ================================================================================================ ActionJsonnet.parse
P_INPUT = ["text", "str-path", "Path-object"]
P_EVAL = ["evaluates", "RuntimeError"]
P_LOAD = ["dict", "non-mapping", "announced-loader-error"]
P_VALID = ["no-schema", "valid", "ValidationError"]


def pa_setup(ctx):
    _classes(ctx)
    installed = ctx.choose(2, "jsonnet-installed") == 1
    pyyaml = ctx.choose(2, "pyyaml_available") == 1
    inp = P_INPUT[ctx.choose(3, "jsonnet-argument")]
    ev = P_EVAL[ctx.choose(2, "evaluate_snippet")] if installed else "evaluates"
    ld = P_LOAD[ctx.choose(3, "load_value")] if installed and ev == "evaluates" else "dict"
    vd = P_VALID[ctx.choose(3, "schema")] if installed and ev == "evaluates" and ld != "announced-loader-error" else "no-schema"
    meta = [None, False, True][ctx.choose(3, "with_meta(omitted / False / True)")] if installed else None
    ext_given = ctx.choose(2, "ext_vars-given") == 1 if installed else False
    announced = "YAMLError" if pyyaml else "JSONDecodeError"

    text, content, relname, evaluated, mode = z3.String("jsonnet"), z3.String("file-content"), z3.String("relative-path"), z3.String("evaluated-json"), z3.String("config-read-mode")
    fpath = Rec("Path", attrs={"built": True}, methods={"get_content": lambda c, s_, a, k: (c.event("get_content", a, dict(k)), content)[1]})
    if inp == "Path-object":
        arg = Rec("Path", attrs={"given": True}, methods={"__call__": lambda c, s_, a, k: (c.event("path()", a, dict(k)), relname)[1],
                                                          "get_content": lambda c, s_, a, k: (c.event("get_content-of-the-argument", a, dict(k)), z3.String("other-content"))[1]})
    else:
        arg = text
    ext_in, ext_vars, ext_codes = Rec("ext_vars given"), Rec("string ext vars"), Rec("code ext vars")
    loaded = {"k": z3.Int("loaded")} if ld == "dict" else Rec("loaded non-mapping", methods={"__setitem__": lambda c, s_, a, k: _fail("TypeError", "item assignment on a non-mapping")})
    open_cms = []

    def evaluate(c, a, k):
        c.event("evaluate_snippet", a, dict(k))
        if ev != "evaluates":
            _fail("RuntimeError", "evaluate_snippet")
        return evaluated

    def load_value(c, a, k):
        c.event("load_value", a, dict(k), [dict(x) for x in open_cms])
        if ld == "announced-loader-error":
            _fail(announced, "load_value")
        return loaded

    def path(c, a, k):
        c.event("Path", a, dict(k))
        if inp == "text":
            _fail("TypeError", "Path")
        return fpath

    def imp(c, a, k):
        c.event("import_jsonnet", a, dict(k))
        if not installed:
            _fail("ImportError", "import_jsonnet")
        return Rec("module _jsonnet")

    def validate(c, s_, a, k):
        c.event("validate", a, dict(k))
        if vd == "ValidationError":
            _fail("ValidationError", "validate")

    validator = None if vd == "no-schema" else Rec("validator", methods={"validate": validate})
    self = Rec("ActionJsonnet", attrs={"_validator": validator, "_ext_vars": None}, methods={"split_ext_vars": lambda c, s_, a, k: (c.event("split_ext_vars", a, dict(k)), (ext_vars, ext_codes))[1]})
    calls = {"import_jsonnet": imp, "Path": path, "get_config_read_mode": lambda c, a, k: mode, "_jsonnet.evaluate_snippet": evaluate, "load_value": load_value,
             "ActionJsonnet.split_ext_vars": lambda c, a, k: (c.event("split_ext_vars", a, dict(k)), (ext_vars, ext_codes))[1],
             "argument_error": lambda c, a, k: ExcVal("ArgumentError", args=tuple(a), origin="argument_error")}
    cms = {"parser_context": (lambda c, a, k: open_cms.append(dict(k)), lambda c, t, e: (open_cms.pop(), False)[1])}
    env = {"self": self, "jsonnet": arg}
    if ext_given:
        env["ext_vars"] = ext_in
    if meta is not None:
        env["with_meta"] = meta
    return Setup(env=env, calls=calls, cms=cms, consts={"pyyaml_available": pyyaml},
                 data=dict(installed=installed, pyyaml=pyyaml, inp=inp, ev=ev, ld=ld, vd=vd, meta=bool(meta), ext_given=ext_given, announced=announced, text=text, content=content, relname=relname,
                           evaluated=evaluated, mode=mode, fpath=fpath, arg=arg, ext_in=ext_in, ext_vars=ext_vars, ext_codes=ext_codes, loaded=loaded, self=self, validator=validator,
                           tag=_tag(installed=installed, pyyaml=pyyaml, input=inp, eval=ev, load=ld, schema=vd, meta=meta, ext=ext_given)))


def _pa_common(ctx, d):
    """Clauses on what was handed to the externals - they hold on every exit once the extension was found."""
    tag = d["tag"]
    E = lambda n: [e for e in ctx.events if e[0] == n]  # noqa: E731
    ctx.oblige("post", "the-jsonnet-extension-is-imported-once,for-'ActionJsonnet'" + tag, len(E("import_jsonnet")) == 1 and E("import_jsonnet")[0][1] == ("ActionJsonnet",))
    if not d["installed"]:
        ctx.oblige("post", "without-the-extension-nothing-is-read-or-evaluated" + tag, len(ctx.events) == 1)
        return
    sp, pt, evs, lv = E("split_ext_vars"), E("Path"), E("evaluate_snippet"), E("load_value")
    ctx.oblige("post", "the-external-variables-given(None when omitted)-are-split-once" + tag, len(sp) == 1 and len(sp[0][1]) == 1 and sp[0][1][0] is (d["ext_in"] if d["ext_given"] else None) and sp[0][2] == {})
    ctx.oblige("post", "the-argument-is-tried-as-a-path-once,with-exactly-the-config-read-mode-in-force(which file / url access configs get)" + tag,
               len(pt) == 1 and len(pt[0][1]) == 1 and pt[0][1][0] is d["arg"] and set(pt[0][2]) == {"mode"} and pt[0][2]["mode"] is d["mode"])
    fname = {"text": "snippet", "str-path": d["text"], "Path-object": d["relname"]}[d["inp"]]
    snippet = d["text"] if d["inp"] == "text" else d["content"]
    same = lambda x, y: x is y or (isinstance(x, str) and isinstance(y, str) and x == y)  # noqa: E731
    ctx.oblige("post", "jsonnet-evaluates-once:a-text-as-given-under-the-name-'snippet',a-readable-path-by-its-content-under-the-very-path-given(the file name reported;"
               "a Path object: its relative spelling)" + tag, len(evs) == 1 and len(evs[0][1]) == 2 and same(evs[0][1][0], fname) and evs[0][1][1] is snippet)
    if evs:
        k = evs[0][2]
        ctx.oblige("post", "both-parts-of-the-split-are-handed-over,each-under-its-own-keyword(strings as ext_vars, codes as ext_codes),nothing-else" + tag,
                   set(k) == {"ext_vars", "ext_codes"} and k.get("ext_vars") is d["ext_vars"] and k.get("ext_codes") is d["ext_codes"])
    if d["inp"] != "text":
        gc = E("get_content")
        ctx.oblige("post", "the-content-is-read-once,from-the-Path-built-with-the-read-mode(not from the argument)" + tag, len(gc) == 1 and gc[0][1] == () and gc[0][2] == {} and not E("get_content-of-the-argument"))
        if d["inp"] == "Path-object":
            pc = E("path()")
            ctx.oblige("post", "a-Path-object-is-named-by-its-relative-spelling" + tag, len(pc) == 1 and pc[0][1] == () and pc[0][2] == {"absolute": False})
    else:
        ctx.oblige("post", "a-text-that-is-no-path:nothing-is-read-from-disk" + tag, not E("get_content") and not E("path()"))
    if d["ev"] == "evaluates":
        ok = len(lv) == 1 and len(lv[0][1]) == 1 and lv[0][1][0] is d["evaluated"] and lv[0][2] == {}
        ctx.oblige("post", "what-jsonnet-returned(JSON text)-is-read-once,unmodified,by-load_value" + tag, ok)
        if lv:
            inside = lv[0][3]
            ctx.oblige("post", "it-is-read-as-YAML(JSON without PyYAML):inside-a-parser_context-whose-load_value_mode-is-that,whatever-the-mode-of-the-parse-in-progress" + tag,
                       len(inside) == 1 and inside[0] == {"load_value_mode": "yaml" if d["pyyaml"] else "json"})
    else:
        ctx.oblige("post", "nothing-is-loaded-after-a-failed-evaluation" + tag, not lv)
    va = E("validate")
    if d["validator"] is not None and d["ev"] == "evaluates" and d["ld"] != "announced-loader-error":
        ctx.oblige("post", "a-schema-validates-exactly-the-loaded-value,once,before-anything-is-added-to-it" + tag,
                   len(va) == 1 and len(va[0][1]) == 1 and va[0][1][0] is d["loaded"] and va[0][2] == {})
    else:
        ctx.oblige("post", "no-validation-without-a-schema-or-without-a-value" + tag, not va)


def pa_post(ctx, st, result):
    d = st.data
    tag = d["tag"]
    _pa_common(ctx, d)
    ctx.oblige("post", "returns=>installed,evaluated,loaded,valid" + tag, d["installed"] and d["ev"] == "evaluates" and d["ld"] != "announced-loader-error" and d["vd"] != "ValidationError")
    ctx.oblige("post", "the-value-returned-is-the-value-loaded(identity)" + tag, result is d["loaded"])
    if d["ld"] == "dict":
        want = {"k"}
        if d["meta"]:
            want |= {"__orig__"} | ({"__path__"} if d["inp"] != "text" else set())
        lo = d["loaded"]
        ctx.oblige("post", "meta-keys-only-with-with_meta:__orig__-always,__path__-only-for-a-path;the-loaded-entries-stay" + tag, set(lo) == want and is_z3(lo["k"]) and lo["k"].eq(z3.Int("loaded")))
        if d["meta"]:
            ctx.oblige("post", "__orig__-is-the-text-evaluated(the file's content for a path),__path__-the-Path-built" + tag,
                       lo.get("__orig__") is (d["text"] if d["inp"] == "text" else d["content"]) and (d["inp"] == "text" or lo.get("__path__") is d["fpath"]))
    else:
        ctx.oblige("post", "a-non-mapping-result-is-returned-only-without-meta" + tag, not d["meta"])
    ctx.oblige("frame", "the-action-is-not-modified" + tag, set(d["self"].attrs) == {"_validator", "_ext_vars"} and d["self"].attrs["_validator"] is d["validator"] and d["self"] not in ctx.mutlog)


def pa_raises(ctx, st, exc):
    d = st.data
    tag = d["tag"]
    _pa_common(ctx, d)
    got = f"(got {exc.cls}@{exc.origin})"
    if not d["installed"]:
        ctx.oblige("raises", "a-missing-jsonnet-package-is-reported-by-the-ImportError-of-import_jsonnet" + got + tag, exc.cls == "ImportError" and exc.origin == "import_jsonnet")
    elif d["ev"] == "RuntimeError":
        # C03: _check_type / __call__ convert TypeError, RuntimeError, jsonschema's ValidationError and the loader errors; the docstring of parse documents TypeError.
        ctx.oblige("raises", "a-failed-evaluation-leaves-as-the-documented-TypeError(or as a class the jsonnet mode announces),never-as-another-class" + got + tag,
                   exc.cls in ("TypeError", "ValueError", d["announced"]))
        ctx.oblige("raises", "the-failure-keeps-jsonnet's-RuntimeError-as-its-cause" + tag, isinstance(exc.cause, ExcVal) and exc.cause.cls == "RuntimeError" and exc.cause.origin == "evaluate_snippet")
        if exc.args and is_z3(exc.args[0]):
            fname = {"text": SV("snippet"), "str-path": d["text"], "Path-object": d["relname"]}[d["inp"]]
            ctx.oblige("raises", "the-message-names-the-file-evaluated('snippet' for a text)" + tag, z3.Contains(exc.args[0], z3.Concat(SV('"'), fname, SV('"'))), strings=True)
    elif d["ld"] == "announced-loader-error":
        ctx.oblige("raises", "the-reader's-failure-leaves-unchanged(a class announced for the jsonnet mode)" + got + tag, exc.cls == d["announced"] and exc.origin == "load_value")
    elif d["vd"] == "ValidationError":
        ctx.oblige("raises", "the-schema's-refusal-leaves-unchanged" + got + tag, exc.cls == "ValidationError" and exc.origin == "validate")
    else:
        ctx.oblige("raises", "otherwise-only-a-non-mapping-result-with-with_meta-fails,with-TypeError" + got + tag, d["ld"] == "non-mapping" and d["meta"] and exc.cls == "TypeError")


# ================================================================================================ ActionJsonnet._check_type
CT_VALUES = ["str", "dict", "int"]
CT_PARSE = ["parses", "TypeError", "ValueError", "YAMLError", "ValidationError", "RuntimeError", "ArgumentError"]


def ct_setup(ctx):
    _classes(ctx)
    islist = ctx.choose(2, "list-valued-action") == 1
    # a single value: every dimension; a list of two: the dimensions that concern the elements (kinds, fates, schema) - the others are fixed
    cfg_kind = ["None", "empty-namespace", "namespace"][ctx.choose(3, "cfg")] if not islist else "namespace"
    schema = ctx.choose(2, "schema") == 1
    jsonschema_pkg = ctx.choose(2, "jsonschema-installed") == 1 if not schema and not islist else True
    mode = ["yaml", "json", "jsonnet"][ctx.choose(3, "mode-of-the-parse-in-progress")] if not islist else "yaml"
    kinds = [CT_VALUES[ctx.choose(3, f"value{i}")] for i in range(2 if islist else 1)]
    fates = []
    for i, kd in enumerate(kinds):
        if kd == "str":
            fates.append(CT_PARSE[ctx.choose(len(CT_PARSE), f"parse{i}")] if not islist else ["parses", "ValueError", "ArgumentError"][ctx.choose(3, f"parse{i}")])
        elif schema:
            fates.append(["valid", "ValidationError"][ctx.choose(2, f"validate{i}")])
        else:
            fates.append("kept")
    dest, key = z3.String("dest"), z3.String("ext_vars-key")
    has_key = ctx.choose(2, "action-has-an-ext_vars-key") == 1 if not islist else True
    values = [{"str": z3.String(f"text{i}"), "dict": {"a": z3.Int(f"a{i}")}, "int": z3.Int(f"n{i}")}[kd] for i, kd in enumerate(kinds)]
    parsed = [Rec(f"parsed{i}") for i in range(len(kinds))]
    found = Rec("ext vars found in cfg")

    def _which(a):
        idx = next((j for j, v in enumerate(values) if a and a[0] is v), None)
        if idx is None:
            raise Unsupported("a value that was not given is parsed / validated")
        return idx

    def parse(c, s_, a, k):
        c.event("parse", a, dict(k))
        idx = _which(a)
        if fates[idx] not in ("parses", "valid", "kept"):
            _fail(fates[idx], "parse")
        return parsed[idx]

    def validate(c, s_, a, k):
        c.event("validate", a, dict(k))
        idx = _which(a)
        if fates[idx] == "ValidationError":
            _fail("ValidationError", "validate")

    def cfg_get(c, s_, a, k):
        c.event("cfg.get", a, dict(k))
        return found

    cfg = {"None": None, "empty-namespace": Rec("Namespace", methods={"get": cfg_get}, truthy=False), "namespace": Rec("Namespace", methods={"get": cfg_get})}[cfg_kind]
    validator = Rec("validator", methods={"validate": validate}) if schema else None
    self = Rec("ActionJsonnet", attrs={"dest": dest, "_ext_vars": key if has_key else None, "_validator": validator}, methods={"parse": parse})
    announced = {"yaml": ("YAMLError",), "json": ("ValueError",), "jsonnet": ("YAMLError", "ValueError")}[mode]

    def gje(c, a, k):
        if not jsonschema_pkg:
            _fail("ModuleNotFoundError", "get_jsonschema_exceptions")
        return (ClassRef("ValidationError"),)

    calls = {"_is_action_value_list": lambda c, a, k: islist, "get_jsonschema_exceptions": gje,
             "get_loader_exceptions": lambda c, a, k: (c.event("get_loader_exceptions", a, dict(k)), tuple(ClassRef(n) for n in announced))[1]}
    value = list(values) if islist else values[0]
    return Setup(env={"self": self, "value": value, "cfg": cfg}, calls=calls,
                 data=dict(islist=islist, cfg_kind=cfg_kind, cfg=cfg, schema=schema, pkg=jsonschema_pkg, mode=mode, kinds=kinds, fates=fates, dest=dest, key=key, has_key=has_key, values=values, parsed=parsed,
                           found=found, self=self, validator=validator, value=value, self_before=dict(self.attrs),
                           tag=_tag(list=islist, cfg=cfg_kind, schema=schema, jsonschema=jsonschema_pkg, mode=mode, values="/".join(kinds), fates="/".join(fates), key=has_key)), watch={"dest": dest})


def _ct_first_failure(d):
    for i, f in enumerate(d["fates"]):
        if f not in ("parses", "valid", "kept"):
            return i
    return None


def _ct_common(ctx, d):
    tag = d["tag"]
    stop = _ct_first_failure(d)
    upto = len(d["kinds"]) if stop is None else stop + 1
    ps, vs, gets = [e for e in ctx.events if e[0] == "parse"], [e for e in ctx.events if e[0] == "validate"], [e for e in ctx.events if e[0] == "cfg.get"]
    want_p = [i for i in range(upto) if d["kinds"][i] == "str"]
    want_v = [i for i in range(upto) if d["kinds"][i] != "str" and d["schema"]]
    ctx.oblige("post", "every-string-is-parsed-once,in-order,up-to-the-first-failure;nothing-else-is-parsed" + tag, len(ps) == len(want_p) and all(len(e[1]) == 1 and e[1][0] is d["values"][i] for e, i in zip(ps, want_p)))
    ctx.oblige("post", "every-other-value-is-validated-by-the-schema(if any),once,in-order;strings-are-validated-by-parse" + tag, len(vs) == len(want_v) and all(len(e[1]) == 1 and e[1][0] is d["values"][i] and e[2] == {} for e, i in zip(vs, want_v)))
    for e in ps:
        k = e[2]
        if d["cfg_kind"] == "namespace":
            ev_ok = k.get("ext_vars", "missing") is d["found"]
        else:
            ev_ok = isinstance(k.get("ext_vars", "missing"), dict) and k["ext_vars"] == {}
        ctx.oblige("post", "parse-gets-the-external-variables-found-in-the-configuration({} without one)-and-with_meta=True,nothing-else" + tag, set(k) == {"ext_vars", "with_meta"} and k["with_meta"] is True and ev_ok)
    if d["cfg_kind"] == "namespace":
        ctx.oblige("post", "the-external-variables-are-looked-up-once-under-the-action's-ext_vars-key,default-{}" + tag,
                   len(gets) == 1 and len(gets[0][1]) == 2 and gets[0][1][0] is d["self"].attrs["_ext_vars"] and gets[0][1][1] == {} and gets[0][2] == {})
    else:
        ctx.oblige("post", "no-configuration(or an empty one):nothing-is-looked-up" + tag, not gets)
    ctx.oblige("frame", "the-action-is-not-modified" + tag, d["self"].attrs == d["self_before"])


def ct_post(ctx, st, result):
    d = st.data
    tag = d["tag"]
    _ct_common(ctx, d)
    ctx.oblige("post", "returns=>nothing-failed" + tag, _ct_first_failure(d) is None)
    want = [d["parsed"][i] if kd == "str" else d["values"][i] for i, kd in enumerate(d["kinds"])]
    if d["islist"]:
        ctx.oblige("post", "a-list-valued-action-returns-a-list-of-the-same-length:strings-parsed,other-values-as-given(identity),in-order" + tag,
                   isinstance(result, list) and len(result) == len(want) and all(r is w for r, w in zip(result, want)))
    else:
        ctx.oblige("post", "a-string-is-returned-parsed,any-other-value-as-given(identity)" + tag, result is want[0])


def ct_raises(ctx, st, exc):
    d = st.data
    tag = d["tag"]
    _ct_common(ctx, d)
    stop = _ct_first_failure(d)
    got = f"(got {exc.cls}@{exc.origin})"
    ctx.oblige("raises", "fails=>something-failed" + got + tag, stop is not None)
    if stop is None:
        return
    # C03: parse_args / parse_object convert TypeError (and KeyError) only; whatever parse or the schema fail with has to leave here as TypeError
    which = "[jsonschema-package-missing]" if not d["pkg"] else ("[parse-fails-with-ArgumentError]" if d["fates"][stop] == "ArgumentError" else "")
    ctx.oblige("raises", "every-failure-of-parse-or-of-the-schema-leaves-as-TypeError" + which + got + tag, exc.cls == "TypeError" and exc.origin.startswith("raise@"))
    if exc.cls == "TypeError" and exc.origin.startswith("raise@"):
        msg = exc.args[0] if exc.args else None
        head = z3.Concat(SV('Parser key "'), d["dest"], SV('"'))
        if d["islist"]:
            head = z3.Concat(head, SV(f" element {stop + 1}"))
        ctx.oblige("raises", "the-message-names-the-key(and the element, counted from 1)" + tag, is_z3(msg) and z3.PrefixOf(z3.Concat(head, SV(": ")), msg), strings=True)
        ctx.oblige("raises", "the-original-failure-is-kept-as-the-cause" + tag, isinstance(exc.cause, ExcVal) and exc.cause.cls == d["fates"][stop])


# ================================================================================================ ActionJsonnet.__call__
def jc_setup(ctx):
    _classes(ctx)
    mode = ["argparse", "factory"][ctx.choose(2, "called-by")]
    dest, key = z3.String("dest"), z3.String("ext_vars-key")
    schema = ctx.choose(2, "schema") == 1
    schema_obj = Rec("schema")
    validator = Rec("validator", attrs={"schema": schema_obj}) if schema else None
    checked = Rec("checked value")
    made = []
    fate = "ok"

    def check(c, s_, a, k):
        c.event("_check_type_", a, dict(k))
        if fate == "TypeError":
            _fail("TypeError", "_check_type_")
        return checked

    self = Rec("ActionJsonnet", attrs={"dest": dest, "_ext_vars": key, "_validator": validator}, methods={"_check_type_": check})
    writes = []
    calls = {"ActionJsonnet": lambda c, a, k: (made.append((a, dict(k))), Rec("ActionJsonnet", attrs={"new": True}))[1], "setattr": lambda c, a, k: writes.append((a, dict(k))),
             "json.dumps": lambda c, a, k: (c.event("json.dumps", a, dict(k)), "SCHEMA-TEXT")[1]}
    data = dict(mode=mode, dest=dest, key=key, schema=schema, schema_obj=schema_obj, validator=validator, checked=checked, made=made, writes=writes, self=self, self_before=dict(self.attrs))
    if mode == "argparse":
        fate = ["ok", "TypeError"][ctx.choose(2, "_check_type_")]
        parser, ns, value = Rec("ArgumentParser", attrs={"t": 1}), Rec("Namespace", attrs={"other": z3.Int("other")}), z3.String("value")
        with_opt = ctx.choose(2, "option_string-given") == 1
        args = (parser, ns, value) + (("--j",) if with_opt else ())
        data.update(parser=parser, ns=ns, value=value, fate=fate, ns_before=dict(ns.attrs), tag=_tag(by=mode, schema=schema, check=fate, opt=with_opt))
        return Setup(env={"self": self, "args": args, "kwargs": {}}, calls=calls, data=data, watch={"dest": dest})
    help_kind = ["none", "plain", "with-%s"][ctx.choose(3, "help")]
    kwargs = {"option_strings": ["--j"], "dest": "j"}
    if help_kind != "none":
        kwargs["help"] = {"plain": "some help", "with-%s": "schema: %s"}[help_kind]
    data.update(help_kind=help_kind, kwargs=kwargs, kwargs_before=dict(kwargs), fate="ok", tag=_tag(by=mode, schema=schema, help=help_kind))
    return Setup(env={"self": self, "args": (), "kwargs": kwargs}, calls=calls, data=data)


def _jc_frame(ctx, d):
    ctx.oblige("frame", "the-action-itself-is-not-modified" + d["tag"], d["self"].attrs == d["self_before"])


def jc_post(ctx, st, result):
    d = st.data
    tag = d["tag"]
    _jc_frame(ctx, d)
    ev = [e for e in ctx.events if e[0] == "_check_type_"]
    if d["mode"] == "argparse":
        ctx.oblige("post", "returns=>the-check-succeeded;returns-nothing;no-action-is-created" + tag, d["fate"] == "ok" and result is None and not d["made"])
        ctx.oblige("post", "the-value-given-is-checked-once,with-the-namespace-being-filled-as-configuration" + tag, len(ev) == 1 and len(ev[0][1]) == 1 and ev[0][1][0] is d["value"] and set(ev[0][2]) == {"cfg"} and ev[0][2]["cfg"] is d["ns"])
        w = d["writes"]
        ctx.oblige("post", "exactly-one-write:namespace.<dest>-is-the-checked-value(ALL dests);every-other-entry-stays" + tag,
                   len(w) == 1 and w[0][1] == {} and len(w[0][0]) == 3 and w[0][0][0] is d["ns"] and w[0][0][1] is d["dest"] and w[0][0][2] is d["checked"] and d["ns"].attrs == d["ns_before"] and d["ns"] not in ctx.mutlog)
        ctx.oblige("frame", "the-parser-is-not-modified" + tag, d["parser"].attrs == {"t": 1})
        return
    ctx.oblige("post", "the-factory-returns-one-new-ActionJsonnet;nothing-is-checked" + tag, len(d["made"]) == 1 and isinstance(result, Rec) and result.attrs.get("new") is True and not ev)
    if len(d["made"]) != 1:
        return
    a, k = d["made"][0]
    want_help = d["kwargs_before"].get("help", "missing")
    if d["help_kind"] == "with-%s" and d["schema"]:
        want_help = "schema: SCHEMA-TEXT"
    ctx.oblige("post", "it-gets-the-declaration-keywords-given-plus-the-configured-ext_vars-key-and-validator(keywords only)" + tag,
               a == () and set(k) == set(d["kwargs_before"]) | {"_ext_vars", "_validator"} and k["_ext_vars"] is d["key"] and k["_validator"] is d["validator"]
               and all(k[n] is v or k[n] == v for n, v in d["kwargs_before"].items() if n != "help"))
    ctx.oblige("post", "a-%s-in-the-help-is-replaced-by-the-schema-only-when-there-is-a-schema;any-other-help-is-passed-on-unchanged" + tag, k.get("help", "missing") == want_help)
    js = [e for e in ctx.events if e[0] == "json.dumps"]
    if d["help_kind"] == "with-%s" and d["schema"]:
        ctx.oblige("post", "the-schema-shown-is-the-validator's-schema,keys-sorted" + tag, len(js) == 1 and len(js[0][1]) == 1 and js[0][1][0] is d["schema_obj"] and js[0][2] == {"sort_keys": True})


def jc_raises(ctx, st, exc):
    d = st.data
    _jc_frame(ctx, d)
    ctx.oblige("raises", f"only-the-TypeError-of-the-check-leaves(got {exc.cls}@{exc.origin})" + d["tag"], d["mode"] == "argparse" and d["fate"] == "TypeError" and exc.cls == "TypeError" and exc.origin == "_check_type_")
    if d["mode"] == "argparse":
        ctx.oblige("frame", "a-refused-value-writes-nothing" + d["tag"], d["ns"].attrs == d["ns_before"] and d["parser"].attrs == {"t": 1} and not d["writes"])


# ================================================================================================ set_config_read_mode / get_config_read_mode
MODES = ["fr", "fur", "fsr", "fsur", "fusr"]  # every mode reachable from the initial 'fr' through set_config_read_mode


def global_hooks(names, state):
    """Python's `global` statement (the engine treats it as a no-op): an assignment to a name the running function declared global is an assignment to the
    module-level variable - kept in `state` and in the interpreter's module constants - and not a local."""
    declared = set()

    def before(c, interp, stmt, env):
        if isinstance(stmt, ast.Global):
            for n in stmt.names:
                declared.add((id(env), n))

    def after(c, interp, stmt, env):
        if isinstance(stmt, (ast.Assign, ast.AugAssign)):
            targets = stmt.targets if isinstance(stmt, ast.Assign) else [stmt.target]
            for t in targets:
                if isinstance(t, ast.Name) and t.id in names and (id(env), t.id) in declared and t.id in env.vars:
                    v = env.vars.pop(t.id)
                    interp.consts[t.id] = v
                    state[t.id] = v
                    c.event("global-write", t.id, v, [e[0] for e in c.events if e[0].startswith("import")])

    return {"before_stmt": before, "after_stmt": after}


def sm_setup(ctx):
    start = MODES[ctx.choose(len(MODES), "mode-before")]
    given = ctx.choose(4, "arguments(both / urls only / fsspec only / none)")
    have = {"u": ctx.choose(2, "requests-installed") == 1, "s": ctx.choose(2, "fsspec-installed") == 1}
    urls, fs = z3.Bool("urls_enabled"), z3.Bool("fsspec_enabled")
    env = {}
    if given in (0, 1):
        env["urls_enabled"] = urls
    if given in (0, 2):
        env["fsspec_enabled"] = fs
    state = {"_config_read_mode": start}

    def importer(flag, name):
        def f(c, a, k):
            c.event("import:" + flag, a, dict(k), state["_config_read_mode"])
            if not have[flag]:
                _fail("ImportError", name)
            return Rec("module " + name)
        return f

    calls = {"import_requests": importer("u", "import_requests"), "import_fsspec": importer("s", "import_fsspec")}
    return Setup(env=env, calls=calls, consts={"_config_read_mode": start}, hooks=global_hooks({"_config_read_mode"}, state),
                 data=dict(start=start, given=given, have=have, urls=urls if "urls_enabled" in env else False, fs=fs if "fsspec_enabled" in env else False, state=state,
                           tag=_tag(before=start, args=["both", "urls", "fsspec", "none"][given], requests=have["u"], fsspec=have["s"])))


def _sm_letters(ctx, d, label):
    tag = d["tag"]
    mode = d["state"]["_config_read_mode"]
    ok = isinstance(mode, str)
    ctx.oblige("post", label + "the-mode-is-a-string-of-the-letters-f,u,s,r-only,no-letter-twice,'f'-and-'r'-present(local files stay readable)" + tag,
               ok and set(mode) <= set("fusr") and len(set(mode)) == len(mode) and "f" in mode and "r" in mode)
    return mode if ok else None


def sm_post(ctx, st, result):
    d = st.data
    tag = d["tag"]
    mode = _sm_letters(ctx, d, "")
    if mode is None:
        return
    ctx.oblige("post", "urls-are-read('u')-exactly-when-asked-for(not asked = disabled)" + tag, lift(d["urls"]) == z3.BoolVal("u" in mode))
    ctx.oblige("post", "fsspec-file-systems-are-read('s')-exactly-when-asked-for(not asked = disabled)" + tag, lift(d["fs"]) == z3.BoolVal("s" in mode))
    ctx.oblige("post", "returns=>every-feature-asked-for-has-its-package" + tag, And(Or(Not(lift(d["urls"])), d["have"]["u"]), Or(Not(lift(d["fs"])), d["have"]["s"])))
    imps = [e for e in ctx.events if e[0].startswith("import:")]
    ctx.oblige("post", "a-package-is-asked-for-only-for-a-feature-being-enabled,once,naming-set_config_read_mode" + tag,
               And(lift(d["urls"]) == z3.BoolVal(any(e[0] == "import:u" for e in imps)), lift(d["fs"]) == z3.BoolVal(any(e[0] == "import:s" for e in imps)))
               if len(imps) == len({e[0] for e in imps}) and all(e[1] == ("set_config_read_mode",) and e[2] == {} for e in imps) else False)
    for e in imps:
        ctx.oblige("post", "validated-before-stored:the-letter-is-not-in-the-mode-when-its-package-is-looked-for,unless-it-was-enabled-before" + tag, (e[0][-1] not in e[3]) or (e[0][-1] in d["start"]))
    ctx.oblige("post", "returns-nothing" + tag, result is None)


def sm_raises(ctx, st, exc):
    d = st.data
    tag = d["tag"]
    mode = _sm_letters(ctx, d, "after-a-refusal:")
    flag = {"import_requests": "u", "import_fsspec": "s"}.get(exc.origin)
    ctx.oblige("raises", f"only-the-ImportError-of-a-missing-package-leaves(got {exc.cls}@{exc.origin})" + tag, exc.cls == "ImportError" and flag is not None and not d["have"].get(flag, True))
    if flag is None or mode is None:
        return
    ctx.oblige("raises", "refused=>that-feature-was-asked-for" + tag, lift(d["urls"] if flag == "u" else d["fs"]))
    ctx.oblige("raises", "validated-before-stored:the-letter-of-the-missing-package-is-not-stored-by-the-refused-call" + tag, (flag not in mode) or (flag in d["start"]))


def gm_setup(ctx):
    mode = z3.String("mode")
    return Setup(env={}, consts={"_config_read_mode": mode}, data=dict(mode=mode, tag=""))


def gm_post(ctx, st, result):
    ctx.oblige("post", "returns-the-stored-mode-itself(what set_config_read_mode stored)", result is st.data["mode"])


# ================================================================================================ the units
def units(prop):
    return [
        Unit(prop, J + "ActionJsonnet.split_ext_vars", sev_setup, sev_post, _never,
             trusted=["json.dumps(v) returns the JSON text of v (one fresh text per call)", "0-3 entries; keys symbolic, pairwise distinct; isinstance(v, str) by the value's kind"]),
        Unit(prop, J + "ActionJsonnet.parse", pa_setup, pa_post, pa_raises, expect_cover=("return", "raise:ImportError", "raise:ValidationError", "raise:TypeError"),
             trusted=["import_jsonnet returns the extension or raises ImportError (own unit); Path(x, mode=...) returns a Path for a readable path and raises TypeError otherwise (C19 units); Path.get_content returns the text",
                      "_jsonnet.evaluate_snippet returns JSON text or raises RuntimeError; load_value returns the value or raises the error class announced for its mode (r2_loaders units); YAML is a superset of JSON (external, bounded harness b05)",
                      "a jsonschema validator's validate returns or raises ValidationError; item assignment on a non-mapping raises TypeError",
                      "split_ext_vars by its contract (unit above); parser_context sets load_value_mode for its body (C08/C09 unit)"]),
        Unit(prop, J + "ActionJsonnet._check_type", ct_setup, ct_post, ct_raises, max_paths=20000, expect_cover=("return", "raise:TypeError"),
             trusted=["ActionJsonnet.parse fails with TypeError / ValueError / YAMLError / ValidationError / RuntimeError - or the ArgumentError its body raises today (unit above)",
                      "get_loader_exceptions() announces the classes of the mode in progress (r2_loaders unit); get_jsonschema_exceptions() imports jsonschema: ImportError without the package",
                      "_is_action_value_list by its unit (any_units); Namespace.get(key, default) returns the entry or the default; an empty namespace is falsy"]),
        Unit(prop, J + "ActionJsonnet.__call__", jc_setup, jc_post, jc_raises, expect_cover=("return", "raise:TypeError"),
             trusted=["argparse calls the action with (parser, namespace, value[, option string]); Action._check_type_ forwards to _check_type (r2_actions unit); setattr on the namespace stores under that name",
                      "str % str substitutes the single %s"]),
        Unit(prop, O + "set_config_read_mode", sm_setup, sm_post, sm_raises, expect_cover=("return", "raise:ImportError"),
             trusted=["import_requests / import_fsspec return the module or raise ImportError (own units)", "`global` makes the assignment in update_mode a module-level one (modelled by the unit's statement hooks)",
                      "the mode before the call is one of the five reachable from 'fr' through this function: fr, fur, fsr, fsur, fusr"]),
        Unit(prop, O + "get_config_read_mode", gm_setup, gm_post, _never, trusted=["module-level variable read"]),
    ]


CARRIES = {
    "C05": [":ActionJsonnet.split_ext_vars", ":ActionJsonnet.parse", ":ActionJsonnet._check_type"],
    "C03": [":ActionJsonnet.parse", ":ActionJsonnet._check_type", ":ActionJsonnet.__call__"],
    "C04": [":set_config_read_mode", ":get_config_read_mode", ":ActionJsonnet.parse"],
}
