"""C12 - auto_cli calls the component with exactly the parsed values.

Unit: jsonargparse._cli:_run_component - with ghost call events: the component (and, for a class, the selected method)
is invoked exactly once, each with only its own parameters (config / subcommand bookkeeping keys removed), and the
callee's return value is returned unchanged.
"""
import z3

from pyvc.engine import ClassRef, ExcVal, PyRaise, Rec, Unsupported
from pyvc.units import Setup, Unit


def ns_rec(store):
    """cfg (a Namespace after instantiate_classes) as a concrete map of symbolic values."""
    def pop(ctx, s_, a, k):
        return store.pop(a[0], a[1] if len(a) > 1 else None)

    return Rec("Namespace", attrs={"store": store}, methods={"pop": pop, "__kwargs__": lambda c, s_, a, k: dict(store)})


def rc_setup(ctx):
    kind = ["function", "coroutine", "class+method", "class+property", "class-without-methods"][ctx.choose(5, "component-kind")]
    has_config = ctx.choose(2, "config-key-present") == 1
    a, b, p, q = z3.Int("a"), z3.String("b"), z3.Int("p"), z3.String("q")
    ret_fn, ret_method, prop_value = z3.Int("return.of.component"), z3.Int("return.of.method"), z3.Int("value.of.property")
    store = {"a": a, "b": b}
    if has_config:
        store["config"] = z3.String("config.path")
    sub_store = {"p": p, "q": q}
    if kind in ("class+method", "class+property"):
        store["subcommand"] = "cmd"
        if kind == "class+method":
            if ctx.choose(2, "method-config-key-present") == 1:
                sub_store["config"] = z3.String("sub.config.path")
            store["cmd"] = ns_rec(sub_store)
    else:
        store["subcommand"] = None
    expected_top = {"a": a, "b": b}
    expected_sub = {"p": p, "q": q}

    def expand(kwargs):
        kw = dict(kwargs)
        star = kw.pop("**", None)
        if star is not None:
            kw.update(star.methods["__kwargs__"](None, star, (), {}))
        return kw

    def method(ctx_, s_, args, kwargs):
        ctx_.event("call-method", args, expand(kwargs))
        return ret_method

    obj = Rec("Instance", attrs={"cmd": prop_value} if kind == "class+property" else {}, methods={} if kind == "class+property" else {"cmd": method})

    def component_call(ctx_, s_, args, kwargs):
        ctx_.event("call-component", args, expand(kwargs))
        if kind.startswith("class"):
            return obj
        if kind == "coroutine":
            return Rec("coroutine", attrs={"result": ret_fn})
        return ret_fn

    comp_attrs = {}
    if kind == "class+method":
        comp_attrs["cmd"] = Rec("function")
    if kind == "class+property":
        comp_attrs["cmd"] = Rec("property")
    component = Rec("Component", attrs=comp_attrs, methods={"__call__": component_call})
    component.is_class = kind.startswith("class")
    calls = {
        "inspect.isclass": lambda c, a_, k: getattr(a_[0], "is_class", False),
        "inspect.iscoroutinefunction": lambda c, a_, k: a_[0] is component and kind == "coroutine",
        "__import__": lambda c, a_, k: Rec("asyncio", methods={"run": lambda c2, s2, a2, k2: (c2.event("asyncio.run"), a2[0].attrs["result"])[1]}),
    }

    def symcall(ctx_, f, args, kwargs):
        if isinstance(f, Rec) and "__call__" in f.methods:
            return f.methods["__call__"](ctx_, f, args, kwargs)
        return NotImplemented

    return Setup(env={"component": component, "cfg": ns_rec(store)}, calls=calls, symcall=symcall,
                 data=dict(kind=kind, top=expected_top, sub=expected_sub, ret_fn=ret_fn, ret_method=ret_method, prop=prop_value, obj=obj))


def same_kwargs(got, want):
    return set(got) == set(want) and all(got[k] is want[k] or (hasattr(got[k], "eq") and got[k].eq(want[k])) for k in want)


def rc_post(ctx, st, result):
    d = st.data
    kind = d["kind"]
    comp = [e for e in ctx.events if e[0] == "call-component"]
    meth = [e for e in ctx.events if e[0] == "call-method"]
    tag = f"[{kind}]"
    ctx.oblige("post", "component-invoked-exactly-once" + tag, len(comp) == 1)
    if len(comp) == 1:
        ctx.oblige("post", "component-gets-exactly-its-own-parameters(no config/subcommand/method keys)" + tag, comp[0][1] == () and same_kwargs(comp[0][2], d["top"]))
    if kind in ("function", "coroutine"):
        ctx.oblige("post", "returns-the-component's-return-value" + tag, result is d["ret_fn"])
        ctx.oblige("post", "no-method-call" + tag, not meth)
    elif kind == "class+method":
        ctx.oblige("post", "method-invoked-exactly-once-after-the-constructor" + tag, len(meth) == 1 and [e[0] for e in ctx.events if e[0].startswith("call")] == ["call-component", "call-method"])
        if len(meth) == 1:
            ctx.oblige("post", "method-gets-exactly-its-own-parameters" + tag, meth[0][1] == () and same_kwargs(meth[0][2], d["sub"]))
        ctx.oblige("post", "returns-the-method's-return-value" + tag, result is d["ret_method"])
    elif kind == "class+property":
        ctx.oblige("post", "returns-the-property-value-of-the-instance" + tag, result is d["prop"])
    else:
        ctx.oblige("post", "returns-the-instance" + tag, result is d["obj"])


def rc_raises(ctx, st, exc):
    ctx.oblige("raises", f"no-own-exception[{st.data['kind']}](got {exc.cls}@{exc.origin})", False)


UNITS = [
    Unit("C12", "jsonargparse._cli:_run_component", rc_setup, rc_post, rc_raises,
         trusted=["cfg (Namespace).pop(key, default) removes and returns the entry; **cfg passes exactly the remaining entries",
                  "inspect.isclass / inspect.iscoroutinefunction / asyncio.run as documented"]),
]
VERIFIED_CALLEES = ()
LEVEL = "other"
TECHNIQUE = "contract-based deductive verification (VCs from the real AST with ghost call events) + bounded run-time contract checking of auto_cli on generated signatures"
LEVEL_TEXT = "Proved on _run_component with ghost call events: the component (and for a class the chosen method) is invoked exactly once, each with exactly its own parameters (config/subcommand bookkeeping keys removed), constructor before method, and the callee's return value is returned, for functions, coroutines, classes with method / property / without methods. Bounded only: auto_cli end to end on generated signatures (34 types, 1-3 parameters, all kinds, argv and config)."
LEVEL_NOTE = "under construction"
EXPLANATION = "under construction"
ASSUMPTIONS = []
TRUSTED = []
BOUNDED = [{"name": "auto_cli-generated-signatures", "script": "bounded/b12_autocli.py"}]
