"""C12 - auto_cli calls the component with exactly the parsed values.

Unit: jsonargparse._cli:_run_component - with ghost call events: the component (and, for a class, the selected method)
is invoked exactly once, each with only its own parameters (config / subcommand bookkeeping keys removed), and the
callee's return value is returned unchanged.
"""
import z3

from pyvc.engine import ClassRef, ExcVal, PyRaise, Rec, Unsupported
from pyvc.units import Setup, Unit


def ns_rec(store):
    """cfg (a Namespace after instantiate_classes) as a concrete map of symbolic values."""
    def pop(ctx, s_, a, k):
        return store.pop(a[0], a[1] if len(a) > 1 else None)

    return Rec("Namespace", attrs={"store": store}, methods={"pop": pop, "__kwargs__": lambda c, s_, a, k: dict(store)})


def rc_setup(ctx):
    kind = ["function", "coroutine", "class+method", "class+property", "class-without-methods"][ctx.choose(5, "component-kind")]
    has_config = ctx.choose(2, "config-key-present") == 1
    a, b, p, q = z3.Int("a"), z3.String("b"), z3.Int("p"), z3.String("q")
    ret_fn, ret_method, prop_value = z3.Int("return.of.component"), z3.Int("return.of.method"), z3.Int("value.of.property")
    store = {"a": a, "b": b}
    if has_config:
        store["config"] = z3.String("config.path")
    sub_store = {"p": p, "q": q}
    if kind in ("class+method", "class+property"):
        store["subcommand"] = "cmd"
        if kind == "class+method":
            if ctx.choose(2, "method-config-key-present") == 1:
                sub_store["config"] = z3.String("sub.config.path")
            store["cmd"] = ns_rec(sub_store)
    else:
        store["subcommand"] = None
    expected_top = {"a": a, "b": b}
    expected_sub = {"p": p, "q": q}

    def expand(kwargs):
        kw = dict(kwargs)
        star = kw.pop("**", None)
        if star is not None:
            kw.update(star.methods["__kwargs__"](None, star, (), {}))
        return kw

    def method(ctx_, s_, args, kwargs):
        ctx_.event("call-method", args, expand(kwargs))
        return ret_method

    obj = Rec("Instance", attrs={"cmd": prop_value} if kind == "class+property" else {}, methods={} if kind == "class+property" else {"cmd": method})

    def component_call(ctx_, s_, args, kwargs):
        ctx_.event("call-component", args, expand(kwargs))
        if kind.startswith("class"):
            return obj
        if kind == "coroutine":
            return Rec("coroutine", attrs={"result": ret_fn})
        return ret_fn

    comp_attrs = {}
    if kind == "class+method":
        comp_attrs["cmd"] = Rec("function")
    if kind == "class+property":
        comp_attrs["cmd"] = Rec("property")
    component = Rec("Component", attrs=comp_attrs, methods={"__call__": component_call})
    component.is_class = kind.startswith("class")
    calls = {
        "inspect.isclass": lambda c, a_, k: getattr(a_[0], "is_class", False),
        "inspect.iscoroutinefunction": lambda c, a_, k: a_[0] is component and kind == "coroutine",
        "__import__": lambda c, a_, k: Rec("asyncio", methods={"run": lambda c2, s2, a2, k2: (c2.event("asyncio.run"), a2[0].attrs["result"])[1]}),
    }

    def symcall(ctx_, f, args, kwargs):
        if isinstance(f, Rec) and "__call__" in f.methods:
            return f.methods["__call__"](ctx_, f, args, kwargs)
        return NotImplemented

    return Setup(env={"component": component, "cfg": ns_rec(store)}, calls=calls, symcall=symcall,
                 data=dict(kind=kind, top=expected_top, sub=expected_sub, ret_fn=ret_fn, ret_method=ret_method, prop=prop_value, obj=obj))


def same_kwargs(got, want):
    return set(got) == set(want) and all(got[k] is want[k] or (hasattr(got[k], "eq") and got[k].eq(want[k])) for k in want)


def rc_post(ctx, st, result):
    d = st.data
    kind = d["kind"]
    comp = [e for e in ctx.events if e[0] == "call-component"]
    meth = [e for e in ctx.events if e[0] == "call-method"]
    tag = f"[{kind}]"
    ctx.oblige("post", "component-invoked-exactly-once" + tag, len(comp) == 1)
    if len(comp) == 1:
        ctx.oblige("post", "component-gets-exactly-its-own-parameters(no config/subcommand/method keys)" + tag, comp[0][1] == () and same_kwargs(comp[0][2], d["top"]))
    if kind in ("function", "coroutine"):
        ctx.oblige("post", "returns-the-component's-return-value" + tag, result is d["ret_fn"])
        ctx.oblige("post", "no-method-call" + tag, not meth)
    elif kind == "class+method":
        ctx.oblige("post", "method-invoked-exactly-once-after-the-constructor" + tag, len(meth) == 1 and [e[0] for e in ctx.events if e[0].startswith("call")] == ["call-component", "call-method"])
        if len(meth) == 1:
            ctx.oblige("post", "method-gets-exactly-its-own-parameters" + tag, meth[0][1] == () and same_kwargs(meth[0][2], d["sub"]))
        ctx.oblige("post", "returns-the-method's-return-value" + tag, result is d["ret_method"])
    elif kind == "class+property":
        ctx.oblige("post", "returns-the-property-value-of-the-instance" + tag, result is d["prop"])
    else:
        ctx.oblige("post", "returns-the-instance" + tag, result is d["obj"])


def rc_raises(ctx, st, exc):
    ctx.oblige("raises", f"no-own-exception[{st.data['kind']}](got {exc.cls}@{exc.origin})", False)


UNITS = [
    Unit("C12", "jsonargparse._cli:_run_component", rc_setup, rc_post, rc_raises,
         trusted=["cfg (Namespace).pop(key, default) removes and returns the entry; **cfg passes exactly the remaining entries",
                  "inspect.isclass / inspect.iscoroutinefunction / asyncio.run as documented"]),
]
VERIFIED_CALLEES = ()
LEVEL = "other"
TECHNIQUE = "contract-based deductive verification (VCs from the real AST with ghost call events) + bounded run-time contract checking of auto_cli on generated signatures"
LEVEL_TEXT = "Verified with ghost call events: auto_cli builds the parser, declares the component(s), parses the given argv, instantiates and dispatches exactly one component selected by the parsed subcommand path, returning its result (10 component shapes); _add_component_to_parser / _add_subcommands declare functions, classes (constructor group + one required subcommand per public method or property) and nested dicts with the caller's settings; _add_signature_arguments offers every resolved parameter exactly once in signature order (skips honoured, existing options refused first); _add_signature_parameter decides required / positional / Optional->None / default kept / *args, **kwargs and private defaults skipped (1536 parameter shapes); _run_component invokes the component (and the chosen method) exactly once, each with exactly its own parameters, constructor before method; handle_subcommands passes the failure mode down nested levels. Also: add_class_arguments / add_function_arguments / add_method_arguments (arguments in their roles), the selection clauses of get_subcommands (incl. methods without parameters: empty sections), and the lemma that every text Python prints for an int / float (incl. 1e-05) is read as that number by the real loader table. Bounded only: auto_cli end to end on generated signatures (34 types, 1-3 parameters, all kinds, argv and config)."
LEVEL_NOTE = "under construction"
EXPLANATION = "under construction"
ASSUMPTIONS = []
TRUSTED = []
BOUNDED = [{"name": "auto_cli-generated-signatures", "script": "bounded/b12_autocli.py"}]


# ------------------------------------------------------------------------------------- _add_signature_parameter (decision part)
EMPTY = Rec("inspect._empty")
SUPPRESS = "==SUPPRESS=="
KINDS = Rec("kinds", attrs={k: k for k in ("POSITIONAL_ONLY", "POSITIONAL_OR_KEYWORD", "VAR_POSITIONAL", "KEYWORD_ONLY", "VAR_KEYWORD")})


def sp_setup(ctx):
    from contracts.parse_models import noop_cm
    from pyvc.engine import ClassRef
    kind = ["POSITIONAL_OR_KEYWORD", "KEYWORD_ONLY", "VAR_POSITIONAL", "VAR_KEYWORD"][ctx.choose(4, "param-kind")]
    dflt = ["no-default", "a-value", "None"][ctx.choose(3, "param-default")]
    ann = ["int", "Optional[int]", "Complex", "untyped", "Optional[List[int]]", "float"][ctx.choose(6, "annotation")]  # float: the signature default is an int (x: float = 1)
    name = ["x", "_private"][ctx.choose(2, "name")]
    as_positional = ctx.choose(2, "as_positional") == 1
    fail_untyped = ctx.choose(2, "fail_untyped") == 1
    nested = [None, "grp"][ctx.choose(2, "nested_key")]
    linked = ctx.choose(2, "is-a-link-target") == 1
    default_val = z3.Int("signature-default")
    annotation = {"float": ClassRef("float"), "int": ClassRef("int"), "Optional[int]": Rec("Optional[int]", attrs={"optional": True, "wrapped_is_a_class": True}), "Complex": Rec("Dict[str, int]", attrs={"optional": False}), "untyped": EMPTY,
                  "Optional[List[int]]": Rec("Optional[List[int]]", attrs={"optional": True, "wrapped_is_a_class": False})}[ann]
    param = Rec("ParamData", attrs={"name": name, "kind": kind, "annotation": annotation, "default": {"no-default": EMPTY, "a-value": default_val, "None": None}[dflt],
                                    "doc": "help text", "origin": None, "component": Rec("fn"), "parent": None})
    added = []
    action = Rec("Action", attrs={})
    container = Rec("ArgumentGroup", methods={"add_argument": lambda c, s_, a, k: (added.append((a, dict(k))), action)[1]})
    optional_of = lambda x: Rec("Optional[...]", attrs={"of": x, "optional": True})  # noqa: E731
    calls = {
        # is_optional(annotation, ref_type=None): Union of exactly (T, None) and, when ref_type is given, T a subclass of it
        "is_optional": lambda c, a, k: isinstance(a[0], Rec) and a[0].attrs.get("optional", False) and (len(a) < 2 or a[1] is None or a[0].attrs.get("wrapped_is_a_class", False)),
        "get_typehint_origin": lambda c, a, k: None, "get_parameter_origins": lambda c, a, k: "src", "is_factory_class": lambda c, a, k: False,
        "is_dataclass_like": lambda c, a, k: False, "is_subclass": lambda c, a, k: False, "register_pydantic_type": lambda c, a, k: None,
        "ActionTypeHint.is_subclass_typehint": lambda c, a, k: False, "ActionTypeHint.is_return_subclass_typehint": lambda c, a, k: False,
        "ActionTypeHint.prepare_add_argument": lambda c, a, k: k["args"], "type": lambda c, a, k: ClassRef("int"),
        # conversions the body does not do today: another value than the one given (the declared default must stay the signature's own object, whatever its type -
        # the other declaration styles keep it too)
        "float": lambda c, a, k: Rec("float(...)", attrs={"of": a[0]}), "int": lambda c, a, k: Rec("int(...)", attrs={"of": a[0]}), "str": lambda c, a, k: Rec("str(...)", attrs={"of": a[0]}),
    }
    consts = {"inspect_empty": EMPTY, "SUPPRESS": SUPPRESS, "not_required_types": (), "kinds": KINDS, "Any": Rec("Any", attrs={"optional": True}),
              "Optional": Rec("typing.Optional", methods={"__getitem__": lambda c, s_, a, k: optional_of(a[0])}),
              "Union": Rec("typing.Union", methods={"__getitem__": lambda c, s_, a, k: Rec("Union[...]", attrs={"args": a[0], "optional": True})}), "ArgumentParser": ClassRef("ArgumentParser")}
    self = Rec("SignatureArguments", attrs={"logger": Rec("Logger", methods={"debug": lambda c, s_, a, k: None})})
    added_args = []
    env = {"self": self, "container": container, "nested_key": nested, "param": param, "added_args": added_args, "skip": None, "fail_untyped": fail_untyped, "as_positional": as_positional,
           "sub_configs": False, "instantiate": True, "linked_targets": {name} if linked else None, "default": EMPTY, "kwargs": {}}
    return Setup(env=env, calls=calls, consts=consts, cms={"ActionTypeHint.allow_default_instance_context": noop_cm("allow_default_instance")},
                 data=dict(kind=kind, dflt=dflt, ann=ann, name=name, as_positional=as_positional, fail_untyped=fail_untyped, nested=nested, linked=linked, default_val=default_val,
                           annotation=annotation, added=added, added_args=added_args))


def sp_expect(d):
    """What the statement says about one parameter -> None (skipped) or dict(required, positional, default-kind)."""
    if d["kind"] in ("VAR_POSITIONAL", "VAR_KEYWORD"):
        return None
    has_default = d["dflt"] != "no-default"
    optional_ann = d["ann"].startswith("Optional[")
    required = not has_default and not optional_ann
    if d["ann"] == "untyped" and not d["fail_untyped"]:
        required = False
    if required and d["linked"]:
        required = False  # a link target is not required from the user
    if not required and d["name"].startswith("_"):
        return None
    return {"required": required}


def sp_post(ctx, st, result):
    d = st.data
    exp = sp_expect(d)
    tag = f"[{d['kind']},{d['dflt']},{d['ann']},{d['name']}{',positional' if d['as_positional'] else ''}{',lenient' if not d['fail_untyped'] else ''}{',nested' if d['nested'] else ''}{',linked' if d['linked'] else ''}]"
    added = d["added"]
    if exp is None:
        ctx.oblige("post", "*args/**kwargs-and-private-parameters-with-a-default-are-not-offered" + tag, not added and not d["added_args"])
        return
    if d["ann"] == "untyped" and d["fail_untyped"] and d["dflt"] == "no-default" and not d["linked"]:
        ctx.oblige("post", "an-untyped-mandatory-parameter-cannot-be-added-silently(fail_untyped)" + tag, False)
        return
    ctx.oblige("post", "the-parameter-is-offered-exactly-once" + tag, len(added) == 1)
    if len(added) != 1:
        return
    args, kw = added[0]
    dest = (d["nested"] + "." if d["nested"] else "") + d["name"]
    if exp["required"]:
        if d["as_positional"]:
            ctx.oblige("post", "a-parameter-without-default-is-required:as-a-positional-when-asked" + tag, args == (dest,) and "default" not in kw)
        else:
            ctx.oblige("post", "a-parameter-without-default-is-required:as-a-required-option" + tag, args == ("--" + dest,) and kw.get("required") is True and "default" not in kw)
    else:
        ctx.oblige("post", "an-optional-parameter-is-an-option(never a positional, never required)" + tag, args == ("--" + dest,) and "required" not in kw)
        if d["dflt"] == "a-value":
            ctx.oblige("post", "the-signature-default-is-kept" + tag, kw.get("default") is d["default_val"])
        else:
            ctx.oblige("post", "no-default(or None)=>defaults-to-None" + tag, "default" in kw and kw["default"] is None)
    ctx.oblige("post", "the-key-is-nested_key.name-and-it-is-recorded-as-added" + tag, d["added_args"] == [dest])
    if d["ann"] != "untyped":
        t = kw.get("type")
        if d["dflt"] != "a-value" and d["ann"] == "Optional[List[int]]":
            # Optional[Optional[List[int]]] is the same type: either form is the annotation
            t = t.attrs.get("of", t) if isinstance(t, Rec) else t
        if d["dflt"] == "None" and d["ann"] in ("int", "Complex", "float"):
            ctx.oblige("post", "default-None-for-a-type-that-does-not-admit-None-widens-the-type-to-Optional" + tag, isinstance(t, Rec) and t.attrs.get("of") is d["annotation"])
        elif not (d["linked"] and d["dflt"] == "no-default" and not d["ann"].startswith("Optional[")):
            ctx.oblige("post", "the-declared-type-is-the-annotation" + tag, t is d["annotation"] or (isinstance(t, ClassRef_) and isinstance(d["annotation"], ClassRef_) and t.name == d["annotation"].name))


from pyvc.engine import ClassRef as ClassRef_  # noqa: E402


def sp_raises(ctx, st, exc):
    d = st.data
    ok = exc.cls == "ValueError" and d["ann"] == "untyped" and d["fail_untyped"] and d["dflt"] == "no-default" and not d["linked"] and d["kind"] not in ("VAR_POSITIONAL", "VAR_KEYWORD")
    ctx.oblige("raises", f"only-an-untyped-mandatory-parameter-is-refused(got {exc.cls}@{exc.origin})", ok)


UNITS.append(Unit("C12", "jsonargparse._signatures:SignatureArguments._add_signature_parameter", sp_setup, sp_post, sp_raises, max_paths=60000, expect_cover=("return", "raise:ValueError"),
                  trusted=["is_optional / is_dataclass_like / ActionTypeHint.is_subclass_typehint / prepare_add_argument: assumed typing-introspection contracts (A4)", "container.add_argument declares the argument as given"]))


# handle_subcommands: auto_cli's nested components (dict of functions, classes with methods) are nested subcommands; the settings of the
# chosen one reach the call only if every level is resolved with the caller's fail_no_subcommand (contract of contracts/c17.py)
import dataclasses  # noqa: E402
from contracts.c17 import UNITS as _C17_UNITS  # noqa: E402
UNITS += [dataclasses.replace(u, prop="C12") for u in _C17_UNITS if u.target.endswith("handle_subcommands")]
# _ActionSubCommands.__call__: the component named on the command line is the one that is run, also when a --config given before named another one
UNITS += [dataclasses.replace(u, prop="C12") for u in _C17_UNITS if u.target.endswith("_ActionSubCommands.__call__")]
# get_subcommands: which method is the chosen one (the name given, else the first with a section - an empty section, a method without parameters, counts),
# its parser, its section kept.  Not taken over: `no section of another subcommand remains` (refuted on the shipped code for one case: C17 known finding)
from contracts.share import without_clauses  # noqa: E402
UNITS += [without_clauses(u, "C12", ("no-section-of-another-subcommand-remains",), "selection-clauses") for u in _C17_UNITS if u.target.endswith("get_subcommands")]


# ------------------------------------------------------------------------------------------------ _add_signature_arguments
# every parameter that the resolver reports for the component (C13) is offered exactly once, in signature order, in the group created for
# the component, with the caller's settings; skipped names / leading positionals are left out; a name that already exists is refused
# before anything is declared.
def asa_setup(ctx):
    n = ctx.choose(4, "number-of-parameters")
    skip_kind = ["none", "a-name", "first-positional", "two-int-entries", "zero", "name-and-positional"][ctx.choose(6, "skip")]
    clash = ctx.choose(2, "an-option-with-that-name-already-exists") == 1 if n else False
    nested = [None, "grp"][ctx.choose(2, "nested_key")]
    method = [None, "run"][ctx.choose(2, "method_name")]
    help_given = ctx.choose(2, "help-given") == 1
    names = ["a", "b", "c"][:n]
    params = [Rec("ParamData", attrs={"name": nm}) for nm in names]
    skip = {"none": None, "a-name": {"b"}, "first-positional": {1}, "two-int-entries": {1, 2}, "zero": {0}, "name-and-positional": {"c", 1}}[skip_kind]
    prefix = "--" + (nested + "." if nested else "")
    existing = {prefix + names[-1]: Rec("existing action")} if clash else {}
    container = Rec("the group created for the component")
    flags = {"fail_untyped": z3.Bool("fail_untyped"), "sub_configs": z3.Bool("sub_configs"), "as_positional": z3.Bool("as_positional"), "instantiate": z3.Bool("instantiate"), "as_group": z3.Bool("as_group")}
    linked = Rec("linked_targets")
    comp = Rec("component", attrs={"run": Rec("component.run")})
    created = []

    def create_group(c, s_, a, k):
        created.append((a, dict(k)))
        return container

    def add_param(c, s_, a, k):
        c.event("offer", a[0], a[1], a[2], a[3], dict(k))
        a[3].append((nested + "." if nested else "") + a[2].attrs["name"])

    self = Rec("SignatureArguments", attrs={"logger": Rec("Logger", methods={"debug": lambda c, s_, a, k: None}), "_option_string_actions": existing},
               methods={"_create_group_if_requested": create_group, "_add_signature_parameter": add_param})
    calls = {"get_signature_parameters": lambda c, a, k: (c.event("resolve", a[0], a[1]), list(params))[1], "get_doc_short_description": lambda c, a, k: "doc of the component"}
    env = {"self": self, "function_or_class": comp, "method_name": method, "nested_key": nested, "skip": skip, "linked_targets": linked, "help": "given help" if help_given else None}
    env.update(flags)
    return Setup(env=env, calls=calls, data=dict(n=n, names=names, params=params, skip=skip, skip_kind=skip_kind, clash=clash, nested=nested, method=method, help_given=help_given, container=container,
                                                 flags=flags, linked=linked, comp=comp, created=created, prefix=prefix))


def asa_expect(d):
    """-> ('error', why) | ('ok', [params offered])"""
    skip = d["skip"] or set()
    ints = [s for s in skip if isinstance(s, int)]
    params = list(d["params"])
    if ints:
        if len(ints) > 1 or any(p <= 0 for p in ints):
            return ("error", "bad-skip")
        params = params[ints[0]:]
    for p in params:
        if p.attrs["name"] in skip:
            continue
        if d["clash"] and p.attrs["name"] == d["names"][-1]:
            return ("error", "exists")
    return ("ok", params)


def asa_post(ctx, st, result):
    d = st.data
    tag = f"[{d['n']} params,skip:{d['skip_kind']}{',exists' if d['clash'] else ''}{',nested' if d['nested'] else ''}{',method' if d['method'] else ''}]"
    exp = asa_expect(d)
    ctx.oblige("post", "accepted=>no-existing-option-is-shadowed-and-the-skip-request-is-well-formed" + tag, exp[0] == "ok")
    if exp[0] != "ok":
        return
    offers = [e for e in ctx.events if e[0] == "offer"]
    want = exp[1]
    str_skip = {s for s in (d["skip"] or set()) if isinstance(s, str)}
    ok = len(offers) == len(want) and all(o[3] is p and o[1] is d["container"] and o[2] == d["nested"] and o[4] is result for o, p in zip(offers, want))
    ctx.oblige("post", "every-reported-parameter(after the skipped leading positionals)-is-offered-exactly-once,in-signature-order,in-the-component's-group,under-the-same-nested-key" + tag, ok)
    kw_ok = all(set(o[5].get("skip")) == str_skip and o[5].get("fail_untyped") is d["flags"]["fail_untyped"] and o[5].get("sub_configs") is d["flags"]["sub_configs"]
                and o[5].get("as_positional") is d["flags"]["as_positional"] and o[5].get("linked_targets") is d["linked"] for o in offers)
    ctx.oblige("post", "each-with-the-caller's-settings(names to skip, fail_untyped, sub_configs, as_positional, linked targets)" + tag, kw_ok)
    c = d["created"]
    comp = d["comp"].attrs["run"] if d["method"] else d["comp"]
    ctx.oblige("post", "one-group-for-the-component(the method when one is named);whole-group-loading-only-when-there-are-parameters;instantiate-as-asked" + tag,
               len(c) == 1 and c[0][0][0] is comp and c[0][0][1] == d["nested"] and c[0][0][2] is d["flags"]["as_group"] and c[0][0][3] == ("given help" if d["help_given"] else "doc of the component")
               and c[0][1].get("config_load") is (len(want) > 0) and c[0][1].get("instantiate") is d["flags"]["instantiate"])
    ctx.oblige("post", "returns-the-keys-that-were-added" + tag, isinstance(result, list) and result == [(d["nested"] + "." if d["nested"] else "") + p.attrs["name"] for p in want])
    rs = [e for e in ctx.events if e[0] == "resolve"]
    ctx.oblige("post", "the-parameters-are-those-the-resolver-reports-for-this-component-and-method" + tag, len(rs) == 1 and rs[0][1] is d["comp"] and rs[0][2] == d["method"])


def asa_raises(ctx, st, exc):
    d = st.data
    exp = asa_expect(d)
    ctx.oblige("raises", f"ValueError-exactly-for-a-shadowed-option-or-a-malformed-skip,before-anything-is-declared[{d['skip_kind']}{',exists' if d['clash'] else ''}](got {exc.cls})",
               exc.cls == "ValueError" and exp[0] == "error" and not d["created"] and not [e for e in ctx.events if e[0] == "offer"])


UNITS.append(Unit("C12", "jsonargparse._signatures:SignatureArguments._add_signature_arguments", asa_setup, asa_post, asa_raises, max_paths=20000, expect_cover=("return", "raise:ValueError"),
                  trusted=["get_signature_parameters reports the parameters (C13 units and harness)", "_create_group_if_requested / _add_signature_parameter by contract (the latter: its own unit)"]))


# ------------------------------------------------------------------------------------------------ auto_cli (build, parse, instantiate, dispatch)
def ac_setup12(ctx):
    from contracts.ns_units import Branch, build, common as ns_common, c_setitem, ns_rec
    from pyvc.engine import Fn
    scen = ["one-function", "list-of-one", "list-of-two", "dict-nested", "dict-with-class", "dict-with-help-key", "empty-list", "not-callable", "not-callable-in-list", "set_defaults"][ctx.choose(10, "components")]
    with_defaults = scen == "set_defaults" or (scen == "list-of-two" and ctx.choose(2, "set_defaults-given") == 1)
    flags_given = ctx.choose(2, "as_positional/fail_untyped-given") == 1
    ctx.classes.add("Namespace", ["object"])
    f1, f2, K, bad = Rec("function f1", attrs={"__name__": "f1"}), Rec("function f2", attrs={"__name__": "f2"}), Rec("class K", attrs={"__name__": "K"}), z3.Int("not-a-callable")
    comps = {"one-function": f1, "list-of-one": [f1], "list-of-two": [f1, f2], "dict-nested": {"grp": {"f2": f2, "f1": f1}, "f1": f1}, "dict-with-class": {"K": K, "f1": f1},
             "dict-with-help-key": {"grp": {"_help": "help of the group", "f2": f2}}, "empty-list": [], "not-callable": bad, "not-callable-in-list": [f1, bad], "set_defaults": f1}[scen]
    sec = Rec("Namespace section of the selected component")
    init_tree = {"one-function": Branch(x=z3.Int("x")), "list-of-one": Branch(x=z3.Int("x")), "set_defaults": Branch(x=z3.Int("x")),
                 "list-of-two": Branch(subcommand="f2", f2=Branch(y=z3.Int("y"))),
                 "dict-nested": Branch(subcommand="grp", grp=Branch(subcommand="f1", f1=Branch(z=z3.Int("z")))),
                 "dict-with-class": Branch(subcommand="K", K=Branch(a=z3.Int("a"), subcommand="run", run=Branch(b=z3.Int("b")))),
                 "dict-with-help-key": Branch(subcommand="grp", grp=Branch(subcommand="f2", f2=Branch(y=z3.Int("y"))))}.get(scen, Branch())
    init = build(init_tree)
    cfg = Rec("Namespace parsed")
    argv = ["--x=1"]
    result_token = Rec("what the component returned")
    defaults = {"x": 5} if with_defaults else None

    parser = Rec("ArgumentParser", methods={
        "add_argument": lambda c, s_, a, k: c.event("add_argument", a, dict(k)),
        "set_defaults": lambda c, s_, a, k: c.event("set_defaults", a[0]),
        "parse_args": lambda c, s_, a, k: (c.event("parse_args", a[0] if a else k.get("args")), cfg)[1],
        "instantiate_classes": lambda c, s_, a, k: (c.event("instantiate_classes", a[0]), init)[1]})

    def dict_to_namespace(c, a, k):
        def conv(d):
            return Branch((kk, conv(vv) if isinstance(vv, dict) else vv) for kk, vv in d.items())
        return build(conv(a[0]))

    calls = {
        "inspect.isclass": lambda c, a, k: a[0] is K, "callable": lambda c, a, k: a[0] in (f1, f2, K) if isinstance(a[0], Rec) else False,
        "dict_to_namespace": dict_to_namespace,
        "_add_component_to_parser": lambda c, a, k: c.event("add_component", a[0], a[1], a[2], a[3], a[4]),
        "_add_subcommands": lambda c, a, k: c.event("add_subcommands", a[0], a[1], a[2], a[3], a[4]),
        "_run_component": lambda c, a, k: (c.event("run", a[0], a[1]), result_token)[1],
    }
    consts, inline = ns_common(ctx)
    consts["ActionConfigFile"] = Rec("ActionConfigFile")
    flags = {"as_positional": z3.Bool("as_positional"), "fail_untyped": z3.Bool("fail_untyped")} if flags_given else {"as_positional": True, "fail_untyped": True}  # the documented defaults
    env = {"components": comps, "args": argv, "config_help": "cfg help", "set_defaults": defaults, "parser_class": Fn(lambda c, a, k: (c.event("parser_class", dict(k)), parser)[1], "parser_class"), "kwargs": {"prog": "app"}}
    if flags_given:
        env.update(flags)
    return Setup(env=env, calls=calls, consts=consts, inline=inline,
                 data=dict(scen=scen, f1=f1, f2=f2, K=K, comps=comps, init=init, cfg=cfg, argv=argv, result_token=result_token, parser=parser, flags=flags, defaults=defaults))


def ac_post12(ctx, st, result):
    from contracts.ns_units import rec_at
    d = st.data
    tag = f"[{d['scen']}]"
    ev = ctx.events
    legal = d["scen"] not in ("empty-list", "not-callable", "not-callable-in-list")
    ctx.oblige("post", "accepted=>the-components-are-functions-or-classes(at least one)" + tag, legal)
    if not legal:
        return
    single = d["scen"] in ("one-function", "list-of-one", "set_defaults")
    sel, section = {
        "one-function": (d["f1"], d["init"]), "list-of-one": (d["f1"], d["init"]), "set_defaults": (d["f1"], d["init"]),
        "list-of-two": (d["f2"], rec_at(d["init"], ["f2"])), "dict-nested": (d["f1"], rec_at(d["init"], ["grp", "f1"])),
        "dict-with-class": (d["K"], rec_at(d["init"], ["K"])), "dict-with-help-key": (d["f2"], rec_at(d["init"], ["grp", "f2"]))}[d["scen"]]
    runs = [e for e in ev if e[0] == "run"]
    ctx.oblige("post", "exactly-one-component-is-run:the-one-the-parsed-subcommand-path-selects(a class's method is chosen inside _run_component),with-its-own-section-of-the-instantiated-configuration" + tag,
               len(runs) == 1 and runs[0][1] is sel and runs[0][2] is section)
    ctx.oblige("post", "returns-what-the-component-returned" + tag, result is d["result_token"])
    order = [e[0] for e in ev if e[0] in ("parser_class", "add_argument", "add_component", "add_subcommands", "set_defaults", "parse_args", "instantiate_classes", "run")]
    want = ["parser_class", "add_argument", "add_component" if single else "add_subcommands"] + (["set_defaults"] if d["defaults"] is not None else []) + ["parse_args", "instantiate_classes", "run"]
    ctx.oblige("post", "build(parser, --config, arguments of the component(s), defaults),parse-the-given-argv,instantiate,dispatch:in-this-order,each-once" + tag, order == want)
    pa = [e for e in ev if e[0] == "parse_args"][0]
    ic = [e for e in ev if e[0] == "instantiate_classes"][0]
    ctx.oblige("post", "the-argv-given-is-what-is-parsed-and-the-parse-result-is-what-is-instantiated" + tag, pa[1] is d["argv"] and ic[1] is d["cfg"])
    add = [e for e in ev if e[0] in ("add_component", "add_subcommands")][0]
    if single:
        ctx.oblige("post", "the-component's-parameters-are-declared-with-the-caller's-settings" + tag, add[1] is d["f1"] and add[2] is d["parser"] and add[3] is d["flags"]["as_positional"] and add[4] is d["flags"]["fail_untyped"] and add[5] == "cfg help")
    else:
        names = list(add[1]) if isinstance(add[1], dict) else None
        want_names = ["f1", "f2"] if d["scen"] == "list-of-two" else list(d["comps"])
        ctx.oblige("post", "several-components-become-subcommands-named-after-them,declared-with-the-caller's-settings" + tag, names == want_names and add[2] is d["parser"] and add[4] is d["flags"]["as_positional"] and add[5] is d["flags"]["fail_untyped"])
    pc = [e for e in ev if e[0] == "parser_class"][0]
    ctx.oblige("post", "the-parser-gets-the-caller's-keywords(and no meta keys in results)" + tag, pc[1] == {"default_meta": False, "prog": "app"})


def ac_raises12(ctx, st, exc):
    d = st.data
    ctx.oblige("raises", f"ValueError-exactly-for-empty-or-non-callable-components,before-anything-is-parsed[{d['scen']}](got {exc.cls}@{exc.origin})",
               exc.cls == "ValueError" and d["scen"] in ("empty-list", "not-callable", "not-callable-in-list") and not [e for e in ctx.events if e[0] in ("parse_args", "run")])


UNITS.append(Unit("C12", "jsonargparse._cli:auto_cli", ac_setup12, ac_post12, ac_raises12, expect_cover=("return", "raise:ValueError"), max_paths=5000,
                  trusted=["_add_component_to_parser / _add_subcommands / _run_component by contract (their own units)", "parser.parse_args / instantiate_classes by contract (C04 / C14 / C16 units)",
                           "dict_to_namespace nests the components by name (C11)", "components=None (taken from the caller's module) is outside these scenarios"]))


# ------------------------------------------------------------------------------------------------ _add_component_to_parser / _add_subcommands
def acp_setup(ctx):
    kind = ["function", "class-without-public-methods", "class-with-methods"][ctx.choose(3, "component")]
    has_descr = ctx.choose(2, "parser-already-has-a-description") == 1
    ctx.classes.add("property", ["object"])
    m_plain, m_cfg, m_noargs, prop = Rec("method run"), Rec("method fit(config)"), Rec("method ping()"), Rec("property", attrs={})
    members = {"function": [], "class-without-public-methods": [("__init__", Rec("init")), ("_private", Rec("m")), ("attr", 5)],
               "class-with-methods": [("__init__", Rec("init")), ("_hidden", Rec("m")), ("fit", m_cfg), ("info", prop), ("limit", 3), ("ping", m_noargs), ("run", m_plain)]}[kind]
    comp = Rec("component", attrs={n: v for n, v in members})
    flags = {"as_positional": z3.Bool("as_positional"), "fail_untyped": z3.Bool("fail_untyped")}
    subparsers = []
    subcommands = Rec("subcommands action", methods={"add_subcommand": lambda c, s_, a, k: c.event("add_subcommand", a[0], a[1], dict(k))})

    def mk_parser(description):
        r = Rec("ArgumentParser", attrs={"description": description, "logger": Rec("logger")})
        r.methods.update({
            "add_function_arguments": lambda c, s_, a, k: (c.event("add_function_arguments", s_, a[0], dict(k)), ["x", "y"])[1],
            "add_class_arguments": lambda c, s_, a, k: (c.event("add_class_arguments", s_, a[0], dict(k)), ["a"])[1],
            "add_method_arguments": lambda c, s_, a, k: (c.event("add_method_arguments", s_, a[0], a[1], dict(k)), [] if a[1] == "ping" else ["p"])[1],
            "add_subcommands": lambda c, s_, a, k: (c.event("add_subcommands", s_, dict(k)), subcommands)[1],
            "add_argument": lambda c, s_, a, k: c.event("add_argument", s_, a, dict(k))})
        return r

    parser = mk_parser("given description" if has_descr else None)

    def new_parser(c, a, k):
        sp = mk_parser(k.get("description"))
        subparsers.append(sp)
        return sp

    calls = {"inspect.isclass": lambda c, a, k: kind != "function" and a[0] is comp, "inspect.getmembers": lambda c, a, k: list(members),
             "callable": lambda c, a, k: isinstance(a[0], Rec) and a[0].cls != "property", "get_help_str": lambda c, a, k: ("help of", a[0]),
             "has_parameter": lambda c, a, k: a[0] is m_cfg and a[1] == "config", "type": lambda c, a, k: __import__("pyvc.engine", fromlist=["Fn"]).Fn(new_parser, "type(parser)"),
             "remove_actions": lambda c, a, k: c.event("remove_actions", a[0], a[1])}
    from pyvc.engine import ClassRef
    consts = {"ActionConfigFile": Rec("ActionConfigFile"), "_ActionPrintConfig": Rec("_ActionPrintConfig"), "property": ClassRef("property")}
    env = {"component": comp, "parser": parser, "config_help": "cfg help"}
    env.update(flags)
    return Setup(env=env, calls=calls, consts=consts, data=dict(kind=kind, has_descr=has_descr, comp=comp, parser=parser, flags=flags, subparsers=subparsers, subcommands=subcommands, m_cfg=m_cfg, prop=prop))


def acp_post(ctx, st, result):
    d = st.data
    tag = f"[{d['kind']}{',described' if d['has_descr'] else ''}]"
    ev = ctx.events
    kw = {"as_positional": d["flags"]["as_positional"], "fail_untyped": d["flags"]["fail_untyped"], "sub_configs": True}

    def same_kw(got, extra):
        want = dict(kw, **extra)
        return set(got) == set(want) and all(got[k] is want[k] for k in want)

    if d["kind"] == "function":
        e = [x for x in ev if x[0] == "add_function_arguments"]
        ctx.oblige("post", "a-function's-parameters-are-declared-directly-on-the-parser(no group),with-the-caller's-settings" + tag, len(e) == 1 and e[0][1] is d["parser"] and e[0][2] is d["comp"] and same_kw(e[0][3], {"as_group": False}) and result == ["x", "y"])
    elif d["kind"] == "class-without-public-methods":
        e = [x for x in ev if x[0] == "add_class_arguments"]
        ctx.oblige("post", "a-class-without-public-methods:only-its-constructor-parameters(no subcommands)" + tag, len(e) == 1 and e[0][2] is d["comp"] and same_kw(e[0][3], {"as_group": False}) and result == ["a"] and not [x for x in ev if x[0] == "add_subcommands"])
    else:
        e = [x for x in ev if x[0] == "add_class_arguments"]
        ctx.oblige("post", "a-class-with-methods:the-constructor-parameters-form-the-class's-own-group" + tag, len(e) == 1 and e[0][1] is d["parser"] and e[0][2] is d["comp"] and same_kw(e[0][3], {}))
        sc = [x for x in ev if x[0] == "add_subcommands"]
        ctx.oblige("post", "choosing-a-method-is-required" + tag, len(sc) == 1 and sc[0][1] is d["parser"] and sc[0][2] == {"required": True})
        added = [x for x in ev if x[0] == "add_subcommand"]
        ctx.oblige("post", "one-subcommand-per-public-method-or-property(private names and plain attributes are not offered),each-with-its-own-parser" + tag,
                   [x[1] for x in added] == ["fit", "info", "ping", "run"] and len(d["subparsers"]) == 4 and all(x[2] is sp for x, sp in zip(added, d["subparsers"])))
        ma = [x for x in ev if x[0] == "add_method_arguments"]
        ctx.oblige("post", "each-method's-own-parameters-are-declared-on-its-own-parser(a property has none)" + tag,
                   [x[3] for x in ma] == ["fit", "ping", "run"] and all(x[2] is d["comp"] and same_kw(x[4], {"as_group": False}) for x in ma)
                   and all(x[1] is d["subparsers"][i] for x, i in zip(ma, (0, 2, 3))))
        cfgs = [x for x in ev if x[0] == "add_argument"]
        ctx.oblige("post", "a-method-gets-a---config-option-unless-it-has-a-parameter-called-config-itself" + tag,
                   [x[1] for x in cfgs] == [d["subparsers"][2], d["subparsers"][3]] and all(x[2] == ("--config",) for x in cfgs))
        rm = [x for x in ev if x[0] == "remove_actions"]
        ctx.oblige("post", "a-method-without-parameters-keeps-no-config/print_config-options" + tag, len(rm) == 1 and rm[0][1] is d["subparsers"][2])
        ctx.oblige("post", "returns-the-constructor's-keys-and-each-method's-keys-prefixed-by-the-method-name" + tag, result == ["a", "fit.p", "run.p"])
    if d["kind"] != "class-with-methods":
        ctx.oblige("post", "the-parser's-description-is-the-component's-help-unless-one-was-given" + tag,
                   d["parser"].attrs["description"] == ("given description" if d["has_descr"] else ("help of", d["comp"])))


def acp_raises(ctx, st, exc):
    ctx.oblige("raises", f"no-own-exception[{st.data['kind']}](got {exc.cls}@{exc.origin})", False)


UNITS.append(Unit("C12", "jsonargparse._cli:_add_component_to_parser", acp_setup, acp_post, acp_raises, max_paths=5000,
                  trusted=["add_function_arguments / add_class_arguments / add_method_arguments by contract (_add_signature_arguments: its own unit)", "inspect.getmembers lists (name, member) pairs sorted by name",
                           "add_subcommands / add_subcommand by contract (C17, C03 units)"]))


def asc12_setup(ctx):
    from pyvc.engine import Fn
    f1, f2, K = Rec("function f1"), Rec("function f2"), Rec("class K")
    comps = {"_help": "help of this level", "f1": f1, "grp": {"_help": "help of grp", "f2": f2}, "K": K}
    subcommands = Rec("subcommands action", methods={"add_subcommand": lambda c, s_, a, k: c.event("add_subcommand", a[0], a[1], dict(k))})
    subparsers = []

    def mk_parser(description):
        r = Rec("ArgumentParser", attrs={"description": description, "logger": Rec("logger")})
        r.methods.update({"add_subcommands": lambda c, s_, a, k: (c.event("add_subcommands", s_, dict(k)), subcommands)[1], "add_argument": lambda c, s_, a, k: c.event("add_argument", s_, a, dict(k))})
        return r

    parser = mk_parser(None)

    def new_parser(c, a, k):
        sp = mk_parser(k.get("description"))
        subparsers.append(sp)
        return sp

    flags = {"as_positional": z3.Bool("as_positional"), "fail_untyped": z3.Bool("fail_untyped")}
    calls = {"get_help_str": lambda c, a, k: a[0].get("_help") if isinstance(a[0], dict) else ("help of", a[0]), "type": lambda c, a, k: Fn(new_parser, "type(parser)"),
             "_add_subcommands": lambda c, a, k: c.event("recurse", a[0], a[1], a[2], a[3], a[4]),
             "_add_component_to_parser": lambda c, a, k: (c.event("add_component", a[0], a[1], a[2], a[3], a[4]), [] if a[0] is f1 else ["x"])[1],
             "remove_actions": lambda c, a, k: c.event("remove_actions", a[0])}
    env = {"components": comps, "parser": parser, "config_help": "cfg help"}
    env.update(flags)
    return Setup(env=env, calls=calls, consts={"ActionConfigFile": Rec("ActionConfigFile"), "_ActionPrintConfig": Rec("_ActionPrintConfig")},
                 data=dict(comps=comps, f1=f1, f2=f2, K=K, parser=parser, subparsers=subparsers, flags=flags))


def asc12_post(ctx, st, result):
    d = st.data
    ev = ctx.events
    sc = [e for e in ev if e[0] == "add_subcommands"]
    ctx.oblige("post", "choosing-one-of-the-components-is-required", len(sc) == 1 and sc[0][1] is d["parser"] and sc[0][2] == {"required": True})
    added = [e for e in ev if e[0] == "add_subcommand"]
    ctx.oblige("post", "one-subcommand-per-component,named-by-its-key(the _help entry is not a component),each-with-its-own-parser-and---config", [e[1] for e in added] == ["f1", "grp", "K"] and len(d["subparsers"]) == 3
               and all(e[2] is sp for e, sp in zip(added, d["subparsers"])) and [e[1] for e in ev if e[0] == "add_argument"] == d["subparsers"])
    rec = [e for e in ev if e[0] == "recurse"]
    ctx.oblige("post", "a-nested-dict-becomes-nested-subcommands-on-its-own-parser,with-the-same-settings", len(rec) == 1 and rec[0][1] is d["comps"]["grp"] and rec[0][2] is d["subparsers"][1]
               and rec[0][3] == "cfg help" and rec[0][4] is d["flags"]["as_positional"] and rec[0][5] is d["flags"]["fail_untyped"])
    ac = [e for e in ev if e[0] == "add_component"]
    ctx.oblige("post", "a-function-or-class-is-declared-on-its-own-parser,with-the-same-settings", [e[1] for e in ac] == [d["f1"], d["K"]] and ac[0][2] is d["subparsers"][0] and ac[1][2] is d["subparsers"][2]
               and all(e[3] is d["flags"]["as_positional"] and e[4] is d["flags"]["fail_untyped"] and e[5] == "cfg help" for e in ac))
    ctx.oblige("post", "a-component-without-parameters-keeps-no-config-options", [e[1] for e in ev if e[0] == "remove_actions"] == [d["subparsers"][0]])


def asc12_raises(ctx, st, exc):
    ctx.oblige("raises", f"no-own-exception(got {exc.cls}@{exc.origin})", False)


UNITS.append(Unit("C12", "jsonargparse._cli:_add_subcommands", asc12_setup, asc12_post, asc12_raises, max_paths=100,
                  trusted=["_add_component_to_parser and the recursive call by contract", "add_subcommands / add_subcommand by contract"]))


from contracts.signature_units import add_class_arguments_unit, add_function_arguments_unit, add_method_arguments_unit  # noqa: E402
UNITS += [add_class_arguments_unit("C12"), add_function_arguments_unit("C12"), add_method_arguments_unit("C12")]


# the values reach the call with the type of their parameter: what Python prints for a number is read back as that number by the loader table
from contracts.c01 import python_number_text_lemmas  # noqa: E402
LEMMAS = [python_number_text_lemmas("C12")]

from contracts.share import carried as _carried  # noqa: E402
UNITS += _carried("C12")
