"""Re-labelling of units: a function that several properties depend on is verified once per property that carries one of its clauses
(the same real body and contract; the obligations are counted under each property that needs them)."""
import dataclasses
import importlib


def shared(prop, module, *suffixes, label=None):
    m = importlib.import_module(module)
    out = []
    for u in m.UNITS:
        if u.target.endswith(tuple(suffixes)) and (label is None or u.label == label):
            out.append(dataclasses.replace(u, prop=prop))
    if not out:
        raise RuntimeError(f"no unit of {module} matches {suffixes}")
    return out


def without_clauses(unit, prop, drop_prefixes, label):
    """The same unit counted under another property without the clauses named (by prefix of the obligation name): e.g. the selection
    clauses of get_subcommands under C12, while `no section of another subcommand remains` - refuted on the shipped code, a C17
    known finding - stays C17's."""
    def filtered(fn):
        if fn is None:
            return None

        def run(ctx, st, outcome):
            real = ctx.oblige

            def oblige(kind, name, formula, **kw):
                if not name.startswith(tuple(drop_prefixes)):
                    return real(kind, name, formula, **kw)
            ctx.oblige = oblige
            try:
                return fn(ctx, st, outcome)
            finally:
                ctx.oblige = real
        return run

    return dataclasses.replace(unit, prop=prop, post=filtered(unit.post), raises=filtered(unit.raises), label=(unit.label + "+" + label).lstrip("+"))


def only_clauses(unit, prop, kinds=("raises", "pre", "frame"), label="exception-clauses"):
    """The same unit counted under another property for some kinds of its obligations only (e.g. the exception clauses of the type
    arms under C03: which value conforms is C02's clause and its known findings stay there).  The body is executed as before; the
    obligations of the other kinds are not emitted."""
    def filtered(fn):
        if fn is None:
            return None

        def run(ctx, st, outcome):
            real = ctx.oblige

            def oblige(kind, name, formula, **kw):
                if kind in kinds:
                    return real(kind, name, formula, **kw)
            ctx.oblige = oblige
            try:
                return fn(ctx, st, outcome)
            finally:
                ctx.oblige = real
        return run

    def post(ctx, st, result):
        if unit.post is not None:
            filtered(unit.post)(ctx, st, result)
        ctx.oblige("post", "normal-return:this-property's-clauses-of-the-unit-are-its-exception-clauses(checked on the raising paths)", True)

    return dataclasses.replace(unit, prop=prop, post=post, raises=filtered(unit.raises), label=(unit.label + "+" + label).lstrip("+"))


R2_MODULES = ["r2_actions", "r2_annotations", "r2_coremisc", "r2_jsonnetopt", "r2_keys", "r2_linksig", "r2_loaders", "r2_paths", "r2_regtypes", "r2_resolver", "r2_typehelpers", "r2_utilmisc"]


def carried(prop):
    """Units of the second-round modules (contracts/r2_*.py) that `prop` carries: each module exposes units(prop) and CARRIES = {prop: [target
    suffix (optionally followed by [label]), ...]}; a cNN module appends carried("Cnn") at its very end (after its own names are defined)."""
    out = []
    for name in R2_MODULES:  # reviewed modules only: a module is listed here once its refuted clauses have been triaged (DESIGN 11.10)
        m = importlib.import_module("contracts." + name)
        wanted = getattr(m, "CARRIES", {}).get(prop)
        if not wanted:
            continue
        us = m.units(prop)
        for w in wanted:
            hit = [u for u in us if (u.target + (f"[{u.label}]" if u.label else "")).endswith(w) or u.target.endswith(w)]
            if not hit:
                raise RuntimeError(f"{m.__name__}: CARRIES[{prop}] names {w!r}, which matches no unit")
            out.extend(h for h in hit if h not in out)
    return out
