"""Re-labelling of units: a function that several properties depend on is verified once per property that carries one of its clauses
(the same real body and contract; the obligations are counted under each property that needs them)."""
import dataclasses
import importlib


def shared(prop, module, *suffixes, label=None):
    m = importlib.import_module(module)
    out = []
    for u in m.UNITS:
        if u.target.endswith(tuple(suffixes)) and (label is None or u.label == label):
            out.append(dataclasses.replace(u, prop=prop))
    if not out:
        raise RuntimeError(f"no unit of {module} matches {suffixes}")
    return out
