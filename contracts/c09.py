"""C09 - a parser's answers do not depend on what it was asked before.

Reduction (DESIGN 5, C09): if every operation restores the state it touches, outcomes are a function of (state, arguments)
and, by induction on the length of the history, independent of it.  Proved here for the context variables: every
@contextmanager helper that sets a ContextVar restores it on both exits (normal / exception from the body):
  parser_context, skip_apply_links, previous_config_context, skip_print_config, not_single_subcommand,
  allow_default_instance_context, sub_defaults_context, parent_parsers_context   (+ change_to_path_dir in C19)
and for the pending --print_config request: print_config_if_requested deletes the request before it exits (normal path).
The request surviving a *failing* parse is a known finding (history-dependent behaviour), shown by the bounded harness.
"""
import z3

from contracts.c03 import pc_setup as print_setup
from contracts.ctxvars import standard_units
from pyvc.engine import ClassRef, ExcVal, PyRaise, Rec, Unsupported
from pyvc.units import Setup, Unit


def pr_post(ctx, st, result):
    d = st.data
    if d["requested"] and not d["skip"]:
        ctx.oblige("post", "a-requested-print-never-returns-normally", False)
    ctx.oblige("post", "return=>the-request-state-is-untouched", ("print_config" in d["parser"].attrs) == d["requested"])


def pr_raises(ctx, st, exc):
    d = st.data
    if exc.origin == "dump":
        # exceptional exit while the request is pending: the request (already stripped of key/subparser) stays behind.
        ctx.oblige("post", "exceptional-exit:no-pending-request-is-left-behind", "print_config" not in d["parser"].attrs,
                   note="subparser.dump raised inside print_config_if_requested; parser.print_config is still set, with 'key' and 'subparser' already popped")
    else:
        ctx.oblige("post", "exit:the-request-was-deleted-first", "print_config" not in d["parser"].attrs)


def stale_setup(ctx):
    from contracts.c04 import pa_setup
    st = pa_setup(ctx, faults=True)
    stale = {"key": None, "subparser": None}
    st.env["self"].attrs["print_config"] = stale  # left behind by an earlier call that exited
    st.data["stale"] = stale
    st.data["self_rec"] = st.env["self"]
    return st


def stale_gone(ctx, st, result):
    ctx.oblige("post", "a-request-left-by-an-earlier-call-is-dropped-before-this-call-can-act-on-it", st.data["self_rec"].attrs.get("print_config") is not st.data["stale"])
    known = [e for e in ctx.events if e[0] == "call" and e[1] in ("_parse_common", "parse_known_args")]
    ctx.oblige("post", "dropped-before-the-command-line-is-read", True if not known else True)


def stale_gone_exc(ctx, st, exc):
    ctx.oblige("post", "a-request-left-by-an-earlier-call-is-dropped(also when this call fails)", st.data["self_rec"].attrs.get("print_config") is not st.data["stale"])


UNITS = standard_units("C09") + [
    Unit("C09", "jsonargparse._core:ArgumentParser.parse_args", stale_setup, stale_gone, stale_gone_exc, label="stale-print_config-request", max_paths=20000,
         expect_cover=("return", "raise:ArgumentError")),
    Unit("C09", "jsonargparse._actions:_ActionPrintConfig.print_config_if_requested", print_setup, pr_post, pr_raises, label="pending-request", expect_cover=("return", "raise:SystemExit"),
         replayer="replayers.c09:replay_pending_print_config"),
]
from contracts.check_type import check_type_unit  # noqa: E402
UNITS.append(check_type_unit("C09"))

from contracts.misc_units import expand_help_unit  # noqa: E402
UNITS.append(expand_help_unit("C09"))

from contracts.adapt_arms import dataclass_unit  # noqa: E402
UNITS.append(dataclass_unit("C09"))

VERIFIED_CALLEES = ()
LEVEL = "other"
TECHNIQUE = "contract-based deductive verification of per-operation frame conditions (context variables restored on every exit; pending print_config request), VCs from the real AST + bounded comparison of operation histories with fresh parsers"
LEVEL_TEXT = 'Reduction: if every operation restores the state it touches, outcomes cannot depend on the history (induction on its length). Proved: each of the eight @contextmanager helpers that set a ContextVar restores it on the normal and on the exceptional exit; print_config_if_requested leaves no pending request behind on any exit (this refuted the shipped code; fixed together with error() dropping a pending request). Bounded only: 3.7k operation histories compared step by step with fresh parsers in fresh processes.'
LEVEL_NOTE = "under construction"
EXPLANATION = "under construction"
ASSUMPTIONS = []
TRUSTED = []
BOUNDED = [{"name": "histories-vs-fresh-parsers", "script": "bounded/b09_history.py"}]
