"""C09 - a parser's answers do not depend on what it was asked before.

Reduction (DESIGN 5, C09): if every operation restores the state it touches, outcomes are a function of (state, arguments)
and, by induction on the length of the history, independent of it.  Proved here for the context variables: every
@contextmanager helper that sets a ContextVar restores it on both exits (normal / exception from the body):
  parser_context, skip_apply_links, previous_config_context, skip_print_config, not_single_subcommand,
  allow_default_instance_context, sub_defaults_context, parent_parsers_context   (+ change_to_path_dir in C19)
and for the pending --print_config request: print_config_if_requested deletes the request before it exits (normal path).
The request surviving a *failing* parse is a known finding (history-dependent behaviour), shown by the bounded harness.
"""
import z3

from contracts.c03 import pc_setup as print_setup
from contracts.ctxvars import standard_units
from pyvc.engine import ClassRef, ExcVal, PyRaise, Rec, Unsupported
from pyvc.units import Setup, Unit


def pr_post(ctx, st, result):
    d = st.data
    if d["requested"] and not d["skip"]:
        ctx.oblige("post", "a-requested-print-never-returns-normally", False)
    ctx.oblige("post", "return=>the-request-state-is-untouched", ("print_config" in d["parser"].attrs) == d["requested"])


def pr_raises(ctx, st, exc):
    d = st.data
    if exc.origin == "dump":
        # exceptional exit while the request is pending: the request (already stripped of key/subparser) stays behind.
        ctx.oblige("post", "exceptional-exit:no-pending-request-is-left-behind", "print_config" not in d["parser"].attrs,
                   note="subparser.dump raised inside print_config_if_requested; parser.print_config is still set, with 'key' and 'subparser' already popped")
    else:
        ctx.oblige("post", "exit:the-request-was-deleted-first", "print_config" not in d["parser"].attrs)


def stale_setup(ctx):
    from contracts.c04 import pa_setup
    st = pa_setup(ctx, faults=True)
    stale = {"key": None, "subparser": None}
    st.env["self"].attrs["print_config"] = stale  # left behind by an earlier call that exited
    st.data["stale"] = stale
    st.data["self_rec"] = st.env["self"]
    return st


def stale_gone(ctx, st, result):
    ctx.oblige("post", "a-request-left-by-an-earlier-call-is-dropped-before-this-call-can-act-on-it", st.data["self_rec"].attrs.get("print_config") is not st.data["stale"])
    known = [e for e in ctx.events if e[0] == "call" and e[1] in ("_parse_common", "parse_known_args")]
    ctx.oblige("post", "dropped-before-the-command-line-is-read", True if not known else True)


def stale_gone_exc(ctx, st, exc):
    ctx.oblige("post", "a-request-left-by-an-earlier-call-is-dropped(also when this call fails)", st.data["self_rec"].attrs.get("print_config") is not st.data["stale"])


def fresh_request_setup(ctx):
    """--print_config is read from this call's command line (the action stores the request on the parser); then any callee may end the
    call: a subcommand's parser or --help exiting (SystemExit from parse_known_args / _parse_common), a failure reported through
    self.error, or the request being honoured (print and exit 0)."""
    from contracts.c04 import pa_setup
    st = pa_setup(ctx, faults=False)
    rec = st.env["self"]
    request = {"key": None, "subparser": None}
    how = ["returns", "a-subparser-exits-2", "help-exits-0", "fails-TypeError"][ctx.choose(4, "parse_known_args")]
    then = ["prints-and-exits-0", "a-subparser-exits-2", "fails-KeyError", "returns(request skipped)"][ctx.choose(4, "_parse_common")] if how == "returns" else "-"
    real_known = rec.methods["parse_known_args"]

    def parse_known(c, s_, a, k):
        s_.attrs["print_config"] = request
        if how == "a-subparser-exits-2":
            raise PyRaise(ExcVal("SystemExit", args=(2,), origin="subparser.exit"))
        if how == "help-exits-0":
            raise PyRaise(ExcVal("SystemExit", args=(0,), origin="help"))
        if how == "fails-TypeError":
            raise PyRaise(ExcVal("TypeError", args=("bad",), origin="parse_known_args"))
        return real_known(c, s_, a, k)

    def parse_common(c, s_, a, k):
        if then == "prints-and-exits-0":
            s_.attrs.pop("print_config", None)  # print_config_if_requested: its own unit (deletes the request first)
            raise PyRaise(ExcVal("SystemExit", args=(0,), origin="print_config_if_requested"))
        if then == "a-subparser-exits-2":
            raise PyRaise(ExcVal("SystemExit", args=(2,), origin="subparser.exit"))
        if then == "fails-KeyError":
            raise PyRaise(ExcVal("KeyError", args=("bad",), origin="_parse_common"))
        return cfg_of_common(k)

    def cfg_of_common(k):
        from contracts.parse_models import cfg, expr_of
        return cfg(("common", expr_of(k["cfg"])))

    def error(c, s_, a, k):
        s_.attrs.pop("print_config", None)  # contract of ArgumentParser.error: the pending request is dropped before it raises / exits
        if c.choose(2, "error-mode(exit_on_error)") == 0:
            raise PyRaise(ExcVal("ArgumentError", origin="self.error"))
        raise PyRaise(ExcVal("SystemExit", args=(2,), origin="self.error"))

    rec.methods.update({"parse_known_args": parse_known, "_parse_common": parse_common, "error": error})
    st.data.update(self_rec=rec, how=how, then=then, request=request)
    return st


def no_request_left(ctx, st, outcome):
    d = st.data
    ctx.oblige("post", f"whatever-ends-the-call,no---print_config-request-stays-on-the-parser-for-another-parse-method-to-act-on[parse_known_args:{d['how']},_parse_common:{d['then']}]",
               "print_config" not in d["self_rec"].attrs, note=f"exit: {getattr(outcome, 'cls', 'return')}@{getattr(outcome, 'origin', '')}")


UNITS = standard_units("C09") + [
    Unit("C09", "jsonargparse._core:ArgumentParser.parse_args", fresh_request_setup, no_request_left, no_request_left, label="print_config-request-of-this-call", max_paths=2000,
         expect_cover=("return", "raise:SystemExit", "raise:ArgumentError"),
         trusted=["ArgumentParser.error drops a pending request before it raises or exits (repair 2d64f91)", "print_config_if_requested deletes the request before it prints (its own unit)",
                  "a callee may raise SystemExit: a subcommand's parser with exit_on_error=True, --help"]),
    Unit("C09", "jsonargparse._core:ArgumentParser.parse_args", stale_setup, stale_gone, stale_gone_exc, label="stale-print_config-request", max_paths=20000,
         expect_cover=("return", "raise:ArgumentError")),
    Unit("C09", "jsonargparse._actions:_ActionPrintConfig.print_config_if_requested", print_setup, pr_post, pr_raises, label="pending-request", expect_cover=("return", "raise:SystemExit"),
         replayer="replayers.c09:replay_pending_print_config"),
]
from contracts.check_type import check_type_unit  # noqa: E402
UNITS.append(check_type_unit("C09"))

from contracts.misc_units import expand_help_unit  # noqa: E402
UNITS.append(expand_help_unit("C09"))

from contracts.adapt_arms import dataclass_unit  # noqa: E402
UNITS.append(dataclass_unit("C09"))

VERIFIED_CALLEES = ()
LEVEL = "other"
TECHNIQUE = "contract-based deductive verification of per-operation frame conditions (context variables restored on every exit; pending print_config request), VCs from the real AST + bounded comparison of operation histories with fresh parsers"
LEVEL_TEXT = "Reduction: if every operation restores the state it touches, outcomes cannot depend on the history (induction on its length). Verified: each of the eight @contextmanager helpers that set a ContextVar restores it on the normal and on the exceptional exit; print_config_if_requested leaves no pending request behind on any exit and parse_args drops a stale one at entry (both refuted the shipped code; fixed); the units of the parse / dump / defaults / instantiate paths (parse_args, parse_object, parse_string, _parse_defaults_and_environ, _load_env_vars, get_defaults, merge_config, _apply_actions, _check_value_key, dump, instantiate_classes) are re-verified with a parser frame: no attribute of the parser is added, removed, rebound or changed in place (parse_args: except the scratch attribute args, shown to be assigned before its only reader); the dataclass arm and _expand_help do not write into the action (both refuted the shipped code; fixed). A --print_config request read by parse_args never outlives the call, whatever ends it (a subcommand's parser exiting, --help; refuted the shipped code a third time; fixed). Bounded addition: exit_on_error=True parsers, one-step histories with SystemExit caught x 7 calls. Bounded only: 3.7k operation histories compared step by step with fresh parsers in fresh processes."
LEVEL_NOTE = "under construction"
EXPLANATION = "under construction"
ASSUMPTIONS = []
TRUSTED = []
BOUNDED = [{"name": "histories-vs-fresh-parsers", "script": "bounded/b09_history.py"}]


# ------------------------------------------------------------------------------------------------ parser frame
# "a parser's answers do not depend on what it was asked before": every operation leaves the parser object as it found it - no
# attribute is added, removed, rebound or (for list / dict / set attributes) changed in place.  The units of the other properties
# are re-verified here with this frame condition added (same real bodies, same callee contracts).
import dataclasses as _dc  # noqa: E402


def _content(v):
    if isinstance(v, (list, tuple)):
        return ("seq", [id(x) if isinstance(x, (Rec, list, dict, set)) or z3.is_expr(x) else x for x in v])
    if isinstance(v, dict):
        return ("map", {k: id(x) if isinstance(x, (Rec, list, dict, set)) or z3.is_expr(x) else x for k, x in v.items()})
    if isinstance(v, (set, frozenset)):
        return ("set", sorted(map(repr, v)))
    if isinstance(v, Rec):
        # an object the parser owns (a group, a sub-action): what its attributes are bound to, and the content of its containers, one level down
        return ("rec", {k: (id(x), _content(x) if isinstance(x, (list, tuple, dict, set, frozenset)) else None) if isinstance(x, (Rec, list, dict, set, tuple, frozenset)) or z3.is_expr(x) else x for k, x in v.attrs.items()})
    return None


def framed(unit, self_key="self", allow=(), why=""):
    def setup(ctx):
        st = unit.setup(ctx)
        rec = st.env.get(self_key)
        if isinstance(rec, Rec):
            st.data["__frame"] = (rec, dict(rec.attrs), {k: _content(v) for k, v in rec.attrs.items()})
        return st

    def check(ctx, st, outcome):
        if "__frame" not in st.data:
            ctx.oblige("frame", "the-scenario-has-a-parser-object", False)
            return
        rec, snap, contents = st.data["__frame"]
        now = rec.attrs
        keys = (set(now) | set(snap)) - set(allow)
        changed = [k for k in keys if k not in now or k not in snap or not (now[k] is snap[k] or (not isinstance(now[k], Rec) and not z3.is_expr(now[k]) and type(now[k]) is type(snap[k]) and now[k] == snap[k]))]
        inplace = [k for k in keys if k in now and k in snap and _content(now[k]) != contents.get(k)]
        ctx.oblige("frame", f"the-parser-object-is-left-as-it-was-found({outcome}):no-attribute-added,removed,rebound-or-changed-in-place" + (f"(except {', '.join(allow)}: {why})" if allow else ""),
                   not changed and not inplace, note=f"changed: {changed + inplace}")

    def post(ctx, st, result):
        unit.post(ctx, st, result)
        check(ctx, st, "normal return")

    def raises(ctx, st, exc):
        unit.raises(ctx, st, exc)
        check(ctx, st, "exception")

    return _dc.replace(unit, prop="C09", setup=setup, post=post, raises=raises, label=(unit.label + "+parser-frame").lstrip("+"))


from contracts.c04 import UNITS as _C04  # noqa: E402
from contracts.apply_actions import apply_actions_unit  # noqa: E402
from contracts.check_value_key import check_value_key_unit  # noqa: E402
from contracts.core_units import dump_unit, instantiate_unit  # noqa: E402

_FRAMED_TARGETS = ("ArgumentParser._parse_defaults_and_environ", "ArgumentParser.merge_config", "ArgumentParser.parse_object", "ArgumentParser.parse_string", "ArgumentParser._load_env_vars",
                   "ArgumentParser.get_defaults")
UNITS += [framed(u) for u in _C04 if u.target.endswith(_FRAMED_TARGETS)]
# parse_args: `print_config` - a stale request is dropped at entry (stale-request unit); `args` - scratch: assigned unconditionally at entry, before the only
# reader (the class-help action, during parse_known_args of the same call), so no call reads what an earlier call left there
UNITS += [framed(u, allow=("print_config", "args"), why="print_config: stale request dropped at entry; args: scratch attribute assigned at entry before its only reader") for u in _C04 if u.target.endswith("ArgumentParser.parse_args")]
UNITS += [framed(apply_actions_unit("C09")), framed(check_value_key_unit("C09")), framed(dump_unit("C09")), framed(instantiate_unit("C09"))]


# the scratch attribute `args`: whatever an earlier call left there, the argv handlers of *this* call (parse_known_args) see this call's argv
def scratch_setup(ctx):
    from contracts.c04 import pa_setup
    st = pa_setup(ctx)
    rec = st.env["self"]
    stale = ["--left-by-an-earlier-call"]
    if ctx.choose(2, "an-earlier-call-left-its-argv-on-the-parser") == 1:
        rec.attrs["args"] = stale
    seen = []
    inner = rec.methods["parse_known_args"]

    def parse_known_args(c, s_, a, k):
        seen.append(s_.attrs.get("args"))
        return inner(c, s_, a, k)

    rec.methods["parse_known_args"] = parse_known_args
    st.data.update(seen=seen, stale=stale, given=st.env["args"])
    return st


def scratch_post(ctx, st, result):
    d = st.data
    ctx.oblige("post", "while-argv-is-processed-parser.args-is-this-call's-argv(a copy),never-an-earlier-call's", len(d["seen"]) == 1 and d["seen"][0] == d["given"] and d["seen"][0] is not d["stale"])


def scratch_raises(ctx, st, exc):
    d = st.data
    ctx.oblige("raises", "while-argv-is-processed-parser.args-is-this-call's-argv(a copy),never-an-earlier-call's", len(d["seen"]) == 1 and d["seen"][0] == d["given"] and d["seen"][0] is not d["stale"])


UNITS.append(Unit("C09", "jsonargparse._core:ArgumentParser.parse_args", scratch_setup, scratch_post, scratch_raises, label="scratch-attribute-args", expect_cover=("return", "raise:ArgumentError")))


# ------------------------------------------------------------------------------------------------ get_class_parser: a fresh parser per adaptation, nothing written back
def gcp_setup(ctx):
    from pyvc.engine import Fn
    sak_kind = ["None", "empty", "settings", "settings-with-skip-set", "settings-with-spec-default", "settings-with-linked-targets"][ctx.choose(6, "sub_add_kwargs")]
    skip_args = [0, 1][ctx.choose(2, "skip_args")]
    is_class = ctx.choose(2, "class-or-function") == 0
    given_as = ["object", "import-path"][ctx.choose(2, "val_class-given-as")]
    the_class = Rec("the class")
    skip_set = {"x"}
    spec_default = Rec("Namespace", attrs={"spec": True}, methods={"get": lambda c, s_, a, k: Rec("init_args of the default") if a[0] == "init_args" else None})
    linked = {"lk"}
    sak = {"None": None, "empty": {}, "settings": {"fail_untyped": True}, "settings-with-skip-set": {"fail_untyped": True, "skip": skip_set},
           "settings-with-spec-default": {"fail_untyped": True, "default": spec_default, "instantiate": False}, "settings-with-linked-targets": {"fail_untyped": True, "linked_targets": linked}}[sak_kind]
    snapshot = dict(sak) if sak is not None else None
    skip_snapshot = set(skip_set)
    required = {"lk", "other"}
    made = []

    def new_parser(c, a, k):
        p = Rec("ArgumentParser(new)", attrs={"required_args": required, "made_with": dict(k)}, methods={
            "add_class_arguments": lambda c2, s2, a2, k2: c2.event("add_class_arguments", a2[0], dict(k2)),
            "add_function_arguments": lambda c2, s2, a2, k2: c2.event("add_function_arguments", a2[0], dict(k2)),
            "link_arguments": lambda c2, s2, a2, k2: c2.event("link", dict(k2))})
        made.append(p)
        return p

    current = Rec("ArgumentParser(current)", attrs={"logger": Rec("logger"), "parser_mode": "yaml"})
    calls = {"import_object": lambda c, a, k: (c.event("import", a[0]), the_class)[1], "is_subclass_spec": lambda c, a, k: isinstance(a[0], Rec) and a[0].attrs.get("spec", False),
             "parent_parser.get": lambda c, a, k: current, "type": lambda c, a, k: Fn(new_parser, "type(parser)"), "remove_actions": lambda c, a, k: c.event("remove_actions", a[0]),
             "inspect.isclass": lambda c, a, k: is_class, "nested_links.get": lambda c, a, k: [{"source": "s", "target": "t"}]}
    consts = {"ActionConfigFile": Rec("ActionConfigFile"), "_ActionPrintConfig": Rec("_ActionPrintConfig")}
    env = {"val_class": the_class if given_as == "object" else "pkg.K", "sub_add_kwargs": sak, "skip_args": skip_args}
    return Setup(env=env, calls=calls, consts=consts, data=dict(sak_kind=sak_kind, skip_args=skip_args, is_class=is_class, given_as=given_as, the_class=the_class, sak=sak, snapshot=snapshot, skip_set=skip_set,
                                                                skip_snapshot=skip_snapshot, made=made, current=current, required=required, linked=linked, spec_default=spec_default))


def gcp_post(ctx, st, result):
    d = st.data
    tag = f"[{d['sak_kind']},skip_args={d['skip_args']},{'class' if d['is_class'] else 'function'}]"
    ctx.oblige("post", "a-new-parser-is-built-for-every-call(same logger and mode as the current one,failures as exceptions,marked as inner)" + tag,
               len(d["made"]) == 1 and result is d["made"][0] and result.attrs["made_with"] == {"exit_on_error": False, "logger": d["current"].attrs["logger"], "parser_mode": "yaml"} and result.attrs.get("_inner_parser") is True)
    if d["sak"] is not None:
        ctx.oblige("frame", "the-settings-handed-in(the action's own sub_add_kwargs)-are-not-written:nothing-of-this-call-is-remembered-for-the-next-one" + tag,
                   d["sak"] == d["snapshot"] and all(d["sak"][k] is d["snapshot"][k] for k in d["snapshot"]) and d["skip_set"] == d["skip_snapshot"])
    ev = [e for e in ctx.events if e[0] in ("add_class_arguments", "add_function_arguments")]
    want_kw = dict(d["snapshot"] or {})
    if d["skip_args"]:
        want_kw["skip"] = set(d["skip_snapshot"] if "skip" in want_kw else set()) | {d["skip_args"]}
    if d["sak_kind"] == "settings-with-spec-default":
        want_kw["default"] = "<init_args of the default>"
    if not d["is_class"]:
        want_kw.pop("instantiate", None)
    got = dict(ev[0][2]) if ev else {}
    if "default" in got and isinstance(got["default"], Rec) and got["default"].cls == "init_args of the default":
        got["default"] = "<init_args of the default>"
    ctx.oblige("post", "the-class's(function's)-parameters-are-declared-with-those-settings(+ the positionals to skip;a spec default reduced to its init_args)" + tag,
               len(ev) == 1 and ev[0][0] == ("add_class_arguments" if d["is_class"] else "add_function_arguments") and ev[0][1] is d["the_class"] and got == want_kw)
    if d["sak_kind"] == "settings-with-linked-targets":
        ctx.oblige("post", "a-parameter-that-is-a-link-target-upstream-is-not-required-from-the-user" + tag, d["required"] == {"other"})
    ctx.oblige("post", "links-nested-in-the-spec-are-declared-on-the-new-parser" + tag, [e[1] for e in ctx.events if e[0] == "link"] == [{"source": "s", "target": "t"}])


def gcp_raises(ctx, st, exc):
    ctx.oblige("raises", f"no-own-exception(got {exc.cls}@{exc.origin})", False)


UNITS.append(Unit("C09", "jsonargparse._typehints:ActionTypeHint.get_class_parser", gcp_setup, gcp_post, gcp_raises, max_paths=5000,
                  trusted=["type(parser)(...) builds an empty parser; add_class_arguments / add_function_arguments / link_arguments by contract"]))


# instantiate_classes applies the instantiation links through apply_instantiation_links: what has been applied is this call's business
# (it travels in the call's own copy of the configuration); nothing of it may be kept on the parser or its links group, where a call that
# failed half-way would leave it for the next one
from contracts.c16 import UNITS as _C16_UNITS  # noqa: E402
UNITS += [framed(u, self_key="parser") for u in _C16_UNITS if u.target.endswith("ActionLink.apply_instantiation_links")]


# ------------------------------------------------------------------------------------------------ DefaultHelpFormatter.add_usage
# argparse hands the parser's own list of actions to the formatter (format_usage / format_help / print_usage, i.e. --help and every
# error reported in exit mode): the usage is written without the link actions, and the list handed in stays the parser's list.
def au_setup(ctx):
    layout = [["a", "LINK", "b"], ["LINK", "LINK2"], ["a"], []][ctx.choose(4, "actions")]
    ctx.classes.add("ActionLink", ["Action"])
    acts = [Rec("ActionLink" if n.startswith("LINK") else "Action", attrs={"dest": n}) for n in layout]
    passed = []
    usage, extra, kw = Rec("usage"), Rec("groups"), {"prefix": Rec("prefix")}
    calls = {"super": lambda c, a, k: Rec("super()", methods={"add_usage": lambda c2, s2, a2, k2: passed.append((list(a2), dict(k2), a2[1]))})}
    consts = {"ActionLink": ClassRef("ActionLink")}
    given = list(acts)
    return Setup(env={"self": Rec("DefaultHelpFormatter"), "usage": usage, "actions": given, "args": (extra,), "kwargs": kw}, calls=calls, consts=consts,
                 data=dict(layout=layout, acts=acts, given=given, passed=passed, usage=usage, extra=extra, kw=kw))


def au_post(ctx, st, result):
    d = st.data
    tag = f"[{d['layout']}]"
    want = [a for a in d["acts"] if a.cls != "ActionLink"]
    ok = len(d["passed"]) == 1
    if ok:
        a, k, lst = d["passed"][0]
        ok = len(a) == 3 and a[0] is d["usage"] and a[2] is d["extra"] and k == d["kw"] and len(lst) == len(want) and all(x is y for x, y in zip(lst, want))
    ctx.oblige("post", "the-usage-is-written-for-the-actions-that-are-not-links,in-their-order,with-the-other-arguments-as-given" + tag, ok)
    ctx.oblige("frame", "the-list-of-actions-handed-in(argparse passes the parser's own list)-is-not-modified" + tag, len(d["given"]) == len(d["acts"]) and all(x is y for x, y in zip(d["given"], d["acts"])))


UNITS.append(Unit("C09", "jsonargparse._formatters:DefaultHelpFormatter.add_usage", au_setup, au_post, None, expect_cover=("return",),
                  trusted=["argparse.HelpFormatter.add_usage (super()) only reads its arguments"]))

# handle_subcommands answers from its arguments alone: it does not read parse_kwargs, the one context variable that is set and never reset
from contracts.share import shared as _shared  # noqa: E402
UNITS += _shared("C09", "contracts.c17", "_ActionSubCommands.handle_subcommands")

# the arms that receive the previous value (which may be the parser's own declared default object) build a new value, they never write into it
from contracts.adapt_arms import arms_units as _arms_units  # noqa: E402
UNITS += [u for u in _arms_units("C09") if u.label in ("List:append-and-sub-options", "Dict:item-option")]

from contracts.share import carried as _carried  # noqa: E402
UNITS += _carried("C09")
