"""ArgumentParser.validate (the outer function) and ArgumentParser.strip_unknown (jsonargparse/_core.py).

validate: the two nested checks (their own units, C06) are *always* reached the way the property needs them:
  * check_values runs on every call, on a clone of what was given (wrapped under `branch` when one is named), inside the parser's
    load-value context; nothing switches it off;
  * check_required runs unless skip_required or the lenient phase, with this parser and the caller's key prefix, after the values;
  * a TypeError / KeyError of either check leaves as the same class with the message prefixed once; anything else as it is;
  * the configuration handed in is not touched (C08): only the clone is handed on.
strip_unknown: the result is a clone holding exactly the keys that have an action or are meta keys - every foreign key removed, no
declared key removed, the given object untouched.
"""
import z3

from pyvc.engine import ClassRef, ExcVal, Fn, PyRaise, Rec
from pyvc.units import Setup, Unit

OUTCOMES = ["ok", "TypeError", "NSKeyError", "TypeError-already-prefixed", "ValueError"]


def va_setup(ctx):
    branch = [None, "br"][ctx.choose(2, "branch")]
    skip_required = ctx.choose(2, "skip_required") == 1
    lenient = ctx.choose(2, "lenient-phase") == 1
    values = OUTCOMES[ctx.choose(len(OUTCOMES), "check_values")]
    required = ["ok", "TypeError"][ctx.choose(2, "check_required")] if values == "ok" else "ok"
    prefix_kw = [None, "fit."][ctx.choose(2, "_prefix")]
    open_cms = []
    given = Rec("Namespace(given)")
    clone = Rec("Namespace(clone)")
    given.methods["clone"] = lambda c, s_, a, k: (c.event("clone"), clone)[1]
    wrapped = {}

    def ns_new(c, a, k):
        r = Rec("Namespace(new)")
        r.methods["__setitem__"] = lambda c2, s_, a2, k2: wrapped.__setitem__(a2[0], a2[1])
        wrapped["__obj__"] = r
        return r

    def outcome(kind, origin):
        if kind == "ok":
            return None
        msg = {"TypeError": "Key x: bad value", "NSKeyError": "Key 'y' is not expected", "TypeError-already-prefixed": "Validation failed: Key x.z: bad", "ValueError": "other"}[kind]
        raise PyRaise(ExcVal(kind.split("-")[0], args=(msg,), origin=origin))

    def check_values(c, a, k):
        c.event("check_values", a[0], list(open_cms))
        return outcome(values, "check_values")

    def check_required(c, a, k):
        c.event("check_required", a[0], a[1], a[2], list(open_cms))
        return outcome(required, "check_required")

    self = Rec("ArgumentParser", attrs={"parser_mode": "yaml"})
    kwargs = {} if prefix_kw is None else {"_prefix": prefix_kw}
    calls = {"get_private_kwargs": lambda c, a, k: a[0].pop("_prefix", k["_prefix"]) if "_prefix" in k else None, "Namespace": ns_new,
             "check_values": check_values, "check_required": check_required, "lenient_check.get": lambda c, a, k: lenient}
    cms = {"parser_context": (lambda c, a, k: open_cms.append(dict(k)), lambda c, t, e: (open_cms.pop(), False)[1])}
    return Setup(env={"self": self, "cfg": given, "skip_none": True, "skip_required": skip_required, "branch": branch, "kwargs": kwargs}, calls=calls, cms=cms,
                 data=dict(branch=branch, skip_required=skip_required, lenient=lenient, values=values, required=required, prefix=prefix_kw or "", given=given, clone=clone, wrapped=wrapped,
                           open_cms=open_cms, self_=self))


def _checked_object(d):
    if d["branch"] is None:
        return d["clone"]
    return d["wrapped"].get("__obj__")


def va_common(ctx, d, tag):
    ev = ctx.events
    cv = [e for e in ev if e[0] == "check_values"]
    obj = _checked_object(d)
    ok = len(cv) == 1 and cv[0][1] is obj and cv[0][2] == [{"load_value_mode": "yaml"}]
    if d["branch"] is not None:
        ok = ok and d["wrapped"].get("br") is d["clone"] and set(d["wrapped"]) == {"br", "__obj__"}
    ctx.oblige("post", "the-values-are-checked-on-every-call:once,on-a-clone-of-what-was-given(under the branch key when one is named),inside-the-parser's-load-value-context" + tag, ok)
    ctx.oblige("post", "the-given-configuration-is-only-cloned(never handed to a check)" + tag,
               [e[0] for e in ev].count("clone") == 1 and not any(x is d["given"] for e in ev for x in e[1:] if isinstance(x, Rec)))
    ctx.oblige("post", "no-context-left-open" + tag, not d["open_cms"])


def va_post(ctx, st, result):
    d = st.data
    tag = f"[branch={d['branch']},skip_required={d['skip_required']},lenient={d['lenient']}]"
    va_common(ctx, d, tag)
    ctx.oblige("post", "normal-return=>neither-check-failed" + tag, d["values"] == "ok" and (d["required"] == "ok" or d["skip_required"] or d["lenient"]) and result is None)
    cr = [e for e in ctx.events if e[0] == "check_required"]
    if d["skip_required"] or d["lenient"]:
        ctx.oblige("post", "required-keys-not-checked-only-when-skip_required-or-in-the-lenient-phase" + tag, not cr)
    else:
        names = [e[0] for e in ctx.events if e[0].startswith("check_")]
        ok = len(cr) == 1 and cr[0][1] is _checked_object(d) and cr[0][2] is d["self_"] and cr[0][3] == d["prefix"] and names == ["check_values", "check_required"]
        ctx.oblige("post", "required-keys-are-checked:on-the-same-object,for-this-parser,with-the-caller's-key-prefix,after-the-values" + tag, ok)


def va_raises(ctx, st, exc):
    d = st.data
    tag = f"[branch={d['branch']},skip_required={d['skip_required']},lenient={d['lenient']}]"
    va_common(ctx, d, tag)
    failed = d["values"] if d["values"] != "ok" else d["required"]
    ctx.oblige("raises", "raises=>one-of-the-checks-failed(and required keys were due)" + tag, failed != "ok" and (d["values"] != "ok" or not (d["skip_required"] or d["lenient"])))
    if failed == "ValueError":
        ctx.oblige("raises", "another-exception-class-propagates-as-it-is" + tag, exc.cls == "ValueError" and exc.origin == "check_values")
        return
    cls = failed.split("-")[0]
    msg = exc.args[0] if exc.args else None
    want = {"TypeError": "Validation failed: Key x: bad value", "NSKeyError": "Validation failed: Key 'y' is not expected", "TypeError-already-prefixed": "Validation failed: Key x.z: bad"}[failed]
    ctx.oblige("raises", f"a-failed-check-leaves-as-the-same-exception-class,its-message-prefixed-exactly-once(got {exc.cls}: {msg!r})" + tag, exc.cls == cls and msg == want)


def validate_unit(prop):
    return Unit(prop, "jsonargparse._core:ArgumentParser.validate", va_setup, va_post, va_raises, expect_cover=("return", "raise:TypeError", "raise:NSKeyError", "raise:ValueError"),
                trusted=["check_values / check_required: their own units (C06)", "cfg.clone() returns a copy (C11/C08 units)", "get_private_kwargs pops the private keyword or gives its default",
                         "parser_context: its own unit (contracts/ctxvars.py)"])


# ------------------------------------------------------------------------------------- strip_unknown
def su_setup(ctx):
    n = 4
    kinds = {f"k{i}": ["declared", "foreign", "meta"][ctx.choose(3, f"k{i}")] for i in range(n)}
    present = [k for k in kinds if ctx.choose(2, f"{k}-present") == 1]
    store = {k: z3.Int(f"v_{k}") for k in present}
    given_store = dict(store)
    clone = Rec("Namespace(clone)")
    clone.methods.update({"keys": lambda c, s_, a, k: list(store), "__delitem__": lambda c, s_, a, k: (c.event("del", a[0]), store.pop(a[0]))[0]})
    given = Rec("Namespace(given)", methods={"clone": lambda c, s_, a, k: clone,
                                             "keys": lambda c, s_, a, k: c.event("given.keys") or list(given_store), "__delitem__": lambda c, s_, a, k: c.event("given.del", a[0])})
    self = Rec("ArgumentParser")
    calls = {"_find_action": lambda c, a, k: Rec("Action", attrs={"dest": a[1]}) if kinds.get(a[1]) == "declared" else None, "is_meta_key": lambda c, a, k: kinds.get(a[0]) == "meta"}
    return Setup(env={"self": self, "cfg": given}, calls=calls, data=dict(kinds=kinds, present=present, store=store, given_store=given_store, clone=clone, self_=self))


def su_post(ctx, st, result):
    d = st.data
    keep = [k for k in d["present"] if d["kinds"][k] != "foreign"]
    ctx.oblige("post", "the-result-is-the-clone,holding-exactly-the-keys-that-have-an-action-or-are-meta-keys(order kept)", result is d["clone"] and list(d["store"]) == keep, note=f"{d['kinds']} {d['present']} -> {list(d['store'])}")
    ctx.oblige("post", "the-kept-values-are-untouched", all(d["store"][k] is d["given_store"][k] for k in d["store"]))
    ctx.oblige("post", "the-given-configuration-is-not-modified", not [e for e in ctx.events if e[0] == "given.del"] and list(d["given_store"]) == d["present"])


def strip_unknown_unit(prop):
    return Unit(prop, "jsonargparse._core:ArgumentParser.strip_unknown", su_setup, su_post, None, expect_cover=("return",),
                trusted=["_find_action(parser, key) returns the action declared for the key or None (C06 units)", "is_meta_key tells the __path__/__default_config__ style keys", "cfg.clone / keys / del by contract (C11)"])


UNITS = [validate_unit("C06"), strip_unknown_unit("C06")]
