"""Round 2 - the rest of jsonargparse/_parameter_resolvers.py under contract (C13).

Modelling (as in contracts/c13.py): an ast node is a record whose class is the node class (`Rec("Call", attrs=...)`, registered below `AST` in the
class table so that `isinstance(node, ast.Call)` is decided as CPython decides it); `ast.dump` is the canonical text of the record structure
(injective, includes the expression context), so two nodes "dump equal" exactly when they are structurally equal; ParamData is a record; the
visitor is a record with its state as attributes and the sibling methods as contract models.  The small `ast_*` classifiers are *inlined* (their
real bodies are interpreted), so the visitor units check them too.  Shapes (which statement form, which callee form) are enumerated exhaustively;
names are symbolic strings where the engine carries them (add_value, visit_Import, attribute search).

Clause of C13 behind every unit: the parameters offered for a callable that forwards *args/**kwargs are exactly those the code accepts; defaults
and origins come from the callee that really receives the value.

the visitor (what counts as a use of *args/**kwargs/self.attr - trusted by c13's get_parameters_args_and_kwargs / get_parameters_call_attr)
  ParametersVisitor.visit_Assign        `t = <value>` is one use (first key that matches, children not searched again); `t = dict(.., **value)` is a use
                                        of every value it unpacks; another dict assignment is remembered under its target (in Load context) and not
                                        searched; any other assignment is searched below
  ParametersVisitor.visit_AnnAssign     `t: T = v` is treated as `t = v`; `t: T` is nothing
  ParametersVisitor.visit_Call          a call that passes the value (positionally starred, as **, as keyword value) is a use - the remembered dict
                                        assignment instead when the call is a method of a remembered dict (d.update(**kwargs)); value.pop/get('name', d)
                                        is a use; the call's children are always searched (nested calls)
  ParametersVisitor.visit_If            `if GLOBAL:` / `if not GLOBAL:` with a module-level name: only the arm that runs is searched; any other test: both
  ParametersVisitor.visit_Import / visit_ImportFrom   every alias is remembered under the name it binds (asname, else name)
  ParametersVisitor.add_value           appends exactly (key, node, source): source is the local import statement that binds the name the call starts
                                        with, None otherwise
  ParametersVisitor.find_values_usage   a search starts from fresh state (earlier findings / dict assignments / imports are not carried over), visits the
                                        component's node and returns the findings
which callee receives the value
  ParametersVisitor.get_node_component  f(..) -> the module's f, else the locally imported f; cls(..) in a classmethod -> the class; self.m(..) ->
                                        (parent, m); K.m(..) with a class K -> (K, m); mod.f(..) -> (mod.f, None); anything else -> None (logged)
  ParametersVisitor.get_component_from_source  executes exactly the import statement given; the object it binds under the name, None if it fails
  ParametersVisitor.match_call_that_uses_attr  a call that unpacks **self.attr contributes the parameters of its callee minus what it hard-codes; every
                                        other form contributes nothing ([]); a node that is not a call is no match (None)
  ParametersVisitor.get_parameters_attr_use_in_members  the first public method / property of the parent whose body forwards self.attr decides
  ParametersVisitor.parse_source_tree   parsed once; component_node = the only statement of the dedented source; self_name = first argument of a method;
                                        every failure is SourceNotAvailable
  ParametersVisitor.get_node_origin / remove_ignore_parameters / log_debug / get_component_globals / get_call_class_type / get_default_nodes
  get_parameters_from_ast               visitor for (component, method, logger) -> its get_parameters()
reading the signature
  get_component_and_parent              which function is inspected for (class|function, method|None) - see the clauses in the obligation names
  get_signature_parameters_and_indexes  one ParamData per signature parameter (self dropped for members), indexes of *args/**kwargs in *that* list
  get_parameters_by_assumptions         *args/**kwargs of a method are replaced by the parameters of the next definer in the MRO, what is left of them is dropped
  get_parameters_from_stubs / add_stub_types / unpack_typed_dict_kwargs / replace_generic_type_vars
  is_param_subclass_instance_default / ParametersVisitor.replace_param_default_subclass_specs
  get_parameter_origins, has_dunder_new_method, is_staticmethod / is_method / is_property / is_method_or_property / is_classmethod / is_lambda
  ast_* classifiers not inlined elsewhere: ast_get_name_and_attrs, ast_is_super_call, ast_is_attr_assign, ast_is_kwargs_pop_or_get,
  ast_get_call_kwarg_with_value, ast_is_constant / ast_get_constant_value, ast_variable_load / ast_attribute_load / ast_str
(each unit's clauses are spelled out in the obligation names)
"""
import z3

from pyvc.engine import ClassRef, ExcVal, Fn, PyRaise, Rec, SymMap, is_z3
from pyvc.units import Setup, Unit

MOD = "jsonargparse._parameter_resolvers"
PV = MOD + ":ParametersVisitor."

AST_CLASSES = ("Call", "Name", "Attribute", "Assign", "AnnAssign", "AugAssign", "Dict", "If", "Constant", "UnaryOp", "Not", "USub", "Starred", "keyword", "Load", "Store",
               "Module", "FunctionDef", "Import", "ImportFrom", "alias", "Expr", "BinOp", "Lambda", "arguments", "arg", "Return", "Subscript", "Compare")


def ast_classes(ctx):
    ctx.classes.add("AST", ["object"])
    for c in AST_CLASSES:
        ctx.classes.add(c, ["AST"])


AST_CONSTS = {"ast." + c: ClassRef(c) for c in AST_CLASSES}
AST_CONSTS["ast.AST"] = ClassRef("AST")
AST_CONSTS["ast_assign_type"] = (ClassRef("AnnAssign"), ClassRef("Assign"))


def N(cls, **attrs):
    return Rec(cls, attrs=attrs)


def LOAD():
    return N("Load")


def STORE():
    return N("Store")


def name(id_, ctx=None):
    return N("Name", id=id_, ctx=ctx or LOAD())


def attribute(value, attr, ctx=None):
    return N("Attribute", value=value, attr=attr, ctx=ctx or LOAD())


def const(v):
    c = N("Constant", value=v)
    c.attrs["__class__"] = ClassRef("Constant")
    return c


def kw(arg, value):
    return N("keyword", arg=arg, value=value)


def call(func, args=(), keywords=()):
    return N("Call", func=func, args=list(args), keywords=list(keywords))


def dump(v):
    """ast.dump: canonical text of the structure (positions excluded, as ast.dump does by default)."""
    if isinstance(v, Rec):
        return v.cls + "(" + ", ".join(f"{k}={dump(x)}" for k, x in sorted(v.attrs.items()) if k not in ("lineno", "col_offset", "tag", "__class__")) + ")"
    if isinstance(v, (list, tuple)):
        return "[" + ", ".join(dump(x) for x in v) + "]"
    return repr(v)


def copy_node(v):
    if isinstance(v, Rec):
        return Rec(v.cls, attrs={k: copy_node(x) for k, x in v.attrs.items()})
    if isinstance(v, list):
        return [copy_node(x) for x in v]
    return v


def ast_calls():
    """ast constructors / ast.dump / deepcopy as used by the module (trusted: they build the node they name; dump is injective on structure)."""
    return {
        "ast.dump": lambda c, a, k: dump(a[0]),
        "ast.Load": lambda c, a, k: LOAD(),
        "ast.Name": lambda c, a, k: Rec("Name", attrs=dict(k)),
        "ast.Attribute": lambda c, a, k: Rec("Attribute", attrs=dict(k)),
        "ast.If": lambda c, a, k: Rec("If", attrs=dict(k)),
        "ast.Constant": lambda c, a, k: Rec("Constant", attrs=dict(k)),
        "deepcopy": lambda c, a, k: copy_node(a[0]),
    }


AST_TRUST = "ast: node classes and fields as ast.parse produces them; ast.dump(a) == ast.dump(b) iff a and b are structurally equal (incl. ctx); deepcopy copies a node"
INL = {n: MOD + ":" + n for n in (
    "ast_is_assign_with_value", "ast_is_dict_assign_with_value", "ast_is_dict_assign", "ast_get_assign_targets", "ast_is_call_with_value", "ast_is_kwargs_pop_or_get",
    "ast_get_constant_value", "ast_is_constant", "ast_is_not", "ast_variable_load", "ast_attribute_load", "ast_get_call_kwarg_with_value", "ast_get_name_and_attrs",
    "is_staticmethod", "is_method", "is_property", "is_method_or_property", "is_lambda")}
DICT_AST = dump(name("dict"))
CONSTANT_ATTR = Rec("dict ast_constant_attr", methods={"__getitem__": lambda c, s_, a, k: {"Constant": "value"}[a[0].name]})
HELPER_CONSTS = dict(AST_CONSTS, dict_ast=DICT_AST, ast_constant_types=(ClassRef("Constant"),), ast_constant_attr=CONSTANT_ATTR)


def inl(*names):
    return {n: INL[n] for n in names}


def never(ctx, st, exc):
    ctx.oblige("raises", f"never-raises(got {exc.cls}@{exc.origin})", False)


def same_list(a, b):
    return isinstance(a, list) and len(a) == len(b) and all(x is y for x, y in zip(a, b))


# ============================================================================================================ the visitor
def visitor(**attrs):
    v = Rec("ParametersVisitor", attrs=attrs)
    v.methods["generic_visit"] = lambda c, s_, a, k: c.event("generic_visit", a[0])
    v.methods["add_value"] = lambda c, s_, a, k: c.event("add_value", a[0], a[1])
    v.methods["log_debug"] = lambda c, s_, a, k: c.event("log")
    return v


# ------------------------------------------------------------------------------------------------ visit_Assign / visit_AnnAssign
VALUE_SHAPES = ["the-first-value", "the-second-value", "dict(k=1, **first)", "dict(**first, **second)", "dict(k=first)", "dict(k=1)", "{'k': 1}", "{**first}", "f(**first)", "other-name"]


def va_setup(ctx):
    ast_classes(ctx)
    two = ctx.choose(2, "values-searched") == 1
    ann = ctx.choose(2, "annotated-assignment") == 1
    shape = VALUE_SHAPES[ctx.choose(len(VALUE_SHAPES), "assigned-expression")]
    target_kind = ["name", "self.attr"][ctx.choose(2, "target")]
    first, second = name("args"), name("kwargs")
    if not two:
        first, second = name("kwargs"), name("unrelated")
    find = {"args": first, "kwargs": second} if two else {"kwargs": first}
    value = {
        "the-first-value": lambda: copy_node(first), "the-second-value": lambda: copy_node(second),
        "dict(k=1, **first)": lambda: call(name("dict"), [], [kw("k", const(1)), kw(None, copy_node(first))]),
        "dict(**first, **second)": lambda: call(name("dict"), [], [kw(None, copy_node(first)), kw(None, copy_node(second))]),
        "dict(k=first)": lambda: call(name("dict"), [], [kw("k", copy_node(first))]),
        "dict(k=1)": lambda: call(name("dict"), [], [kw("k", const(1))]),
        "{'k': 1}": lambda: N("Dict", keys=[const("k")], values=[const(1)]),
        "{**first}": lambda: N("Dict", keys=[None], values=[copy_node(first)]),
        "f(**first)": lambda: call(name("f"), [], [kw(None, copy_node(first))]),
        "other-name": lambda: name("something"),
    }[shape]()
    tgt = name("t", STORE()) if target_kind == "name" else attribute(name("self"), "stored", STORE())
    n_targets = 1 if ann else 1 + ctx.choose(2, "chained-targets")
    if ann:
        node = N("AnnAssign", target=tgt, annotation=name("dict"), value=value, simple=1)
    else:
        node = N("Assign", targets=[tgt] + [name("u", STORE())] * (n_targets - 1), value=value)
    old_assign = Rec("Assign", attrs={"tag": "earlier"})
    dict_assigns = {"earlier-dump": old_assign}
    self = visitor(find_values=find, dict_assigns=dict_assigns)
    snapshot = dump(node)
    return Setup(env={"self": self, "node": node}, calls=ast_calls(), consts=HELPER_CONSTS,
                 inline=inl("ast_is_assign_with_value", "ast_is_dict_assign_with_value", "ast_is_dict_assign", "ast_get_assign_targets"),
                 data=dict(two=two, shape=shape, node=node, tgt=tgt, target_kind=target_kind, dict_assigns=dict_assigns, old_assign=old_assign, snapshot=snapshot, n_targets=n_targets, ann=ann))


def va_post(ctx, st, result):
    d = st.data
    tag = f"[{d['shape']};{'2 values' if d['two'] else '1 value'};{'ann' if d['ann'] else 'plain'};target:{d['target_kind']}x{d['n_targets']}]"
    shape, two = d["shape"], d["two"]
    first_key, second_key = ("args", "kwargs") if two else ("kwargs", None)
    added = [(e[1], e[2]) for e in ctx.events if e[0] == "add_value"]
    visited = [e[1] for e in ctx.events if e[0] == "generic_visit"]
    new_assigns = {k: v for k, v in d["dict_assigns"].items() if k != "earlier-dump"}
    want = None
    if shape == "the-first-value":
        want = [first_key]
    elif shape == "the-second-value" and two:
        want = [second_key]
    elif shape == "dict(k=1, **first)":
        want = [first_key]
    elif shape == "dict(**first, **second)":
        want = [first_key] + ([second_key] if two else [])
    elif shape == "dict(k=first)":
        want = [first_key]   # the value stored under a key of the dict: reported as a use (the caller decides what the form means)
    if want is not None:
        ctx.oblige("post", "an-assignment-of-the-value(or of a dict(...) call that contains it)-is-one-use-per-value-it-contains,reported-with-the-assignment-node;it-is-not-searched-again-below" + tag,
                   [k for k, _ in added] == want and all(n is d["node"] for _, n in added) and not visited)
        ctx.oblige("frame", "a-use-is-not-also-remembered-as-a-dict-assignment" + tag, not new_assigns)
    elif shape in ("dict(k=1)", "{'k': 1}", "{**first}"):
        load_target = copy_node(d["tgt"])
        load_target.attrs["ctx"] = LOAD()
        keys = {dump(load_target)} | ({dump(name("u"))} if d["n_targets"] == 2 else set())
        ctx.oblige("post", "a-dict-assignment-without-the-value-is-remembered-under-each-target-as-it-reads-when-loaded(self.d / d),and-is-no-use" + tag,
                   set(new_assigns) == keys and all(v is d["node"] for v in new_assigns.values()) and not added and not visited)
    else:
        ctx.oblige("post", "any-other-assignment-is-searched-below(its value may contain a forwarding call)-and-is-itself-no-use" + tag,
                   not added and len(visited) == 1 and visited[0] is d["node"] and not new_assigns)
    ctx.oblige("frame", "the-tree-is-not-modified(the target keeps its Store context);earlier-dict-assignments-are-kept" + tag,
               dump(d["node"]) == d["snapshot"] and d["dict_assigns"].get("earlier-dump") is d["old_assign"])


def vaa_setup(ctx):
    ast_classes(ctx)
    has_value = ctx.choose(2, "has-a-value") == 1
    node = N("AnnAssign", target=name("t", STORE()), annotation=name("int"), value=name("kwargs") if has_value else None, simple=1)
    self = Rec("ParametersVisitor", methods={"visit_Assign": lambda c, s_, a, k: c.event("visit_Assign", a[0]), "generic_visit": lambda c, s_, a, k: c.event("generic_visit", a[0])})
    return Setup(env={"self": self, "node": node}, consts=HELPER_CONSTS, data=dict(has_value=has_value, node=node))


def vaa_post(ctx, st, result):
    d = st.data
    ev = list(ctx.events)
    if d["has_value"]:
        ctx.oblige("post", "`t: T = v`-is-handled-exactly-as-`t = v`", len(ev) == 1 and ev[0][0] == "visit_Assign" and ev[0][1] is d["node"])
    else:
        ctx.oblige("post", "a-bare-annotation-`t: T`-assigns-nothing:no-use,no-search", not ev)


# ------------------------------------------------------------------------------------------------ visit_Call
CALL_SHAPES = ["f(**v)", "f(*v)", "f(k=v)", "f(v)", "obj.m(**v)", "d.update(**v)[d remembered]", "self.d.update(**v)[self.d remembered]", "v.pop('n', 1)", "v.get('n', None)", "v.pop('n')", "v.pop(7, 1)", "v.pop(name_var, 1)",
               "v.update('n', 1)", "w.pop('n', 1)", "f(**w)", "f(g(**v))", "f()"]


def vc_setup(ctx):
    ast_classes(ctx)
    two = ctx.choose(2, "values-searched") == 1
    shape = CALL_SHAPES[ctx.choose(len(CALL_SHAPES), "call")]
    attr_value = ctx.choose(2, "the-value-is-self.attr") == 1
    v = (lambda: attribute(name("self"), "stored")) if attr_value else (lambda: name("kwargs"))
    w = lambda: name("other")  # noqa: E731
    find = {"kwargs": v()} if not two else {"args": name("args"), "kwargs": v()}
    if attr_value:
        find = {"stored": v()} if not two else {"other_attr": attribute(name("self"), "other_attr"), "stored": v()}
    vkey = "stored" if attr_value else "kwargs"
    inner = None
    node = {
        "f(**v)": lambda: call(name("f"), [], [kw(None, v())]),
        "f(*v)": lambda: call(name("f"), [N("Starred", value=v(), ctx=LOAD())], []),
        "f(k=v)": lambda: call(name("f"), [], [kw("k", v())]),
        "f(v)": lambda: call(name("f"), [v()], []),
        "obj.m(**v)": lambda: call(attribute(name("obj"), "m"), [], [kw(None, v())]),
        "d.update(**v)[d remembered]": lambda: call(attribute(name("d"), "update"), [], [kw(None, v())]),
        "self.d.update(**v)[self.d remembered]": lambda: call(attribute(attribute(name("self"), "d"), "update"), [], [kw(None, v())]),
        "v.pop('n', 1)": lambda: call(attribute(v(), "pop"), [const("n"), const(1)], []),
        "v.get('n', None)": lambda: call(attribute(v(), "get"), [const("n"), const(None)], []),
        "v.pop('n')": lambda: call(attribute(v(), "pop"), [const("n")], []),
        "v.pop(7, 1)": lambda: call(attribute(v(), "pop"), [const(7), const(1)], []),
        "v.pop(name_var, 1)": lambda: call(attribute(v(), "pop"), [name("name_var"), const(1)], []),
        "v.update('n', 1)": lambda: call(attribute(v(), "update"), [const("n"), const(1)], []),
        "w.pop('n', 1)": lambda: call(attribute(w(), "pop"), [const("n"), const(1)], []),
        "f(**w)": lambda: call(name("f"), [], [kw(None, w())]),
        "f(g(**v))": lambda: call(name("f"), [call(name("g"), [], [kw(None, v())])], []),
        "f()": lambda: call(name("f"), [], []),
    }[shape]()
    d_assign, selfd_assign = Rec("Assign", attrs={"tag": "d = dict(..)"}), Rec("Assign", attrs={"tag": "self.d = dict(..)"})
    dict_assigns = {dump(name("d")): d_assign, dump(attribute(name("self"), "d")): selfd_assign}
    self = visitor(find_values=find, dict_assigns=dict_assigns)
    return Setup(env={"self": self, "node": node}, calls=ast_calls(), consts=HELPER_CONSTS,
                 inline=inl("ast_is_call_with_value", "ast_is_kwargs_pop_or_get", "ast_get_constant_value", "ast_is_constant"),
                 data=dict(two=two, shape=shape, node=node, vkey=vkey, d_assign=d_assign, selfd_assign=selfd_assign, snapshot=dump(node), attr_value=attr_value))


def vc_post(ctx, st, result):
    d = st.data
    shape = d["shape"]
    tag = f"[{shape};{'2 values' if d['two'] else '1 value'};value:{'self.stored' if d['attr_value'] else 'kwargs'}]"
    added = [(e[1], e[2]) for e in ctx.events if e[0] == "add_value"]
    visited = [e[1] for e in ctx.events if e[0] == "generic_visit"]
    if shape in ("f(**v)", "f(*v)", "f(k=v)", "obj.m(**v)", "v.pop('n', 1)", "v.get('n', None)"):
        want = [(d["vkey"], d["node"])]
        words = "a-call-that-passes-the-value(starred,unpacked,as-a-keyword)-or-pops/gets-a-named-entry-from-it-is-one-use-of-that-value,reported-with-the-call-node"
    elif shape == "d.update(**v)[d remembered]":
        want = [(d["vkey"], d["d_assign"])]
        words = "a-method-call-on-a-remembered-dict-that-passes-the-value-is-reported-as-a-use-at-the-dict's-assignment(d = dict(..); d.update(**kwargs))"
    elif shape == "self.d.update(**v)[self.d remembered]":
        # the receiver `self.d` is an Attribute: the remembered assignment is the one stored under its loaded form
        want = [(d["vkey"], d["selfd_assign"])]
        words = "a-method-call-on-a-remembered-dict-attribute-that-passes-the-value-is-reported-at-that-attribute's-assignment(self.d = dict(..); self.d.update(**kwargs))"
    else:
        want = []
        words = "a-call-that-does-not-pass-the-value(plain positional use,another variable,pop without default,non-constant name,other method)-is-no-use"
    ctx.oblige("post", words + tag, len(added) == len(want) and all(a[0] == b[0] and a[1] is b[1] for a, b in zip(added, want)), note=f"want {[(k, getattr(n, 'attrs', {}).get('tag', 'node')) for k, n in want]} got {[(k, getattr(n, 'attrs', {}).get('tag', 'node')) for k, n in added]}")
    ctx.oblige("post", "the-call's-children-are-always-searched,once(a forwarding call may be nested in an argument)" + tag, len(visited) == 1 and visited[0] is d["node"])
    ctx.oblige("frame", "the-tree-is-not-modified" + tag, dump(d["node"]) == d["snapshot"])


# ------------------------------------------------------------------------------------------------ visit_If
IF_TESTS = ["GLOBAL", "not GLOBAL", "local_name", "not local_name", "a == b", "not (a == b)", "obj.flag"]


def vi_setup(ctx):
    ast_classes(ctx)
    test_kind = IF_TESTS[ctx.choose(len(IF_TESTS), "test")]
    gval = z3.Int("value-of-GLOBAL")
    comp = N("Compare", left=name("a"), right=name("b"))
    test = {"GLOBAL": lambda: name("GLOBAL"), "not GLOBAL": lambda: N("UnaryOp", op=N("Not"), operand=name("GLOBAL")),
            "local_name": lambda: name("flag"), "not local_name": lambda: N("UnaryOp", op=N("Not"), operand=name("flag")),
            "a == b": lambda: comp, "not (a == b)": lambda: N("UnaryOp", op=N("Not"), operand=comp), "obj.flag": lambda: attribute(name("GLOBAL"), "flag")}[test_kind]()
    has_else = ctx.choose(2, "has-else") == 1
    body, orelse = [N("Expr", value=call(name("first"), [], [kw(None, name("kwargs"))]))], ([N("Expr", value=call(name("second"), [], [kw(None, name("kwargs"))]))] if has_else else [])
    node = N("If", test=test, body=body, orelse=orelse)
    self = visitor()
    self.methods["get_component_globals"] = lambda c, s_, a, k: {"GLOBAL": gval, "OTHER": 1}
    return Setup(env={"self": self, "node": node}, calls=ast_calls(), consts=HELPER_CONSTS, inline=inl("ast_is_not"),
                 data=dict(test_kind=test_kind, gval=gval, node=node, body=body, orelse=orelse, has_else=has_else, snapshot=dump(node)), watch={"GLOBAL": gval})


def vi_post(ctx, st, result):
    d = st.data
    tag = f"[if {d['test_kind']};{'else' if d['has_else'] else 'no else'}]"
    visited = [e[1] for e in ctx.events if e[0] == "generic_visit"]
    ctx.oblige("post", "exactly-one-search-below-the-if" + tag, len(visited) == 1)
    if len(visited) != 1:
        return
    seen = visited[0]
    if d["test_kind"] in ("GLOBAL", "not GLOBAL"):
        truthy = d["gval"] != 0
        runs_body = truthy if d["test_kind"] == "GLOBAL" else z3.Not(truthy)
        is_if = isinstance(seen, Rec) and seen.cls == "If" and seen is not d["node"]
        ctx.oblige("post", "a-test-on-a-module-level-constant-is-decided-now:only-the-arm-that-will-run-is-searched(the other arm's callee never receives the value)" + tag,
                   is_if and z3.If(runs_body, seen.attrs["body"] is d["body"], seen.attrs["body"] is d["orelse"]) if is_if else False)
        ctx.oblige("post", "nothing-of-the-arm-that-does-not-run-is-searched:the-node-searched-has-no-else-and-a-constant-test" + tag,
                   is_if and seen.attrs.get("orelse") == [] and isinstance(seen.attrs.get("test"), Rec) and seen.attrs["test"].cls == "Constant")
    else:
        ctx.oblige("post", "a-test-that-cannot-be-decided(local name,expression,attribute)-keeps-both-arms:the-if-itself-is-searched(union of the arms,first arm first)" + tag, seen is d["node"])
    ctx.oblige("frame", "the-tree-is-not-modified" + tag, dump(d["node"]) == d["snapshot"] and d["node"].attrs["body"] is d["body"] and d["node"].attrs["orelse"] is d["orelse"])


# ------------------------------------------------------------------------------------------------ visit_Import / visit_ImportFrom
def vim_setup(ctx):
    ast_classes(ctx)
    n = 1 + ctx.choose(2, "n-aliases")
    aliases, binds = [], []
    for i in range(n):
        nm = z3.String(f"name{i}")
        ctx.assume(z3.Length(nm) > 0)
        if ctx.choose(2, f"alias{i}-has-asname") == 1:
            asn = z3.String(f"asname{i}")
            ctx.assume(z3.Length(asn) > 0)
            aliases.append(N("alias", name=nm, asname=asn))
            binds.append(asn)
        else:
            aliases.append(N("alias", name=nm, asname=None))
            binds.append(nm)
    node = N("Import", names=aliases)
    store = []
    names = Rec("dict", methods={"__setitem__": lambda c, s_, a, k: store.append((a[0], a[1]))})
    self = visitor(import_names=names)
    self.methods["visit_Import"] = lambda c, s_, a, k: c.event("visit_Import", a[0])
    return Setup(env={"self": self, "node": node}, consts=HELPER_CONSTS, data=dict(node=node, binds=binds, store=store, n=n))


def vim_post(ctx, st, result):
    d = st.data
    ok = len(d["store"]) == d["n"] and all(v is d["node"] for _, v in d["store"])
    ctx.oblige("post", "every-alias-is-remembered-once,with-the-import-statement", ok)
    if ok:
        ctx.oblige("post", "under-the-name-it-binds:`import a as b`/`from m import a as b`-bind-b,otherwise-a",
                   z3.And(*[(k == b) if is_z3(k) else z3.BoolVal(False) for (k, _), b in zip(d["store"], d["binds"])]))
    ctx.oblige("post", "an-import-contains-no-use:nothing-is-searched-or-reported", not ctx.events)


def vif_post(ctx, st, result):
    ev = list(ctx.events)
    ctx.oblige("post", "`from m import a`-is-remembered-exactly-as-`import a`", len(ev) == 1 and ev[0][0] == "visit_Import" and ev[0][1] is st.data["node"] and not st.data["store"])


# ------------------------------------------------------------------------------------------------ add_value
FUNC_SHAPES = ["name(..)", "name.attr(..)", "name.a.b(..)", "f()(..)", "not-a-call:assignment"]


def av_setup(ctx):
    ast_classes(ctx)
    shape = FUNC_SHAPES[ctx.choose(len(FUNC_SHAPES), "node")]
    nm = z3.String("first-name-of-the-callee")
    ctx.assume(z3.Length(nm) > 0)
    func = {"name(..)": lambda: name(nm), "name.attr(..)": lambda: attribute(name(nm), "attr"), "name.a.b(..)": lambda: attribute(attribute(name(nm), "a"), "b"),
            "f()(..)": lambda: call(name(nm)), "not-a-call:assignment": lambda: None}[shape]()
    node = call(func, [], [kw(None, name("kwargs"))]) if func is not None else N("Assign", targets=[name(nm, STORE())], value=name("kwargs"))
    imports = SymMap(ctx, "import_names", z3.StringSort(), z3.IntSort())
    import_names = Rec("dict", methods={"__contains__": lambda c, s_, a, k: imports.has(a[0]), "__getitem__": lambda c, s_, a, k: imports.get(a[0])})
    earlier = ("earlier-key", Rec("earlier node"), None)
    found = [earlier]
    key = z3.String("key")
    self = Rec("ParametersVisitor", attrs={"import_names": import_names, "values_found": found})
    return Setup(env={"self": self, "key": key, "node": node}, consts=HELPER_CONSTS, data=dict(shape=shape, nm=nm, node=node, imports=imports, found=found, earlier=earlier, key=key))


def av_post(ctx, st, result):
    d = st.data
    tag = f"[{d['shape']}]"
    found = d["found"]
    ok = len(found) == 2 and found[0] is d["earlier"] and isinstance(found[1], tuple) and len(found[1]) == 3
    ctx.oblige("post", "exactly-one-finding-is-appended;earlier-findings-are-kept-in-order" + tag, ok)
    if not ok:
        return
    k, n, src = found[1]
    ctx.oblige("post", "it-carries-the-key-and-the-node-given" + tag, z3.And(k == d["key"]) if is_z3(k) else False)
    ctx.oblige("post", "it-carries-the-node-given" + tag, n is d["node"])
    if d["shape"] in ("name(..)", "name.attr(..)"):
        imported = d["imports"].has(d["nm"])
        if src is None:
            ctx.oblige("post", "the-call-starts-with-a-name-bound-by-a-local-import=>the-source-is-that-import-statement" + tag, z3.Not(imported))
        else:
            ctx.oblige("post", "the-source-is-the-local-import-statement-that-binds-the-name-the-call-starts-with,and-only-then" + tag, z3.And(imported, src == d["imports"].get(d["nm"])) if is_z3(src) else False)
    else:
        ctx.oblige("post", "a-node-that-is-no-call(or whose callee does not start with name / name.attr)-has-no-source" + tag, src is None)


# ------------------------------------------------------------------------------------------------ find_values_usage
def fvu_setup(ctx):
    comp_node = Rec("FunctionDef")
    old = dict(find_values={"old": 1}, values_found=[("old", None, None)], dict_assigns={"old": 1}, import_names={"old": 1})
    first_search = ctx.choose(2, "a-search-was-made-before") == 0
    self = Rec("ParametersVisitor", attrs=dict(component_node=comp_node, **({} if first_search else dict(old))))
    seen = {}

    def visit(c, s_, a, k):
        seen.update(node=a[0], state={n: s_.attrs.get(n) for n in ("find_values", "values_found", "dict_assigns", "import_names")})
        s_.attrs["values_found"].append(("kwargs", Rec("Call"), None))
        s_.attrs["dict_assigns"]["x"] = 1
        s_.attrs["import_names"]["y"] = 2

    self.methods["visit"] = visit
    values = {"kwargs": Rec("Name")}
    return Setup(env={"self": self, "values": values}, data=dict(self_=self, comp_node=comp_node, seen=seen, values=values, old=old, first_search=first_search))


def fvu_post(ctx, st, result):
    d = st.data
    s = d["seen"].get("state") or {}
    tag = f"[{'first search' if d['first_search'] else 'second search'}]"
    ctx.oblige("post", "the-component's-node-is-visited-once,searching-for-the-values-given" + tag, d["seen"].get("node") is d["comp_node"] and s.get("find_values") is d["values"])
    ctx.oblige("post", "a-search-starts-from-empty-findings,dict-assignments-and-imports:objects-of-their-own(nothing of an earlier search - another member's body - is carried over)" + tag,
               all(isinstance(s.get(n), t) and s.get(n) is not d["old"][n] for n, t in (("values_found", list), ("dict_assigns", dict), ("import_names", dict)))
               and d["old"]["values_found"] == [("old", None, None)] and d["old"]["dict_assigns"] == {"old": 1} and d["old"]["import_names"] == {"old": 1}
               and isinstance(result, list) and len(result) == 1)
    ctx.oblige("post", "the-result-is-what-the-visit-found" + tag, result is d["self_"].attrs.get("values_found") and isinstance(result, list) and len(result) == 1 and result[0][0] == "kwargs")


VISITOR_TRUST = "ast.NodeVisitor: visit(node) calls visit_<Class>(node) when defined, else generic_visit(node), which visits the child nodes in field order (source order)"


def units_visitor(prop):
    return [
        Unit(prop, PV + "visit_Assign", va_setup, va_post, never, max_paths=4000, trusted=[AST_TRUST, VISITOR_TRUST, "add_value: its own unit"]),
        Unit(prop, PV + "visit_AnnAssign", vaa_setup, vaa_post, never, trusted=["visit_Assign: its own unit"]),
        Unit(prop, PV + "visit_Call", vc_setup, vc_post, never, max_paths=4000, trusted=[AST_TRUST, VISITOR_TRUST, "add_value: its own unit"]),
        Unit(prop, PV + "visit_If", vi_setup, vi_post, never, trusted=[AST_TRUST, VISITOR_TRUST, "get_component_globals: the globals of the module that defines the component (the namespace the test is evaluated in at run time)"]),
        Unit(prop, PV + "visit_Import", vim_setup, vim_post, never, trusted=["ast.alias: asname is None or a non-empty identifier; name is non-empty"]),
        Unit(prop, PV + "visit_ImportFrom", vim_setup, vif_post, never, trusted=["visit_Import: its own unit"]),
        Unit(prop, PV + "add_value", av_setup, av_post, never, trusted=["identifiers are non-empty strings"]),
        Unit(prop, PV + "find_values_usage", fvu_setup, fvu_post, never, trusted=[VISITOR_TRUST]),
    ]


def units(prop):
    return units_visitor(prop)


CARRIES = {}
